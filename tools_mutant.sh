#!/bin/bash
# usage: mut.sh <file-rel> <python-re-pattern> <replacement> <count-index> [family]
D=/var/tmp/pvf_mutant_$$
rm -rf $D; mkdir -p $D; cp -r /repo/prettyprinter $D/
/venv/bin/python - "$D/$1" "$2" "$3" "$4" <<'PY' || { echo "MUTATION NOT APPLIED"; rm -rf $D; exit 2; }
import sys,re
p,pat,rep,idx=sys.argv[1:5]; idx=int(idx)
s=open(p).read()
ms=list(re.finditer(pat,s))
if not ms:
    sys.exit('pattern not found')
m=ms[idx]
s2=s[:m.start()]+m.expand(rep)+s[m.end():]
if s2 == s: sys.exit('no change')
open(p,'w').write(s2)
PY
cd /verif && PVF_REPO=$D .venv/bin/python -m pvf.pyvc.run ${5:-layout} -j 16 2>&1 | grep -v "model:" | grep -E "refuted|undecided|OUTSIDE|CRASH|total|vacuous" | cut -c1-200 | head -12
rm -rf $D
