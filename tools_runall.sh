#!/bin/bash
# dev-time tool: every quick check on the unchanged tree (regenerates evidence/*.json); not a registered command
cd /verif
for p in C01 C02 C03 C04 C05 C06 C07 C08 C09 C10 C11 C12 C13 C14 C15 C16 C17 C18 C19; do
  /usr/bin/time -f "$p %es exit=%x" ./check $p --tier quick 2>&1 | grep -v "^  " | cut -c1-170 | tail -4
done
