#!/bin/bash
# Builds /verif/.venv offline: python 3.12 from /venv, packages from the wheelhouse,
# a .pth that adds /venv's site-packages (the repo's own dependencies).
set -e
cd "$(dirname "$0")"
if [ -x .venv/bin/python ] && .venv/bin/python -c "import z3, cvc5, jsonschema, hypothesis, prettyprinter" 2>/dev/null; then
  echo "setup: .venv already usable"; exit 0
fi
rm -rf .venv
/venv/bin/python -m venv .venv
export PIP_NO_INDEX=1
.venv/bin/pip install -q --no-index --find-links /opt/veriftools/wheels \
   z3-solver cvc5 crosshair-tool deal icontract hypothesis jsonschema typeshed_client >/dev/null
SP=$(.venv/bin/python -c "import sysconfig; print(sysconfig.get_paths()['purelib'])")
echo "import site; site.addsitedir('/venv/lib/python3.12/site-packages')" > "$SP/zz_repo_deps.pth"
.venv/bin/python -c "import z3, cvc5, jsonschema, hypothesis, prettyprinter; print('setup: ok', z3.get_version_string())"
