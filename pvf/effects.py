"""Frame obligations by effect analysis over the ast of the real source (DESIGN 6-C19, 6-C03).

A frame condition ("nothing outside the declared frame is written", "id() flows nowhere but the visited set and the
recursion marker", "the layout settings never reach the printers") is a universally quantified statement about every
execution; here each one is decided *syntactically*, per mutation site, from the source as it is now:

  F1 mutation frame    every store through an attribute / subscript, every `del`, every call of a mutating method
                       targets (a) an object created in the same function, (b) `self` inside the package's own
                       classes where the frame says so, or (c) a declared frame location; never something reachable
                       from a printer's value parameter
  F2 module state      every module-level mutable binding, every `global` rebinding and every memoising decorator is
                       a declared frame location
  F3 id() flow         id(x) occurs only in the visited-set primitives and in the recursion marker
  F4 settings flow     in python_to_sdocs, `width` / `ribbon_width` reach only the layout call; PrettyContext has no
                       width field; the entry points hand the same merged settings to python_to_sdocs

Each site is one named obligation, `discharged` with the rule that justified it or `refuted` with the source line.
Sound under the assumptions listed in ASSUMPTIONS (no reflection / exec / setattr by name, methods invoked on values are
non-mutating unless named in MUTATORS, user __repr__/__eq__/__lt__/__hash__ pure).
"""
import ast
import hashlib
import os

from pvf import REPO

MODULES = ['prettyprinter/prettyprinter.py', 'prettyprinter/pretty_stdlib.py', 'prettyprinter/doctypes.py', 'prettyprinter/doc.py',
           'prettyprinter/layout.py', 'prettyprinter/render.py', 'prettyprinter/utils.py', 'prettyprinter/sdoctypes.py',
           'prettyprinter/__init__.py', 'prettyprinter/color.py', 'prettyprinter/extras/dataclasses.py', 'prettyprinter/extras/attrs.py']

MUTATORS = {'append', 'extend', 'insert', 'pop', 'remove', 'clear', 'update', 'add', 'discard', 'sort', 'reverse', 'setdefault',
            'popitem', 'appendleft', 'popleft', 'rotate', 'write', 'writelines', 'register', 'update_palette', '__setitem__',
            '__delitem__', 'difference_update', 'intersection_update', 'symmetric_difference_update'}
FRESH_CALLS = {'list', 'dict', 'set', 'tuple', 'sorted', 'frozenset', 'copy', 'deepcopy', 'reversed', 'StringIO', 'OrderedDict',
               'WeakKeyDictionary', 'bytearray', 'defaultdict', 'deque', 'Counter', 'ChainMap', 'zip', 'map', 'filter', 'iter', 'chain'}

# the declared frame: (module, function qualname or '*', root name, attribute or method or '*') -> reason
FRAME = [
    ('*', '*.__init__', 'self', '*', 'an object initialises its own fields'),
    ('prettyprinter/doctypes.py', 'FlatChoice.when_broken', 'self', '_when_broken', 'lazy normalisation cache (transparent: C04 normalize family)'),
    ('prettyprinter/doctypes.py', 'FlatChoice.when_broken', 'self', '_broken_normalized', 'lazy normalisation cache'),
    ('prettyprinter/doctypes.py', 'FlatChoice.when_flat', 'self', '_when_flat', 'lazy normalisation cache'),
    ('prettyprinter/doctypes.py', 'FlatChoice.when_flat', 'self', '_flat_normalized', 'lazy normalisation cache'),
    ('prettyprinter/prettyprinter.py', 'PrettyContext.start_visit', 'self', 'visited', 'the visited set of the call (fresh per top-level call; restored: runpretty family)'),
    ('prettyprinter/prettyprinter.py', 'PrettyContext.end_visit', 'self', 'visited', 'the visited set of the call'),
    ('prettyprinter/prettyprinter.py', 'register_pretty.decorator', '_DEFERRED_DISPATCH_BY_NAME', '*', 'registration is the purpose of the function'),
    ('prettyprinter/prettyprinter.py', 'register_pretty.decorator', '_PREDICATE_REGISTRY', '*', 'registration'),
    ('prettyprinter/prettyprinter.py', 'register_pretty.decorator', 'pretty_dispatch', 'register', 'registration'),
    ('prettyprinter/prettyprinter.py', 'is_registered', '_DEFERRED_DISPATCH_BY_NAME', 'pop', 'promotion of a deferred printer (dispatch unchanged: C15)'),
    ('prettyprinter/prettyprinter.py', 'pretty_cnamedtuple', '_cnamedtuple_fieldnames_by_class', '*', 'field-name cache keyed by class (a function of the class)'),
    ('prettyprinter/render.py', 'default_render_to_stream', 'stream', 'write', 'the output stream'),
    ('prettyprinter/render.py', 'default_render_to_stream', 'sdoc_line', '*', 'a line list created by as_lines from the local copy `evald`'),
    ('prettyprinter/color.py', 'colored_render_to_stream', 'stream', 'write', 'the output stream'),
    ('prettyprinter/color.py', 'colored_render_to_stream', 'sdoc_line', '*', 'a line list created by as_lines from the local copy `evald`'),
    ('prettyprinter/color.py', 'styleattrs_to_colorful', 'colorful', 'update_palette', "colorful's palette (cpprint only)"),
    ('prettyprinter/__init__.py', 'pprint', 'stream', 'write', 'the output stream'),
    ('prettyprinter/__init__.py', 'cpprint', 'stream', 'write', 'the output stream'),
    ('prettyprinter/layout.py', 'fast_fitting_predicate', 'triplestack', '*', 'the caller passes a private copy / a fresh list (best_layout: copy(triplestack), [triple])'),
    ('prettyprinter/layout.py', 'smart_fitting_predicate', 'triplestack', '*', 'the caller passes a private copy'),
    ('prettyprinter/utils.py', 'compose.composed', 'composed', '__name__', 'names the closure it just created'),
    ('prettyprinter/utils.py', 'compose', 'composed', '__name__', 'names the closure it just created'),
]
GLOBAL_FRAME = {
    'prettyprinter/prettyprinter.py': {'_DEFERRED_DISPATCH_BY_NAME': 'printer registry (deferred)', '_PREDICATE_REGISTRY': 'printer registry (predicates)',
                                       '_cnamedtuple_fieldnames_by_class': 'field-name cache keyed by class',
                                       'IMPLICIT_MODULES': 'constant set, never written', 'pretty_dispatch': 'printer registry (singledispatch)'},
    'prettyprinter/__init__.py': {'_default_config': 'the default configuration (C18: set_default_config)', 'ALL_EXTRAS': 'constant',
                                  'EMPTY_SET': 'constant', '__all__': 'constant'},
    'prettyprinter/color.py': {'_SYNTAX_TOKEN_TO_PYGMENTS_TOKEN': 'constant table', 'default_style': 'default style (set_default_style)',
                               'is_light_bg': 'computed once at import'},
}
GLOBAL_REBIND_OK = {('prettyprinter/__init__.py', 'set_default_config', '_default_config'), ('prettyprinter/color.py', 'set_default_style', 'default_style')}
ID_OK = {('prettyprinter/prettyprinter.py', 'PrettyContext.start_visit'), ('prettyprinter/prettyprinter.py', 'PrettyContext.end_visit'),
         ('prettyprinter/prettyprinter.py', 'PrettyContext.is_visited'), ('prettyprinter/prettyprinter.py', '_pretty_recursion')}
MEMO_DECORATORS = {'lru_cache', 'cache', 'cached_property', 'memoize', 'memoized'}
ASSUMPTIONS = [
    'effect analysis: no reflection, exec, setattr/delattr by computed name; methods invoked on values are non-mutating unless listed in MUTATORS',
    'effect analysis: user-supplied __repr__/__eq__/__lt__/__hash__, printers and contextual functions are pure',
    'effect analysis: an object assigned from a constructor, literal, comprehension or list()/dict()/set()/sorted()/copy() call in the same '
    'function is fresh; the declared frame (effects.FRAME, GLOBAL_FRAME) is trusted to be the intended one',
]


def functions(tree):
    """[(qualname, FunctionDef, enclosing class name or None)] including nested defs"""
    out = []

    def walk(node, prefix, cls):
        for n in getattr(node, 'body', []):
            if isinstance(n, (ast.FunctionDef, ast.AsyncFunctionDef)):
                q = prefix + n.name
                out.append((q, n, cls))
                walk(n, q + '.', cls)
            elif isinstance(n, ast.ClassDef):
                walk(n, prefix + n.name + '.', n.name)
            elif isinstance(n, (ast.If, ast.Try, ast.With, ast.For, ast.While)):
                walk(n, prefix, cls)
                for h in getattr(n, 'handlers', []):
                    walk(h, prefix, cls)
                if getattr(n, 'orelse', None):
                    walk(ast.Module(body=n.orelse, type_ignores=[]), prefix, cls)
    walk(tree, '', None)
    return out


def root_name(node):
    while isinstance(node, (ast.Attribute, ast.Subscript)):
        node = node.value
    if isinstance(node, ast.Name):
        return node.id
    if isinstance(node, ast.Call):
        return None
    return None


def own_nodes(fn):
    """nodes of a function without the bodies of nested defs / lambdas' own scopes (lambdas stay: same scope for effects)"""
    stack = [b for b in fn.body]
    while stack:
        n = stack.pop()
        if isinstance(n, (ast.FunctionDef, ast.AsyncFunctionDef, ast.ClassDef)):
            continue        # a nested definition is analysed as its own function
        yield n
        for c in ast.iter_child_nodes(n):
            if isinstance(c, (ast.FunctionDef, ast.AsyncFunctionDef, ast.ClassDef)):
                continue
            stack.append(c)


class FnFacts:
    def __init__(self, fn):
        self.params = [a.arg for a in fn.args.posonlyargs + fn.args.args + fn.args.kwonlyargs]
        if fn.args.vararg:
            self.params.append(fn.args.vararg.arg)
        if fn.args.kwarg:
            self.params.append(fn.args.kwarg.arg)
        self.fresh = set()        # names bound ONLY to fresh objects in this function
        self.notfresh = set()
        self.tainted = set()      # names reachable from the value parameter
        self.globals_declared = set()
        for n in own_nodes(fn):
            if isinstance(n, ast.Global):
                self.globals_declared |= set(n.names)
        value_param = None
        for p in self.params:
            if p not in ('self', 'cls', 'ctx'):
                value_param = p
                break
        self.value_param = value_param
        if value_param:
            self.tainted.add(value_param)
        # two passes for simple flow-insensitive propagation
        for _ in range(3):
            for n in own_nodes(fn):
                if isinstance(n, ast.Assign):
                    for t in n.targets:
                        self.bind(t, n.value)
                elif isinstance(n, ast.AnnAssign) and n.value is not None:
                    self.bind(n.target, n.value)
                elif isinstance(n, ast.For):
                    self.bind_iter(n.target, n.iter)
                elif isinstance(n, ast.comprehension):
                    self.bind_iter(n.target, n.iter)
                elif isinstance(n, ast.withitem) and n.optional_vars is not None:
                    self.bind(n.optional_vars, n.context_expr)
        self.fresh -= self.notfresh
        self.fresh -= set(self.params)

    def is_fresh_expr(self, v):
        if isinstance(v, (ast.List, ast.Dict, ast.Set, ast.ListComp, ast.DictComp, ast.SetComp, ast.Tuple, ast.Constant, ast.JoinedStr)):
            return True
        if isinstance(v, ast.Call):
            f = v.func
            name = f.id if isinstance(f, ast.Name) else (f.attr if isinstance(f, ast.Attribute) else None)
            if name in FRESH_CALLS:
                return True
            if name and name[:1].isupper():        # constructor call of a class
                return True
        if isinstance(v, ast.BinOp):
            return True
        if isinstance(v, ast.Subscript) and isinstance(v.slice, ast.Slice):
            return True         # slicing copies
        return False

    def expr_tainted(self, v):
        for x in ast.walk(v):
            if isinstance(x, ast.Name) and x.id in self.tainted:
                # list(value) etc. cut the taint for the container itself
                return True
        return False

    def bind(self, target, value):
        names = [x.id for x in ast.walk(target) if isinstance(x, ast.Name) and isinstance(x.ctx, ast.Store)]
        if isinstance(target, ast.Name):
            if self.is_fresh_expr(value):
                self.fresh.add(target.id)
            else:
                self.notfresh.add(target.id)
            cut = isinstance(value, ast.Call) and (
                (isinstance(value.func, ast.Name) and value.func.id in FRESH_CALLS) or
                (isinstance(value.func, ast.Attribute) and value.func.attr in ('copy', 'most_common', 'items', 'keys', 'values', 'as_posix')))
            if self.expr_tainted(value) and not cut:
                self.tainted.add(target.id)
        else:
            for nm in names:
                self.notfresh.add(nm)
                if self.expr_tainted(value):
                    self.tainted.add(nm)

    def bind_iter(self, target, it):
        for x in ast.walk(target):
            if isinstance(x, ast.Name):
                self.notfresh.add(x.id)
                if self.expr_tainted(it):
                    self.tainted.add(x.id)


def frame_allows(mod, qual, root, what):
    for m, q, r, w, why in FRAME:
        if m not in ('*', mod):
            continue
        if q != '*' and not (q == qual or (q.startswith('*.') and qual.endswith(q[1:]))):
            continue
        if r != root:
            continue
        if w != '*' and w != what:
            continue
        return why
    return None


def analyse():
    obligations = []

    def ob(kind, mod, qual, line, what, status, why, src=''):
        name = 'effects:%s:%s/%s@%s' % (mod.replace('prettyprinter/', '').replace('.py', ''), qual or '<module>', kind, what)
        obligations.append(dict(name=name, function='%s:%s' % (mod, qual), kind='frame', status=status, solver='effect-analysis', ms=0,
                                reason=why, lineno=line, size=0, model=None, source=src.strip()[:160]))

    # names that are written somewhere in the package: root of a store / del / mutating-method call, or rebound through `global`
    written = set()
    for mod_ in MODULES:
        path_ = os.path.join(REPO, mod_)
        if not os.path.exists(path_):
            continue
        try:
            tree_ = ast.parse(open(path_).read())
        except SyntaxError:
            continue
        for n_ in ast.walk(tree_):
            tg_ = []
            if isinstance(n_, ast.Assign):
                tg_ = list(n_.targets)
            elif isinstance(n_, (ast.AugAssign, ast.AnnAssign)):
                tg_ = [n_.target]
            elif isinstance(n_, ast.Delete):
                tg_ = list(n_.targets)
            for t_ in tg_:
                for e_ in (t_.elts if isinstance(t_, (ast.Tuple, ast.List)) else [t_]):
                    if isinstance(e_, (ast.Attribute, ast.Subscript)):
                        r_ = root_name(e_)
                        if r_:
                            written.add(r_)
            if isinstance(n_, ast.Call) and isinstance(n_.func, ast.Attribute) and n_.func.attr in MUTATORS:
                r_ = root_name(n_.func.value)
                if r_:
                    written.add(r_)
            if isinstance(n_, ast.Global):
                written.update(n_.names)
    for mod in MODULES:
        path = os.path.join(REPO, mod)
        if not os.path.exists(path):
            ob('module', mod, '', 0, 'present', 'refuted', 'module missing')
            continue
        src = open(path).read()
        lines = src.splitlines()
        tree = ast.parse(src)

        def line_of(n):
            return lines[n.lineno - 1] if 0 < n.lineno <= len(lines) else ''
        # ---- F2 module-level state
        gframe = GLOBAL_FRAME.get(mod, {})
        for n in tree.body:
            targets = []
            if isinstance(n, ast.Assign):
                targets = [(t, n.value) for t in n.targets if isinstance(t, ast.Name)]
            for t, v in targets:
                mutable = isinstance(v, (ast.List, ast.Dict, ast.Set, ast.ListComp, ast.DictComp, ast.SetComp)) or (
                    isinstance(v, ast.Call) and isinstance(v.func, ast.Name) and v.func.id in (
                        'list', 'dict', 'set', 'WeakKeyDictionary', 'WeakSet', 'WeakValueDictionary', 'OrderedDict', 'defaultdict',
                        'deque', 'singledispatch'))
                # a module-level iterator / generator is state too: every consumer advances it (seeded C19_3: a hoisted
                # itertools.cycle whose phase carried over from one call to the next)
                ITER = {'iter', 'cycle', 'count', 'repeat', 'chain', 'map', 'filter', 'zip', 'enumerate', 'islice', 'reversed', 'tee',
                        'accumulate', 'starmap', 'takewhile', 'dropwhile', 'zip_longest', 'product', 'permutations', 'combinations'}
                fname = None
                if isinstance(v, ast.Call):
                    fname = v.func.id if isinstance(v.func, ast.Name) else (v.func.attr if isinstance(v.func, ast.Attribute) else None)
                if isinstance(v, ast.GeneratorExp) or fname in ITER:
                    ob('module-state', mod, '', n.lineno, t.id, 'refuted',
                       'module-level iterator / generator: consuming it is hidden state shared by all calls', line_of(n))
                    continue
                if mutable:
                    if t.id in gframe:
                        ob('module-state', mod, '', n.lineno, t.id, 'discharged', 'declared frame location: ' + gframe[t.id])
                    elif t.id not in written:
                        # a table nobody writes to is a constant, not state (adding a lookup table is not a violation); any
                        # later write to it is a mutation site of a non-local object and fails there
                        ob('module-state', mod, '', n.lineno, t.id, 'discharged', 'never written anywhere in the package: a constant table')
                    else:
                        ob('module-state', mod, '', n.lineno, t.id, 'refuted',
                           'module-level mutable object outside the declared frame that is written to', line_of(n))
        for qual, fn, cls in functions(tree):
            facts = FnFacts(fn)
            # memoising decorators
            for d in fn.decorator_list:
                dn = d.func if isinstance(d, ast.Call) else d
                nm = dn.id if isinstance(dn, ast.Name) else (dn.attr if isinstance(dn, ast.Attribute) else '')
                if nm in MEMO_DECORATORS:
                    ob('hidden-state', mod, qual, fn.lineno, 'decorator:' + nm, 'refuted',
                       'memoising decorator: a cache keyed by argument equality is hidden state outside the frame', line_of(fn))
            for n in own_nodes(fn):
                # global rebinding
                if isinstance(n, (ast.Assign, ast.AugAssign)):
                    tg = n.targets if isinstance(n, ast.Assign) else [n.target]
                    for t in tg:
                        if isinstance(t, ast.Name) and t.id in facts.globals_declared:
                            if (mod, qual, t.id) in GLOBAL_REBIND_OK:
                                ob('global-rebind', mod, qual, n.lineno, t.id, 'discharged', 'declared: configuration setter')
                            else:
                                ob('global-rebind', mod, qual, n.lineno, t.id, 'refuted', 'rebinds a module global outside the declared frame', line_of(n))
                # stores through attribute / subscript, del
                stores = []
                if isinstance(n, ast.Assign):
                    stores = [t for t in n.targets for x in [t] if isinstance(x, (ast.Attribute, ast.Subscript))]
                    for t in n.targets:
                        if isinstance(t, (ast.Tuple, ast.List)):
                            stores += [e for e in t.elts if isinstance(e, (ast.Attribute, ast.Subscript))]
                elif isinstance(n, ast.AugAssign) and isinstance(n.target, (ast.Attribute, ast.Subscript)):
                    stores = [n.target]
                elif isinstance(n, ast.Delete):
                    stores = [t for t in n.targets if isinstance(t, (ast.Attribute, ast.Subscript))]
                for t in stores:
                    r = root_name(t)
                    what = t.attr if isinstance(t, ast.Attribute) else '[]'
                    self_check(ob, mod, qual, n, r, what, facts, line_of(n))
                # mutating method calls
                if isinstance(n, ast.Call) and isinstance(n.func, ast.Attribute) and n.func.attr in MUTATORS:
                    r = root_name(n.func.value)
                    if r is None:
                        continue        # method of a temporary (a call result): fresh
                    self_check(ob, mod, qual, n, r, n.func.attr, facts, line_of(n), via=n.func.value)
                # F3 id()
                if isinstance(n, ast.Call) and isinstance(n.func, ast.Name) and n.func.id == 'id':
                    if (mod, qual) in ID_OK:
                        ob('id-flow', mod, qual, n.lineno, 'id()', 'discharged', 'visited-set primitive / recursion marker')
                    else:
                        ob('id-flow', mod, qual, n.lineno, 'id()', 'refuted', 'id() outside the visited-set primitives: an address may reach the output', line_of(n))
    settings_flow(ob)
    return obligations


def self_check(ob, mod, qual, n, r, what, facts, src, via=None):
    kind = 'mutation'
    label = '%s.%s@L%d' % (r, what, n.lineno)
    if r is None:
        return
    why = frame_allows(mod, qual, r, what)
    if via is not None and isinstance(via, ast.Attribute) and r == 'self':
        why = frame_allows(mod, qual, r, via.attr) or why
    if why:
        ob(kind, mod, qual, n.lineno, label, 'discharged', 'declared frame location: ' + why)
        return
    if r in facts.tainted and r not in facts.fresh:
        ob(kind, mod, qual, n.lineno, label, 'refuted', 'mutation through a name reachable from the printed value (%s)' % facts.value_param, src)
        return
    if r in facts.fresh:
        ob(kind, mod, qual, n.lineno, label, 'discharged', 'object created in this function')
        return
    if r in facts.params:
        ob(kind, mod, qual, n.lineno, label, 'refuted', 'mutation of a parameter outside the declared frame', src)
        return
    ob(kind, mod, qual, n.lineno, label, 'refuted', 'mutation of a non-local object outside the declared frame', src)


def settings_flow(ob):
    """F4: width / ribbon_width reach only the layout; the entry points share one pipeline"""
    mod = 'prettyprinter/prettyprinter.py'
    src = open(os.path.join(REPO, mod)).read()
    tree = ast.parse(src)
    fns = {q: f for q, f, c in functions(tree)}
    f = fns.get('python_to_sdocs')
    if f is None:
        ob('settings-flow', mod, 'python_to_sdocs', 0, 'exists', 'refuted', 'function not found')
        return
    bad = []
    for n in ast.walk(f):
        if isinstance(n, ast.Call):
            callee = n.func.id if isinstance(n.func, ast.Name) else (n.func.attr if isinstance(n.func, ast.Attribute) else '')
            names = {x.id for a in list(n.args) + [k.value for k in n.keywords] for x in ast.walk(a) if isinstance(x, ast.Name)}
            if callee not in ('layout_smart', 'layout_fast', 'min', 'max', 'float') and names & {'width', 'ribbon_width', 'ribbon_frac'}:
                bad.append((n.lineno, callee))
    if bad:
        ob('settings-flow', mod, 'python_to_sdocs', bad[0][0], 'width->printers', 'refuted',
           'width / ribbon_width flow into %s: the document would depend on the layout settings' % bad[0][1])
    else:
        ob('settings-flow', mod, 'python_to_sdocs', f.lineno, 'width->layout-only', 'discharged',
           'width, ribbon_width and ribbon_frac are arguments of the layout call only')
    # PrettyContext carries no width
    for n in tree.body:
        if isinstance(n, ast.ClassDef) and n.name == 'PrettyContext':
            slots = []
            for st in n.body:
                if isinstance(st, ast.Assign) and getattr(st.targets[0], 'id', '') == '__slots__':
                    slots = list(ast.literal_eval(st.value))
            if any('width' in s or 'ribbon' in s for s in slots):
                ob('settings-flow', mod, 'PrettyContext', n.lineno, 'no-width-field', 'refuted', 'the context carries a width: printers can see the layout settings')
            else:
                ob('settings-flow', mod, 'PrettyContext', n.lineno, 'no-width-field', 'discharged', '__slots__ = %s' % (slots,))
    # entry points: python_to_sdocs(object, **_merge_defaults(<the six settings, each passed through>))
    mod2 = 'prettyprinter/__init__.py'
    tree2 = ast.parse(open(os.path.join(REPO, mod2)).read())
    fns2 = {q: f_ for q, f_, c in functions(tree2)}
    for ep in ('pformat', 'pprint', 'cpprint'):
        f2 = fns2.get(ep)
        ok = False
        why = 'no call python_to_sdocs(object, **_merge_defaults(k=k ...)) found'
        if f2 is not None:
            for n in ast.walk(f2):
                if isinstance(n, ast.Call) and isinstance(n.func, ast.Name) and n.func.id == 'python_to_sdocs':
                    a0 = n.args[0].id if n.args and isinstance(n.args[0], ast.Name) else None
                    kws = [k for k in n.keywords if k.arg is None]
                    if a0 == 'object' and len(kws) == 1 and isinstance(kws[0].value, ast.Call) and \
                            getattr(kws[0].value.func, 'id', '') == '_merge_defaults':
                        passed = {k.arg: (k.value.id if isinstance(k.value, ast.Name) else None) for k in kws[0].value.keywords}
                        want = ['indent', 'width', 'depth', 'ribbon_width', 'max_seq_len', 'sort_dict_keys']
                        if sorted(passed) == sorted(want) and all(passed[k] == k for k in want):
                            ok = True
                        else:
                            why = 'settings are not passed through one by one: %s' % passed
        ob('settings-flow', mod2, ep, f2.lineno if f2 else 0, 'one-pipeline', 'discharged' if ok else 'refuted',
           'python_to_sdocs(object, **_merge_defaults(each setting passed under its own name))' if ok else why)


def source_hashes():
    out = {}
    for mod in MODULES:
        p = os.path.join(REPO, mod)
        if os.path.exists(p):
            out[mod] = hashlib.sha256(open(p, 'rb').read()).hexdigest()[:16]
    return out


if __name__ == '__main__':
    obs = analyse()
    bad = [o for o in obs if o['status'] != 'discharged']
    print('%d frame obligations, %d discharged' % (len(obs), len(obs) - len(bad)))
    for o in bad:
        print('  REFUTED', o['name'], '|', o['reason'], '|', o.get('source'))
