"""Contract objects: function contracts, spec functions, lemmas.  One ContractSet per family."""
import ast
import inspect
import textwrap


class Clause:
    def __init__(self, name, src):
        self.name, self.src = name, src
        self.node = ast.parse(src.strip(), mode='eval').body

    def __repr__(self):
        return '%s: %s' % (self.name, self.src)


def clauses(prefix, xs):
    out = []
    for i, x in enumerate(xs or []):
        if isinstance(x, tuple):
            out.append(Clause(x[0], x[1]))
        else:
            out.append(Clause('%s%d' % (prefix, i), x))
    return out


class LoopSpec:
    def __init__(self, inv=(), decreases=None, rest=None, done=None, modifies=None, ghost_head=(), ghost_back=(), forall=None):
        self.forall = forall or {}    # universally quantified ghost variables of the invariant clauses {name: sort}
        self.inv = clauses('I', inv)
        self.decreases = [Clause('D%d' % i, d) for i, d in enumerate(decreases or [])]
        self.rest = rest          # name under which a for-loop's remaining items are visible
        self.done = done          # name under which a for-loop's consumed items (snoc) are visible
        self.modifies = modifies
        self.ghost_head = list(ghost_head)
        self.ghost_back = list(ghost_back)


class FnContract:
    """Contract of a real function (qualname inside a module of /repo)."""

    def __init__(self, cset, qualname, params, returns=None, requires=(), ensures=(), raises=None,
                 loops=None, modifies=(), ghost=None, serves=(), forall=None, yields=None,
                 ensures_raise=(), fnparams=None, locals_=None, trusted=False, note='', decreases=None,
                 ghost_at=None, pure=False, old=(), defines=()):
        self.cset = cset
        self.qualname = qualname
        self.params = params              # {param name: sort name}  (order = declaration order in source)
        self.returns = returns            # sort name of result, or None
        self.requires = clauses('R', requires)
        self.ensures = clauses('E', ensures)
        self.ensures_raise = clauses('X', ensures_raise)   # must hold on every exceptional exit
        self.raises = raises              # None: no exception may escape; else {exc class name: guard expr}
        self.loops = {k: (v if isinstance(v, LoopSpec) else LoopSpec(**v)) for k, v in (loops or {}).items()}
        self.modifies = list(modifies)    # parameters (mutable containers) the function may change
        self.ghost = ghost or {}          # {ghost var: (sort, init expr)}
        self.serves = list(serves)
        self.forall = forall or {}        # universally quantified ghost parameters {name: sort}
        self.yields = yields              # sort name of the yielded sequence (snoc list) for generators
        self.fnparams = fnparams or {}    # {param name: contract name} for function-valued parameters
        self.locals_ = locals_ or {}
        self.trusted = trusted            # True: assumed, not proved (listed in the evidence)
        self.note = note
        self.decreases = [Clause('D%d' % i, d) for i, d in enumerate(decreases or [])]
        self.ghost_at = ghost_at or {}    # {anchor: [ghost statement source]}
        # definitional clauses: they introduce a spec-level NAME for what the function returns (`result == norm(doc)`);
        # assumed at call sites, not an obligation of the body (there is nothing to prove: it is the definition of the name)
        self.defines = clauses('DEF', defines)
        self.pure = pure
        self.old = list(old)


class SpecFn:
    def __init__(self, cset, fn, args, ret, axioms=(), opaque=False):
        self.cset = cset
        self.name = fn.__name__
        self.pyfn = fn
        self.args = args                  # [(name, sort name)]
        self.ret = ret
        src = textwrap.dedent(inspect.getsource(fn))
        mod = ast.parse(src)
        self.node = [n for n in mod.body if isinstance(n, ast.FunctionDef)][0]
        self.decl = None                  # z3 FuncDecl, filled by the translator
        self.params_z3 = None
        self.body_z3 = None
        self.opaque = opaque


class Lemma:
    def __init__(self, cset, fn, forall, ensures, requires=(), triggers=(), decreases=None, trusted=False, note='', group=None):
        self.cset = cset
        self.name = fn.__name__
        self.pyfn = fn
        self.forall = forall              # [(name, sort)]
        self.requires = clauses('R', requires)
        self.ensures = clauses('E', ensures)
        self.triggers = [ast.parse(t.strip(), mode='eval').body for t in triggers]
        self.trigger_src = list(triggers)
        self.decreases = [Clause('D%d' % i, d) for i, d in enumerate(decreases or [])]
        src = textwrap.dedent(inspect.getsource(fn))
        mod = ast.parse(src)
        self.node = [n for n in mod.body if isinstance(n, ast.FunctionDef)][0]
        self.trusted = trusted
        self.note = note
        self.index = None
        self.group = group


class ContractSet:
    def __init__(self, universe, name):
        self.U = universe
        self.name = name
        self.specs = {}
        self.lemmas = []
        self.fns = {}            # key 'module:qualname' -> FnContract
        self.protos = {}         # named contracts for function-valued parameters
        self.assumptions = []    # free-text list of unchecked assumptions of this family

    def spec(self, args, ret, **kw):
        def deco(fn):
            self.specs[fn.__name__] = SpecFn(self, fn, args, ret, **kw)
            return fn
        return deco

    def lemma(self, forall, ensures, **kw):
        def deco(fn):
            l = Lemma(self, fn, forall, ensures, **kw)
            l.index = len(self.lemmas)
            self.lemmas.append(l)
            return fn
        return deco

    def contract(self, module, qualname, **kw):
        c = FnContract(self, qualname, **kw)
        c.module = module
        self.fns[module + ':' + qualname] = c
        return c

    def proto(self, name, **kw):
        c = FnContract(self, name, **kw)
        c.module = None
        self.protos[name] = c
        return c

    def assume(self, text):
        self.assumptions.append(text)
