"""Symbolic interpreter for the accepted Python subset.

One run of the interpreter follows ONE path through ONE function of the real source, driven by a
decision script (stateless re-execution: every path restarts at the function entry).  Loops are cut
at their invariants, calls are replaced by the callee's contract, yields are appended to a ghost
output.  Obligations are collected with the path condition under which they must hold.

The same evaluator (in `pure` mode: no forking, if -> ite) translates spec functions, contract
clauses and lemma statements, so contracts are written in the Python of the code they describe.
"""
import ast
import z3

from .contract import FnContract, SpecFn, Lemma, Clause


class OutsideSubset(Exception):
    pass


class PathEnd(Exception):
    pass


class ReturnSig(Exception):
    def __init__(self, value):
        self.value = value


class BreakSig(Exception):
    pass


class ContinueSig(Exception):
    pass


class SymRaise(Exception):
    """A Python exception raised by the code under analysis."""

    def __init__(self, cls, why='', term=None):
        self.cls, self.why, self.term = cls, why, term


class FuncVal:
    def __init__(self, kind, name, obj=None):
        self.kind, self.name, self.obj = kind, name, obj

    def __repr__(self):
        return '<%s %s>' % (self.kind, self.name)


class ClassVal:
    def __init__(self, name):
        self.name = name


class ModuleVal:
    def __init__(self, name, attrs):
        self.name, self.attrs = name, attrs


class KwMap:
    """the **kwargs of a function under verification / of a call: {name: (present, value)} over a fixed field universe"""

    def __init__(self, fields):
        self.fields = fields          # name -> (present: z3 Bool | bool, value)


class Closure:
    def __init__(self, node, env):
        self.node, self.env = node, env


class InlineDef:
    """A module-level helper of the real source that has no contract: a call interprets its body (the helper is verified as part of
    its caller, so extracting code into a helper does not leave the subset)."""

    def __init__(self, node):
        self.node = node
        self.name = node.name


class GenExp:
    """An unevaluated generator expression / reversed(...) / map(...) view."""

    def __init__(self, kind, **kw):
        self.kind = kind
        self.__dict__.update(kw)


class Obligation:
    def __init__(self, name, kind, pc, goal, lineno, inputs, trace, local_lemmas):
        self.name, self.kind, self.pc, self.goal = name, kind, list(pc), goal
        self.lineno, self.inputs, self.trace = lineno, dict(inputs), list(trace)
        self.local_lemmas = list(local_lemmas)
        self.function = None


EXC_LATTICE = {
    'BaseException': None, 'Exception': 'BaseException', 'TypeError': 'Exception',
    'ValueError': 'Exception', 'KeyError': 'LookupError', 'IndexError': 'LookupError',
    'LookupError': 'Exception', 'AttributeError': 'Exception', 'AssertionError': 'Exception',
    'StopIteration': 'Exception', 'NotImplementedError': 'RuntimeError', 'RuntimeError': 'Exception',
    'KeyboardInterrupt': 'BaseException', 'SystemExit': 'BaseException', 'UnicodeError': 'ValueError',
}


def exc_subclass(a, b, extra=None):
    while a is not None:
        if a == b:
            return True
        a = (extra or {}).get(a, EXC_LATTICE.get(a))
    return False


def is_z3(v):
    return isinstance(v, z3.ExprRef)


def short(node, n=70):
    s = ast.unparse(node).replace('\n', ' ')
    return s if len(s) <= n else s[:n - 3] + '...'


class Interp:
    def __init__(self, cset, pure=False, script=None, feas_timeout=2000):
        self.cset = cset
        self.U = cset.U
        self.pure = pure
        self.script = list(script or [])
        self.pos = 0
        self.pending = []
        self.pc = []
        self.trace = []           # positive/negative branch labels
        self.obligations = []
        self.counter = 0
        self.env = {}
        self.old_env = {}
        self.out = None           # ghost sequence of yields
        self.out_sort = None
        self.lineno = 0
        self.local_lemmas = []    # quantified facts assumed on this path: (vars, body, triggers)
        self.fn_contract = None
        self.loop_ctx = []        # stack of (loop ordinal)
        self.loop_counter = 0
        self.name_prefix = ''
        self.feas_timeout = feas_timeout
        self.inputs = {}
        self.extern = {}          # extra name bindings (module-level constants of the real source)
        self.events = []
        self.current_lemma_index = None
        self._feas_solver = None

    # ------------------------------------------------------------------ utilities
    def fresh(self, sortname, hint='v'):
        self.counter += 1
        return z3.Const('%s!%d' % (hint, self.counter), self.U.sort(sortname))

    def fresh_like(self, v, hint='h'):
        if isinstance(v, tuple):
            return tuple(self.fresh_like(x, hint) for x in v)
        if is_z3(v):
            self.counter += 1
            return z3.Const('%s!%d' % (hint, self.counter), v.sort())
        raise OutsideSubset('cannot havoc a %r value (%s)' % (type(v).__name__, hint))

    def feasible(self, cond):
        s = z3.Solver()
        s.set('timeout', self.feas_timeout)
        for p in self.pc:
            s.add(p)
        s.add(cond)
        return s.check() != z3.unsat

    def choose_bool(self, cond, label):
        if isinstance(cond, bool):
            return cond
        cond = z3.simplify(cond)
        if z3.is_true(cond):
            return True
        if z3.is_false(cond):
            return False
        if self.pure:
            raise OutsideSubset('fork in pure mode at %s' % label)
        if self.pos < len(self.script):
            d = self.script[self.pos]
        else:
            ft = self.feasible(cond)
            ff = self.feasible(z3.Not(cond))
            if ft and ff:
                d = True
                self.pending.append(self.script[:self.pos] + [False])
            elif ft:
                d = True
            elif ff:
                d = False
            else:
                raise PathEnd('infeasible')
            self.script.append(d)
        self.pos += 1
        self.pc.append(cond if d else z3.Not(cond))
        self.trace.append(('+' if d else '-') + label)
        return d

    def assume(self, cond):
        if isinstance(cond, bool):
            if not cond:
                raise PathEnd('assume False')
            return
        self.pc.append(cond)

    def oblige(self, name, goal, kind):
        if isinstance(goal, bool):
            goal = z3.BoolVal(goal)
        self.obligations.append(Obligation(self.ob_name(name), kind, self.pc, goal, getattr(self, 'code_line', 0),
                                           self.inputs, self.trace, self.local_lemmas))

    def ob_name(self, clause):
        parts = [self.name_prefix]
        if self.loop_ctx:
            parts.append('loop%d' % self.loop_ctx[-1][0])
            start = self.loop_ctx[-1][1]
        else:
            start = 0
        pos = [t[1:] for t in self.trace[start:] if t[0] == '+' and not t.startswith('+@')]
        if pos:
            parts.append('[' + pos[-1] + ']')
        parts.append(clause)
        return '/'.join(parts)

    # ------------------------------------------------------------------ coercion
    def coerce(self, v, sortname):
        U = self.U
        if sortname is None:
            return v
        if isinstance(v, tuple) and len(v) == 3 and isinstance(v[0], str) and v[0] == 'excval':
            if v[2] is not None:
                return self.coerce(v[2], sortname)
            consts = getattr(U, 'exc_consts', None)
            if consts is None:
                consts = U.exc_consts = {}
            if v[1] not in consts:
                consts[v[1]] = z3.Const('exc_' + v[1], U.sort(sortname))
            return consts[v[1]]
        if is_z3(v):
            want = U.sort(sortname)
            if v.sort() == want:
                return v
            vs = U.sort_name(v.sort())
            opts = getattr(U, 'options', {})
            if vs in opts and opts[vs] == sortname:
                # an Optional value used where the plain value is needed: None here is a TypeError
                some = U.sort(vs).recognizer(1)(v)
                if not self.pure and not self.choose_bool(some, '@not-None'):
                    raise SymRaise('TypeError', 'None where a %s is needed' % sortname)
                return z3.simplify(U.sort(vs).accessor(1, 0)(v))
            if sortname in opts and opts[sortname] == vs:
                return U.sort(sortname).constructor(1)(v)
            ch = getattr(U, 'coerce_hooks', {}).get((vs, sortname))
            if ch is not None:
                return ch(self, v)
            raise OutsideSubset('sort mismatch: %s is %s, wanted %s' % (v, v.sort(), sortname))
        if sortname == 'Int' and isinstance(v, int) and not isinstance(v, bool):
            return z3.IntVal(v)
        if sortname == 'Bool' and isinstance(v, bool):
            return z3.BoolVal(v)
        if sortname == 'Str' and isinstance(v, str):
            return z3.StringVal(v)
        if sortname in U.records and isinstance(v, tuple):
            flds = U.decl_spec[sortname][1]
            if len(flds) != len(v):
                raise OutsideSubset('tuple arity for record %s' % sortname)
            return U.mk(sortname, *[self.coerce(x, s) for x, (f, s) in zip(v, flds)])
        if sortname in U.records and isinstance(v, dict):
            # a dict with constant keys used as a record: the key set must be exactly the field list
            flds = U.decl_spec[sortname][1]
            if set(v) != {f for f, _ in flds}:
                raise OutsideSubset('dict keys %s are not the fields of %s' % (sorted(v), sortname))
            return U.mk(sortname, *[self.coerce(v[f], s_) for f, s_ in flds])
        if sortname in U.lists and isinstance(v, list):
            info = U.lists[sortname]
            t = U.nil(sortname)
            items = [self.coerce(x, info.elem) for x in v]
            if info.kind == 'fwd':
                for x in reversed(items):
                    t = U.cons(sortname, x, t)
            else:       # stack / snoc: head is the last Python element
                for x in items:
                    t = U.cons(sortname, x, t)
            return t
        if sortname in U.datatypes and isinstance(v, str) and (sortname, 'Text') in U.ctors:
            return U.ctor(sortname, 'Text')(z3.StringVal(v))
        if sortname in getattr(U, 'options', {}) and v is None:
            return U.sort(sortname).constructor(0)()
        if sortname in getattr(U, 'options', {}):
            inner = U.options[sortname]
            return U.sort(sortname).constructor(1)(self.coerce(v, inner))
        raise OutsideSubset('cannot coerce %r to %s' % (v, sortname))

    def sort_of(self, v):
        if is_z3(v):
            return self.U.sort_name(v.sort())
        if isinstance(v, bool):
            return 'Bool'
        if isinstance(v, int):
            return 'Int'
        if isinstance(v, str):
            return 'Str'
        return None

    def to_bool(self, v):
        """Python truthiness."""
        U = self.U
        if isinstance(v, bool):
            return v
        if v is None:
            return False
        if isinstance(v, (int, str, tuple, list)):
            return bool(v)
        if is_z3(v):
            sn = U.sort_name(v.sort())
            if sn == 'Bool':
                return v
            if sn == 'Int':
                return v != 0
            if sn == 'Str':
                return z3.Length(v) != 0
            if sn in U.lists:
                return z3.Not(U.is_nil(sn, v))
            if sn in getattr(U, 'options', {}):
                inner = U.options[sn]
                some = U.sort(sn).recognizer(1)(v)
                val = U.sort(sn).accessor(1, 0)(v)
                tb = self.to_bool(val)
                return z3.And(some, tb) if not isinstance(tb, bool) else (some if tb else False)
            if sn in getattr(U, 'truthy', {}):
                return U.truthy[sn](v)
        if isinstance(v, (FuncVal, ClassVal, Closure)):
            return True
        raise OutsideSubset('truthiness of %r' % (v,))

    def ite(self, c, a, b):
        if isinstance(c, bool):
            return a if c else b
        if isinstance(a, tuple) and isinstance(b, tuple) and len(a) == len(b):
            return tuple(self.ite(c, x, y) for x, y in zip(a, b))
        sa, sb = self.sort_of(a), self.sort_of(b)
        sn = sa if is_z3(a) else (sb if is_z3(b) else sa)
        if sn is None:
            raise OutsideSubset('ite over %r / %r' % (a, b))
        return z3.If(c, self.coerce(a, sn), self.coerce(b, sn))

    def refine(self, name, dt, cname):
        """After `isinstance(name, C)` was decided true: rewrite the binding to C(acc_1(t), ...)."""
        v = self.env.get(name)
        if not is_z3(v):
            return
        ct, rec, accs, names = self.U.ctors[(dt, cname)]
        if z3.is_app(v) and v.decl().eq(ct):
            return
        self.env[name] = ct(*[a(v) for a in accs]) if accs else ct()

    # ------------------------------------------------------------------ names
    def lookup(self, name):
        if name in self.env:
            return self.env[name]
        if name in self.U.consts:
            return self.U.consts[name]
        if name in self.extern:
            return self.extern[name]
        if name in self.cset.specs:
            return FuncVal('spec', name, self.cset.specs[name])
        for l in self.cset.lemmas:
            if l.name == name:
                return FuncVal('lemma', name, l)
        if name in self.U.classmap:
            return ClassVal(name)
        if name in self.U.records or name in getattr(self.U, 'ctor_names', {}):
            return FuncVal('ctor', name)
        if name in self.callee_map():
            return FuncVal('callee', name, self.callee_map()[name])
        if name in BUILTINS:
            return FuncVal('builtin', name)
        if name in ('True', 'False', 'None'):
            return {'True': True, 'False': False, 'None': None}[name]
        if name in EXC_LATTICE or name in getattr(self.U, 'exc_lattice', {}):
            return ClassVal(name)
        if name in getattr(self.U, 'modules', {}):
            return ModuleVal(name, self.U.modules[name])
        mc = getattr(self, 'module_consts', None)
        if mc and name in mc:
            return mc[name]          # a module-level NAME = <int | str | bool literal>, bound once and never rebound
        md = getattr(self, 'module_defs', None)
        if md and name in md:
            return InlineDef(md[name])
        raise OutsideSubset('unknown name %s' % name)

    def call_inline(self, fn, args, kwargs):
        node = fn.node
        a = node.args
        if a.vararg or a.kwarg or a.kwonlyargs or a.posonlyargs or node.decorator_list:
            raise OutsideSubset('helper %s: signature outside the inlinable shape' % fn.name)
        for n in ast.walk(node):
            if isinstance(n, (ast.Yield, ast.YieldFrom, ast.Global, ast.Nonlocal, ast.While, ast.For)) or \
                    (isinstance(n, (ast.FunctionDef, ast.ClassDef)) and n is not node):
                raise OutsideSubset('helper %s: body outside the inlinable shape (loops / generators / nested definitions need a contract)' % fn.name)
        depth = getattr(self, 'inline_depth', 0)
        if depth >= 3:
            raise OutsideSubset('helper %s: inlining depth' % fn.name)
        names = [p.arg for p in a.args]
        if len(args) > len(names) or any(k not in names for k in kwargs):
            raise SymRaise('TypeError', 'arguments of %s' % fn.name)
        env = {}
        for n_, v in zip(names, args):
            env[n_] = v
        for k, v in kwargs.items():
            if k in env:
                raise SymRaise('TypeError', 'arguments of %s' % fn.name)
            env[k] = v
        dflt = dict(zip(names[len(names) - len(a.defaults):], a.defaults))
        saved = self.env
        for n_ in names:
            if n_ not in env:
                if n_ not in dflt:
                    raise SymRaise('TypeError', 'arguments of %s' % fn.name)
                self.env = {}
                try:
                    env[n_] = self.ev(dflt[n_])
                finally:
                    self.env = saved
        self.env = env
        self.inline_depth = depth + 1
        try:
            self.exec_block(node.body)
            return None
        except ReturnSig as r:
            return r.value
        finally:
            self.env = saved
            self.inline_depth = depth

    def callee_map(self):
        m = getattr(self.cset, '_callee_map', None)
        if m is None:
            m = {}
            for key, c in self.cset.fns.items():
                short_ = c.qualname.split('.')[-1]
                if '.' not in c.qualname or short_ not in m or '.' in m[short_].qualname:
                    m[short_] = c            # a bare name is the module-level function, not a method of the same name
                m[c.qualname] = c
            self.cset._callee_map = m
        return m

    # ------------------------------------------------------------------ expressions
    def ev(self, node):
        if hasattr(node, 'lineno'):
            self.lineno = node.lineno
        m = getattr(self, 'ev_' + type(node).__name__, None)
        if m is None:
            raise OutsideSubset('expression %s at line %s' % (type(node).__name__, getattr(node, 'lineno', '?')))
        return m(node)

    def ev_Constant(self, node):
        if isinstance(node.value, bytes):
            return node.value.decode('latin-1')      # bytes literals: the same sequence sort as str
        return node.value

    def ev_Name(self, node):
        return self.lookup(node.id)

    def ev_Tuple(self, node):
        return tuple(self.ev(e) for e in node.elts)

    def ev_List(self, node):
        out = []
        for e in node.elts:
            if isinstance(e, ast.Starred):
                v = self.ev(e.value)
                if isinstance(v, (list, tuple)) and not (len(v) >= 1 and isinstance(v[0], str) and v[0] == 'opaque'):
                    out.extend(v)
                else:
                    out.append(('star', v))          # [a, *xs] with a symbolic xs: the family's hook decides what it means
            else:
                out.append(self.ev(e))
        return out

    def ev_UnaryOp(self, node):
        v = self.ev(node.operand)
        if isinstance(node.op, ast.Not):
            b = self.to_bool(v)
            return (not b) if isinstance(b, bool) else z3.Not(b)
        if isinstance(node.op, ast.USub):
            return -v
        raise OutsideSubset('unary %s' % type(node.op).__name__)

    def ev_BoolOp(self, node):
        is_and = isinstance(node.op, ast.And)
        if self.pure:
            vals = [self.to_bool(self.ev(v)) for v in node.values]
            if all(isinstance(v, bool) for v in vals):
                return all(vals) if is_and else any(vals)
            vals = [z3.BoolVal(v) if isinstance(v, bool) else v for v in vals]
            return z3.And(*vals) if is_and else z3.Or(*vals)
        # exec mode: short-circuit with forking; the value of the expression is the deciding operand
        last = None
        for i, vn in enumerate(node.values):
            last = self.ev(vn)
            if i == len(node.values) - 1:
                return last
            b = self.choose_bool(self.to_bool(last), '@' + short(vn))
            if is_and and not b:
                return last
            if not is_and and b:
                return last
        return last

    def ev_IfExp(self, node):
        c = self.to_bool(self.ev(node.test))
        if isinstance(c, bool):
            return self.ev(node.body if c else node.orelse)
        if self.pure:
            return self.ite(c, self.ev(node.body), self.ev(node.orelse))
        if self.choose_bool(c, '@' + short(node.test)):
            return self.ev(node.body)
        return self.ev(node.orelse)

    def ev_BinOp(self, node):
        a, b = self.ev(node.left), self.ev(node.right)
        return self.binop(node.op, a, b)

    def binop(self, op, a, b):
        try:
            return self._binop(op, a, b)
        except OutsideSubset:
            raise
        except (TypeError, AttributeError, z3.Z3Exception) as e:
            # an operator the encoding has no meaning for (e.g. arithmetic on a datatype value): outside the subset, not a crash
            raise OutsideSubset('binary operator %s on %s and %s (%s)' % (type(op).__name__, self.sort_of(a) or type(a).__name__,
                                                                        self.sort_of(b) or type(b).__name__, str(e)[:60]))

    def _binop(self, op, a, b):
        U = self.U
        h = getattr(U, 'binop_hook', None)
        if h is not None:
            r = h(self, op, a, b)
            if r is not None:
                return r
        if isinstance(op, ast.Add):
            sa = self.sort_of(a)
            # snoc-list + [x]
            if is_z3(a) and sa in U.lists and isinstance(b, list):
                t = a
                for x in b:
                    t = U.cons(sa, self.coerce(x, U.lists[sa].elem), t)
                return t
            if isinstance(a, list) and isinstance(b, list):
                return a + b
            if isinstance(a, tuple) and isinstance(b, tuple):
                return a + b
            if (sa == 'Str' or self.sort_of(b) == 'Str'):
                return z3.Concat(self.coerce(a, 'Str'), self.coerce(b, 'Str')) if (is_z3(a) or is_z3(b)) else a + b
            return a + b
        if isinstance(op, ast.Sub):
            return a - b
        if isinstance(op, ast.Mult):
            if self.sort_of(a) == 'Str' and is_z3(b) or self.sort_of(b) == 'Str' and is_z3(a):
                raise OutsideSubset('symbolic string repetition')
            return a * b
        if isinstance(op, ast.FloorDiv):
            return a / b if (is_z3(a) or is_z3(b)) else a // b      # z3 Int division is floor for positive divisors
        if isinstance(op, ast.Mod):
            return a % b
        raise OutsideSubset('binary operator %s' % type(op).__name__)

    def ev_Compare(self, node):
        left = self.ev(node.left)
        res = []
        for op, rn in zip(node.ops, node.comparators):
            right = self.ev(rn)
            res.append(self.compare(op, left, right))
            left = right
        if all(isinstance(r, bool) for r in res):
            return all(res)
        res = [z3.BoolVal(r) if isinstance(r, bool) else r for r in res]
        return res[0] if len(res) == 1 else z3.And(*res)

    def compare(self, op, a, b):
        U = self.U
        if isinstance(op, (ast.Is, ast.IsNot, ast.Eq, ast.NotEq)):
            neg = isinstance(op, (ast.IsNot, ast.NotEq))
            if isinstance(a, tuple) and isinstance(b, tuple):
                if len(a) != len(b):
                    r = False
                else:
                    parts = [self.compare(ast.Eq(), x, y) for x, y in zip(a, b)]
                    r = all(parts) if all(isinstance(p, bool) for p in parts) else z3.And(
                        *[z3.BoolVal(p) if isinstance(p, bool) else p for p in parts])
            elif is_z3(a) or is_z3(b):
                sn = self.sort_of(a) if is_z3(a) else self.sort_of(b)
                if (a is None or b is None) and sn in getattr(U, 'none_values', {}):
                    # a datatype with a constructor that stands for None
                    r = (a if is_z3(a) else b) == U.none_values[sn]
                elif (a is None or b is None) and sn not in getattr(U, 'options', {}):
                    r = False
                else:
                    try:
                        r = self.coerce(a, sn) == self.coerce(b, sn)
                    except OutsideSubset:
                        if isinstance(op, (ast.Is, ast.IsNot)):
                            raise
                        raise
            elif isinstance(a, (FuncVal, ClassVal)) or isinstance(b, (FuncVal, ClassVal)):
                r = (type(a) is type(b) and a.name == b.name)
            else:
                r = (a == b) if isinstance(op, (ast.Eq, ast.NotEq)) else (a is b or a == b)
            if neg:
                return (not r) if isinstance(r, bool) else z3.Not(r)
            return r
        if isinstance(op, (ast.Lt, ast.LtE, ast.Gt, ast.GtE)):
            oh = getattr(U, 'order_hook', None)
            if oh is not None:
                r = oh(self, op, a, b)
                if r is not None:
                    return r
            if a is None or b is None:
                raise SymRaise('TypeError', 'ordering comparison with None')
            for side in (a, b):
                sn = self.sort_of(side)
                if sn in getattr(U, 'options', {}):
                    raise OutsideSubset('ordering comparison on option sort (unwrap first)')
            try:
                if isinstance(op, ast.Lt):
                    return a < b
                if isinstance(op, ast.LtE):
                    return a <= b
                if isinstance(op, ast.Gt):
                    return a > b
                return a >= b
            except (TypeError, AttributeError, z3.Z3Exception) as e:
                raise OutsideSubset('ordering comparison on %s and %s (%s)' % (self.sort_of(a) or type(a).__name__,
                                                                              self.sort_of(b) or type(b).__name__, str(e)[:60]))
        if isinstance(op, (ast.In, ast.NotIn)):
            r = self.contains(b, a)
            if isinstance(op, ast.NotIn):
                return (not r) if isinstance(r, bool) else z3.Not(r)
            return r
        raise OutsideSubset('comparison %s' % type(op).__name__)

    def contains(self, container, x):
        U = self.U
        if isinstance(container, tuple) and len(container) == 2 and isinstance(container[0], str) and container[0] == 'kwkeys':
            if not isinstance(x, str):
                raise OutsideSubset('membership of a non-constant in kwargs keys')
            kw = container[1]
            return kw.fields[x][0] if x in kw.fields else False
        if isinstance(container, (set, frozenset, dict)):
            return x in container
        if is_z3(container):
            if z3.is_array_sort(container) if hasattr(z3, 'is_array_sort') else isinstance(container.sort(), z3.ArraySortRef):
                sn = self.sort_of(container)
                h = getattr(U, 'contains_hooks', {}).get(sn)
                if h:
                    return h(self, container, x)
                return z3.Select(container, self.coerce(x, U.sort_name(container.sort().domain())))
            if self.sort_of(container) == 'Str':
                return z3.Contains(container, self.coerce(x, 'Str'))
        if isinstance(container, (tuple, list)):
            parts = [self.compare(ast.Eq(), x, c) for c in container]
            if all(isinstance(p, bool) for p in parts):
                return any(parts)
            return z3.Or(*[z3.BoolVal(p) if isinstance(p, bool) else p for p in parts])
        raise OutsideSubset('membership test on %r' % (container,))

    def ev_Attribute(self, node):
        base = self.ev(node.value)
        return self.getattr(base, node.attr, node)

    def getattr(self, base, attr, node=None):
        U = self.U
        if is_z3(base) and self.sort_of(base) in getattr(U, 'options', {}) and attr != 'v':
            base = self.coerce(base, U.options[self.sort_of(base)])      # attribute of an Optional: None raises
        if is_z3(base):
            sn = self.sort_of(base)
            hook = getattr(U, 'attr_hooks', {}).get((sn, attr))
            if hook:
                return hook(self, base)
            if (sn, attr) in getattr(U, 'method_hooks', {}):
                return FuncVal('method', attr, base)
            if sn in U.records and attr in U.records[sn]:
                return z3.simplify(U.rget(sn, attr, base))
            if sn in U.fields and attr in U.fields[sn]:
                cands = U.fields[sn][attr]
                if z3.is_app(base):
                    for cname, acc in cands:
                        if base.decl().eq(U.ctor(sn, cname)):
                            return z3.simplify(acc(base))
                if len(cands) == 1:
                    cname, acc = cands[0]
                    if not self.pure:
                        if not self.choose_bool(U.is_(sn, cname, base), '@hasattr:' + attr):
                            raise SymRaise('AttributeError', attr)
                    return acc(base)
                t = cands[-1][1](base)
                for cname, acc in reversed(cands[:-1]):
                    t = z3.If(U.is_(sn, cname, base), acc(base), t)
                if not self.pure:
                    ok = z3.Or(*[U.is_(sn, c, base) for c, _ in cands])
                    if not self.choose_bool(ok, '@hasattr:' + attr):
                        raise SymRaise('AttributeError', attr)
                return t
            if sn in U.fields:
                if self.pure:
                    raise OutsideSubset('no field %s on sort %s' % (attr, sn))
                raise SymRaise('AttributeError', attr)
            return FuncVal('method', attr, base)
        if isinstance(base, KwMap):
            return FuncVal('method', attr, base)
        if isinstance(base, (list, tuple)) and not (len(base) >= 1 and isinstance(base[0], str) and base[0] == 'opaque'):
            return FuncVal('method', attr, base)
        if isinstance(base, str):
            return FuncVal('method', attr, base)
        if isinstance(base, ModuleVal):
            if attr not in base.attrs:
                raise OutsideSubset('%s.%s' % (base.name, attr))
            if is_z3(base.attrs[attr]):
                return base.attrs[attr]          # a module-level object (sys.stdout)
            return FuncVal('hook', base.name + '.' + attr, base.attrs[attr])
        if isinstance(base, FuncVal) and attr in ('__module__', '__qualname__', '__name__'):
            return self.fresh('Str', 'name')
        if isinstance(base, tuple) and len(base) >= 1 and isinstance(base[0], str) and base[0] == 'opaque':
            h = getattr(self.U, 'opaque_attr', None)
            if h:
                return h(self, base, attr)
        raise OutsideSubset('attribute %s of %r' % (attr, base))

    def ev_Subscript(self, node):
        base = self.ev(node.value)
        U = self.U
        sl = node.slice
        if isinstance(base, KwMap):
            k = self.ev(sl)
            if not isinstance(k, str):
                raise OutsideSubset('kwargs[<non-constant>]')
            if k not in base.fields:
                raise SymRaise('KeyError', k)
            present, val = base.fields[k]
            if not self.pure and not self.choose_bool(present, '@kwargs-has:' + k):
                raise SymRaise('KeyError', k)
            return val
        if isinstance(base, dict):
            k = self.ev(sl)
            if k not in base:
                raise SymRaise('KeyError', repr(k))
            return base[k]
        if isinstance(base, (tuple, list)) and not isinstance(sl, ast.Slice):
            i = self.ev(sl)
            if isinstance(i, int):
                if not -len(base) <= i < len(base):
                    raise SymRaise('IndexError', 'tuple index')
                return base[i]
        if isinstance(base, (tuple, list)) and isinstance(sl, ast.Slice):
            lo = self.ev(sl.lower) if sl.lower else None
            hi = self.ev(sl.upper) if sl.upper else None
            if (lo is None or isinstance(lo, int)) and (hi is None or isinstance(hi, int)) and sl.step is None:
                return base[lo:hi]
        if is_z3(base) and isinstance(sl, ast.Slice) and getattr(U, 'options', {}).get(self.sort_of(base)) == 'Str':
            base = self.coerce(base, 'Str')          # slicing an Optional[str]: None is a TypeError
        if is_z3(base) and self.sort_of(base) == 'Str' and isinstance(sl, ast.Slice) and sl.step is None:
            lo = self.ev(sl.lower) if sl.lower is not None else 0
            hi = self.ev(sl.upper) if sl.upper is not None else None
            n = z3.Length(base)
            for b in (lo, hi):
                if b is not None and not (is_z3(b) or isinstance(b, int)):
                    raise OutsideSubset('string slice bound')
            # Python clamps slice bounds; negative bounds (counting from the end) are outside the subset:
            # they generate an obligation that the bound is non-negative
            for b, nm in ((lo, 'lower'), (hi, 'upper')):
                if b is not None and not isinstance(b, int):
                    if not self.pure and not self.choose_bool(b >= 0, '@slice-%s-nonneg' % nm):
                        raise OutsideSubset('negative string slice bound')
                elif isinstance(b, int) and b < 0:
                    raise OutsideSubset('negative string slice bound')
            lo_ = self.coerce(lo, 'Int')
            if hi is None:
                return z3.SubString(base, lo_, n - lo_)      # offset > len gives ""
            hi_ = self.coerce(hi, 'Int')
            return z3.SubString(base, lo_, z3.If(hi_ >= lo_, hi_ - lo_, 0))
        if is_z3(base):
            sn = self.sort_of(base)
            hook = getattr(U, 'subscript_hooks', {}).get(sn)
            if hook:
                return hook(self, base, sl)
            if sn in U.lists:
                return self.list_subscript(sn, base, sl)
            if sn in U.records and not isinstance(sl, ast.Slice):
                i = self.ev(sl)
                if isinstance(i, int):
                    return z3.simplify(U.rget(sn, U.records[sn][i], base))
        raise OutsideSubset('subscript %s' % short(node))

    def list_subscript(self, sn, base, sl):
        U = self.U
        kind = U.lists[sn].kind

        def const(n):
            if n is None:
                return None
            v = self.ev(n)
            if not isinstance(v, int):
                raise OutsideSubset('non-constant list index')
            return v
        def drop_ite(t, n):
            # total drop by n nested conditionals (no forking): for larger constants than a path split per element allows
            if n > 64:
                raise OutsideSubset('slice bound %d too large for unrolling' % n)
            for _ in range(n):
                t = z3.If(U.is_nil(sn, t), t, U.tl(sn, t))
            return t

        def take_ite(t, n):
            if n > 64:
                raise OutsideSubset('slice bound %d too large for unrolling' % n)
            if n == 0:
                return U.nil(sn)
            return z3.If(U.is_nil(sn, t), U.nil(sn), U.cons(sn, U.hd(sn, t), take_ite(U.tl(sn, t), n - 1)))
        if isinstance(sl, ast.Slice):
            lo, hi = const(sl.lower), const(sl.upper)
            if sl.step is not None:
                raise OutsideSubset('slice step')
            if kind == 'fwd' and lo is not None and hi is not None and 0 <= lo <= hi:
                return z3.simplify(take_ite(drop_ite(base, lo), hi - lo))           # xs[lo:hi]
            if kind == 'fwd' and hi is None and lo is not None and lo > 3:
                return z3.simplify(drop_ite(base, lo))
            if kind == 'fwd' and lo is None and hi is not None and hi > 3:
                return z3.simplify(take_ite(base, hi))
            if kind in ('stack', 'snoc') and hi is None and lo is not None and lo < 0:
                return z3.simplify(take_ite(base, -lo))                             # xs[-k:]: the k entries nearest the top
            if kind in ('stack', 'snoc') and lo is None and hi is not None and hi < -1:
                return z3.simplify(drop_ite(base, -hi))                             # xs[:-k]
            if kind == 'fwd' and hi is None and lo is not None and lo >= 0:
                # xs[lo:]  = drop lo (total: shorter lists give [])
                t = base
                for _ in range(lo):
                    if self.pure:
                        t = z3.If(U.is_nil(sn, t), t, U.tl(sn, t))
                    elif self.choose_bool(U.is_cons(sn, t), '@slice'):
                        t = z3.simplify(U.tl(sn, t))
                    else:
                        break
                return z3.simplify(t)
            if kind == 'fwd' and lo is None and hi is not None and hi >= 0:
                # xs[:hi] = take hi
                def take(t, n):
                    if n == 0:
                        return U.nil(sn)
                    if self.pure:
                        return z3.If(U.is_nil(sn, t), U.nil(sn), U.cons(sn, U.hd(sn, t), take(U.tl(sn, t), n - 1)))
                    if self.choose_bool(U.is_cons(sn, t), '@slice'):
                        return U.cons(sn, z3.simplify(U.hd(sn, t)), take(z3.simplify(U.tl(sn, t)), n - 1))
                    return U.nil(sn)
                return z3.simplify(take(base, hi))
            if kind in ('stack', 'snoc') and lo is None and hi == -1:
                return z3.simplify(z3.If(U.is_nil(sn, base), base, U.tl(sn, base)))
            raise OutsideSubset('slice shape on %s list' % kind)
        i = const(sl)
        if kind == 'fwd' and i >= 0:
            t = base
            for _ in range(i):
                if not self.pure and not self.choose_bool(U.is_cons(sn, t), '@index'):
                    raise SymRaise('IndexError', 'list index')
                t = U.tl(sn, t)
            if not self.pure and not self.choose_bool(U.is_cons(sn, t), '@index'):
                raise SymRaise('IndexError', 'list index')
            return z3.simplify(U.hd(sn, t))
        if kind in ('stack', 'snoc') and i == -1:
            if not self.pure and not self.choose_bool(U.is_cons(sn, base), '@index'):
                raise SymRaise('IndexError', 'list index')
            return z3.simplify(U.hd(sn, base))
        raise OutsideSubset('index %d on %s list' % (i, kind))

    def ev_DictComp(self, node):
        if len(node.generators) != 1 or node.generators[0].ifs:
            raise OutsideSubset('dict comprehension shape')
        g = node.generators[0]
        it = self.ev(g.iter)
        if not isinstance(it, (tuple, list)):
            raise OutsideSubset('dict comprehension over a non-constant sequence')
        tnames = [n.id for n in ast.walk(g.target) if isinstance(n, ast.Name)]
        out = {}
        saved = {n: self.env.get(n, KeyError) for n in tnames}
        alias = set(getattr(self, 'param_alias', ()))
        for x in it:
            self.assign(g.target, x)
            k = self.ev(node.key)
            if not isinstance(k, str):
                raise OutsideSubset('dict comprehension with a non-constant key')
            out[k] = self.ev_pure(node.value)       # value expressions are merged with ite, not forked
        for n, v in saved.items():                   # comprehension variables have their own scope
            if v is KeyError:
                self.env.pop(n, None)
            else:
                self.env[n] = v
        if hasattr(self, 'param_alias'):
            self.param_alias = alias
        return out

    def ev_Dict(self, node):
        h = getattr(self.U, 'dict_hook', None)
        if h is None:
            raise OutsideSubset('dict display')
        return h(self, node)

    def ev_Lambda(self, node):
        return Closure(node, dict(self.env))

    def ev_GeneratorExp(self, node):
        if len(node.generators) != 1 or node.generators[0].is_async:
            raise OutsideSubset('generator expression with several clauses')
        g = node.generators[0]
        return GenExp('genexp', elt=node.elt, target=g.target, iter=self.ev(g.iter), ifs=g.ifs, env=dict(self.env))

    ev_ListComp = ev_GeneratorExp

    def ev_Call(self, node):
        # old(x): value at function entry
        if isinstance(node.func, ast.Name) and node.func.id == 'old':
            saved = self.env
            self.env = dict(self.old_env)
            try:
                return self.ev(node.args[0])
            finally:
                self.env = saved
        if isinstance(node.func, ast.Name) and node.func.id == 'athead':
            # value of an expression at the head of the innermost loop (ghost code at the back edge)
            heads = getattr(self, 'head_envs', [])
            if not heads:
                raise OutsideSubset('athead() outside a loop')
            saved = self.env
            self.env = dict(heads[-1])
            try:
                return self.ev(node.args[0])
            finally:
                self.env = saved
        if isinstance(node.func, ast.Name) and node.func.id == 'isinstance':
            return self.isinstance_(node)
        fn = self.ev(node.func)
        if any(isinstance(a, ast.Starred) for a in node.args):
            # f(a, b, *ARGS, **KWARGS) with opaque argument packs (forwarding shims): the family decides what such a call means
            h = getattr(self.U, 'packed_call_hook', None)
            stars = [a for a in node.args if isinstance(a, ast.Starred)]
            dstar = [k for k in node.keywords if k.arg is None]
            if h is None or len(stars) != 1 or node.args[-1] is not stars[0] or len(dstar) != 1 or len(node.keywords) != 1:
                raise OutsideSubset('star arguments')
            return h(self, fn, [self.ev(a) for a in node.args[:-1]], self.ev(stars[0].value), self.ev(dstar[0].value), node)
        args = [self.ev(a) for a in node.args]
        kwargs = {}
        for k in node.keywords:
            if k.arg is None:
                d = self.ev(k.value)
                if isinstance(d, dict) and all(isinstance(x, str) for x in d):
                    kwargs.update(d)
                elif isinstance(d, KwMap):
                    kwargs['**'] = d
                elif is_z3(d) and self.sort_of(d) in getattr(self.U, 'dict_records', ()):
                    # a dict with a fixed key set, represented as a record
                    sn_ = self.sort_of(d)
                    kwargs.update({f: z3.simplify(self.U.rget(sn_, f, d)) for f in self.U.records[sn_]})
                else:
                    raise OutsideSubset('**argument that is not a dict with constant keys')
            else:
                kwargs[k.arg] = self.ev(k.value)
        return self.call(fn, args, kwargs, node)

    def isinstance_(self, node):
        U = self.U
        v = self.ev(node.args[0])
        clsnode = node.args[1]
        names = [e.id for e in clsnode.elts] if isinstance(clsnode, ast.Tuple) else [clsnode.id]
        if is_z3(v):
            sn = self.sort_of(v)
            parts = []
            for n in names:
                ih = getattr(U, 'isinstance_hooks', {}).get((sn, n))
                if ih is not None:
                    parts.append(ih(self, v))
                elif n == 'str' and (sn, 'Text') in U.ctors:
                    parts.append(U.is_(sn, 'Text', v))
                elif n == 'str' and sn == 'Str':
                    parts.append(True)
                elif n == 'int' and sn == 'Int':
                    parts.append(True)
                elif n in U.classmap and U.classmap[n][0] == sn:
                    parts.append(U.is_(sn, U.classmap[n][1], v))
                elif n in getattr(U, 'isinstance_hooks', {}):
                    parts.append(U.isinstance_hooks[n](self, v))
                else:
                    parts.append(False)
            if all(isinstance(p, bool) for p in parts):
                return any(parts)
            parts = [z3.BoolVal(p) if isinstance(p, bool) else p for p in parts]
            r = parts[0] if len(parts) == 1 else z3.Or(*parts)
            # remember for refinement
            if len(names) == 1 and isinstance(node.args[0], ast.Name):
                n = names[0]
                key = (sn, 'Text') if n == 'str' else U.classmap.get(n)
                if key and key[0] == sn and key in U.ctors:
                    self._last_isinstance = (node.args[0].id, key, r)
            return r
        if isinstance(v, str):
            return 'str' in names
        if isinstance(v, bool):
            return 'bool' in names or 'int' in names
        if isinstance(v, int):
            return 'int' in names
        if v is None:
            return False
        raise OutsideSubset('isinstance on %r' % (v,))

    # ------------------------------------------------------------------ calls
    def call(self, fn, args, kwargs, node):
        if isinstance(fn, FuncVal):
            if fn.kind == 'builtin':
                return BUILTINS[fn.name](self, args, kwargs, node)
            if fn.kind == 'spec':
                return self.call_spec(fn.obj, args, kwargs)
            if fn.kind == 'ctor':
                return self.call_ctor(fn.name, args, kwargs)
            if fn.kind == 'method':
                return self.call_method(fn.obj, fn.name, args, kwargs, node)
            if fn.kind == 'callee':
                return self.call_contract(fn.obj, args, kwargs, node)
            if fn.kind == 'lemma':
                return self.call_lemma(fn.obj, args, kwargs)
            if fn.kind == 'hook':
                return fn.obj(self, args, kwargs, node)
            if fn.kind == 'fnparam':
                return self.call_contract(fn.obj, args, kwargs, node, callee_term=getattr(fn, 'term', None))
        if is_z3(fn):
            h = getattr(self.U, 'call_hooks', {}).get(self.sort_of(fn))
            if h:
                return h(self, fn, args, kwargs, node)
        if isinstance(fn, InlineDef):
            return self.call_inline(fn, args, kwargs)
        if isinstance(fn, ClassVal):
            return self.call_class(fn.name, args, kwargs)
        if isinstance(fn, Closure):
            return self.call_closure(fn, args, kwargs)
        raise OutsideSubset('call of %r at line %s' % (fn, self.lineno))

    def call_closure(self, clo, args, kwargs):
        node = clo.node
        if not isinstance(node, ast.Lambda):
            raise OutsideSubset('call of nested def')
        saved = self.env
        self.env = dict(clo.env)
        for p, a in zip(node.args.args, args):
            self.env[p.arg] = a
        try:
            return self.ev(node.body)
        finally:
            self.env = saved

    def call_spec(self, spec, args, kwargs):
        tr = self.translator
        decl = tr.decl_of(spec)
        if kwargs:
            names = [n for n, _ in spec.args]
            args = list(args) + [kwargs[n] for n in names[len(args):]]
        if len(args) != len(spec.args):
            raise OutsideSubset('arity of spec function %s' % spec.name)
        zargs = [self.coerce(a, s) for a, (_, s) in zip(args, spec.args)]
        return decl(*zargs)

    def call_ctor(self, name, args, kwargs):
        U = self.U
        if name in U.records:
            return self.coerce(tuple(args), name)
        dt, c = U.ctor_names[name]
        ct, rec, accs, fnames = U.ctors[(dt, c)]
        flds = dict(U.decl_spec[dt][1])[c] if False else [s for cn, fl in U.decl_spec[dt][1] if cn == c for _, s in fl]
        return ct(*[self.coerce(a, s) for a, s in zip(args, flds)])

    def call_class(self, name, args, kwargs):
        U = self.U
        if (name in EXC_LATTICE or name in getattr(U, 'exc_lattice', {})) and name not in U.classmap:
            return ('exc', name)
        hook = getattr(U, 'class_hooks', {}).get(name)
        if hook:
            return hook(self, args, kwargs)
        dt, c = U.classmap[name]
        ct, rec, accs, fnames = U.ctors[(dt, c)]
        fsorts = [s for cn, fl in U.decl_spec[dt][1] if cn == c for _, s in fl]
        init = getattr(U, 'class_init', {}).get(name)
        if init:
            args = init(self, args, kwargs)
        elif kwargs:
            args = list(args) + [kwargs[f] for f in fnames[len(args):]]
        if len(args) != len(fsorts):
            raise OutsideSubset('constructor arity %s' % name)
        return ct(*[self.coerce(a, s) for a, s in zip(args, fsorts)])

    def call_method(self, obj, name, args, kwargs, node):
        U = self.U
        if isinstance(obj, KwMap) and name == 'keys':
            return ('kwkeys', obj)
        if isinstance(obj, tuple) and len(obj) == 2 and isinstance(obj[0], str) and obj[0] == 'kwkeys' and name == 'issubset':
            other = args[0]
            if isinstance(other, (set, frozenset)):
                # the field universe of a KwMap is fixed: keys outside it cannot be represented (stated in the contract)
                return all(f in other for f in obj[1].fields)
            raise OutsideSubset('issubset of %r' % (other,))
        if isinstance(obj, str) and name == 'format':
            fh = getattr(U, 'format_hook', None)
            if fh is not None:
                r = fh(self, obj, args, kwargs, node)
                if r is not None:
                    return r
            return self.fresh('Str', 'fmt')          # the text of messages is not modelled
        if isinstance(obj, str):
            hook = getattr(U, 'method_hooks', {}).get(('Str', name))
            if hook:
                return hook(self, z3.StringVal(obj), args, kwargs, node)
        if is_z3(obj):
            osn = self.sort_of(obj)
            opts = getattr(U, 'options', {})
            if osn in opts:
                obj = self.coerce(obj, opts[osn])       # method call on an Optional: None is an AttributeError/TypeError
        if isinstance(obj, tuple) and len(obj) >= 1 and isinstance(obj[0], str) and obj[0] == 'opaque':
            h = getattr(U, 'opaque_method', None)
            if h:
                return h(self, obj, name, args, kwargs, node)
        if is_z3(obj):
            sn = self.sort_of(obj)
            hook = getattr(U, 'method_hooks', {}).get((sn, name))
            if hook:
                return hook(self, obj, args, kwargs, node)
            if sn in U.lists:
                return self.list_method(sn, obj, name, args, node)
            if sn == 'Str':
                if name == 'rstrip' and not args:
                    return self.translator.builtin_fn('str_rstrip', ['Str'], 'Str')(obj)
                if name == 'startswith' and len(args) == 1 and not kwargs and self.sort_of(args[0]) == 'Str':
                    return z3.PrefixOf(self.coerce(args[0], 'Str'), obj)
                if name == 'endswith' and len(args) == 1 and not kwargs and self.sort_of(args[0]) == 'Str':
                    return z3.SuffixOf(self.coerce(args[0], 'Str'), obj)
        raise OutsideSubset('method %s on %r' % (name, self.sort_of(obj) or obj))

    def rebind_target(self, node, newval):
        """A mutating method call on a variable is a rebinding of that variable (value semantics;
        alias freedom is checked separately)."""
        tgt = node.func.value
        if not isinstance(tgt, ast.Name):
            raise OutsideSubset('mutating method on a non-variable: %s' % short(node))
        self.note_mutation(tgt.id)
        self.env[tgt.id] = newval

    def note_mutation(self, name):
        """Frame: an object received as a parameter may only be mutated if the contract lists it under `modifies`
        (the postcondition of a parameter outside `modifies` is stated over its entry value, and callers assume it unchanged)."""
        c = self.fn_contract
        if c is None or getattr(self, 'ghost_mode', False):
            return
        self.check_alias_mutation(name)
        if name in getattr(self, 'param_alias', ()) and name not in c.modifies:
            self.oblige('frame(%s is mutated but not listed in modifies)' % name, False, 'frame')

    def list_method(self, sn, obj, name, args, node):
        U = self.U
        info = U.lists[sn]
        if name == 'append' and info.kind in ('stack', 'snoc'):
            self.rebind_target(node, U.cons(sn, self.coerce(args[0], info.elem), obj))
            return None
        if name in ('append', 'extend') and info.kind == 'fwd' and getattr(U, 'append_idiom', None):
            other = args[0]
            if name == 'append':
                other = U.cons(sn, self.coerce(other, info.elem), U.nil(sn))
            self.rebind_target(node, U.append_idiom(self, sn, obj, self.coerce(other, sn)))
            return None
        if name == 'pop' and info.kind == 'stack' and not args:
            if not self.choose_bool(U.is_cons(sn, obj), '@nonempty'):
                raise SymRaise('IndexError', 'pop from empty list')
            self.rebind_target(node, z3.simplify(U.tl(sn, obj)))
            return z3.simplify(U.hd(sn, obj))
        if name == 'extend' and info.kind == 'stack':
            src = args[0]
            # stack.extend(E(x) for x in reversed(L))  ==  map E L  ++ stack     (head = top)
            if isinstance(src, GenExp) and src.kind == 'genexp' and isinstance(src.iter, GenExp) \
                    and src.iter.kind == 'reversed' and not src.ifs:
                L = src.iter.arg
                lsn = self.sort_of(L)
                if lsn in U.lists and U.lists[lsn].kind == 'fwd':
                    idiom = getattr(U, 'extend_reversed_idiom', None)
                    if idiom:
                        self.rebind_target(node, idiom(self, sn, obj, src, L))
                        return None
            if isinstance(src, GenExp) and src.kind == 'genexp' and is_z3(src.iter) and not src.ifs:
                lsn = self.sort_of(src.iter)
                idiom = getattr(U, 'extend_forward_idiom', None)
                if lsn in U.lists and U.lists[lsn].kind == 'fwd' and idiom:
                    self.rebind_target(node, idiom(self, sn, obj, src, src.iter))
                    return None
            raise OutsideSubset('extend shape: %s' % short(node))
        raise OutsideSubset('list method %s on %s list' % (name, info.kind))

    def bind_params(self, c, args, kwargs, skip_self=False):
        kwp = getattr(c, 'kwparam', None)
        if kwp:
            # the callee declares **kwargs: collect the call's keywords that are not named parameters
            named = [n for n in c.params if n != kwp]
            extra = {k: v for k, v in kwargs.items() if k not in named and k != '**'}
            kwargs = {k: v for k, v in kwargs.items() if k in named}
            universe = c.kw_universe        # {field: sort}
            for k in extra:
                if k not in universe:
                    raise SymRaise('AssertionError', 'unexpected keyword %s' % k)
            fields = {}
            for f, sn in universe.items():
                if f in extra:
                    fields[f] = (True, self.coerce(extra[f], sn))
                else:
                    fields[f] = (False, self.fresh(sn, 'absent_' + f))
            kwargs[kwp] = KwMap(fields)
        names = list(c.params)
        vals = {}
        for n, a in zip(names, args):
            vals[n] = a
        for k, v in kwargs.items():
            if k not in names:
                raise SymRaise('TypeError', 'unexpected keyword %s' % k)
            if k in vals:
                raise SymRaise('TypeError', 'duplicate argument %s' % k)
            vals[k] = v
        for n in names:
            if n not in vals:
                d = getattr(c, 'defaults', {}).get(n, KeyError)
                if d is KeyError:
                    raise OutsideSubset('missing argument %s in call of %s' % (n, c.qualname))
                vals[n] = d
        return {n: (vals[n] if (n in c.fnparams or isinstance(vals[n], KwMap)) else self.coerce(vals[n], c.params[n])) for n in names}

    def call_contract(self, c, args, kwargs, node, callee_term=None):
        """Modular call: assert pre, havoc modifies, assume post."""
        vals = self.bind_params(c, args, kwargs)
        cglobals = getattr(c, 'globals_', None) or {}
        for g in cglobals:
            # module-level state the callee reads / writes: the caller must carry it too (declared in its own contract)
            if g not in self.env:
                raise OutsideSubset('callee %s uses the global %s, which the caller does not declare' % (c.qualname, g))
            vals[g] = self.env[g]
        saved_env, saved_old = self.env, self.old_env
        cenv = dict(vals)
        # ghost universals of the callee are fresh here only for requires (they may not occur there)
        self.env, self.old_env = cenv, dict(vals)
        try:
            for cl in c.requires:
                g = self.to_bool(self.ev_pure(cl.node))
                self.env, self.old_env = saved_env, saved_old
                self.oblige('call:%s/pre:%s' % (c.qualname, cl.name), g, 'precondition')
                self.env, self.old_env = cenv, dict(vals)
            # decreases for recursive calls (direct, or mutual inside a declared recursion group)
            same_group = (self.fn_contract is not None and getattr(c, 'rec_group', None) is not None
                          and getattr(self.fn_contract, 'rec_group', None) == c.rec_group)
            if (c is self.fn_contract or same_group) and c.decreases:
                new = [self.ev_pure(d.node) for d in c.decreases]
                self.env, self.old_env = saved_env, saved_old
                self.oblige('call:%s/decreases' % c.qualname, self.lex_less(new, self.entry_measure), 'decreases')
                self.env, self.old_env = cenv, dict(vals)
            # havoc
            post_env = dict(vals)
            rebinds = {}
            for m in c.modifies:
                nv = self.fresh(c.params[m] if m in c.params else cglobals[m], m + "'")
                post_env[m] = nv
                rebinds[m] = nv
            result = None
            functional = None
            if c.returns:
                # a postcondition `result == <spec term>` defines the result: use the term itself (so that
                # lemma triggers match syntactically) instead of a fresh constant constrained by an equation
                for cl in list(c.defines) + list(c.ensures):
                    n = cl.node
                    if (isinstance(n, ast.Compare) and len(n.ops) == 1 and isinstance(n.ops[0], ast.Eq)
                            and isinstance(n.left, ast.Name) and n.left.id == 'result' and not c.forall
                            and not any(isinstance(x, ast.Name) and x.id == 'result' for x in ast.walk(n.comparators[0]))):
                        self.env, self.old_env = post_env, dict(vals)
                        try:
                            functional = (cl, self.coerce(self.ev_pure(n.comparators[0]), c.returns))
                        finally:
                            self.env, self.old_env = cenv, dict(vals)
                        break
                result = functional[1] if functional else self.fresh(c.returns, 'r_' + c.qualname.split('.')[-1])
                post_env['result'] = result
            elif c.yields:
                result = self.fresh(c.yields, 'y_' + c.qualname.split('.')[-1])
                post_env['result'] = result
            # callee ghosts are unknown to the caller
            for g, (gs, _init) in c.ghost.items():
                post_env[g] = self.fresh(gs, 'g_' + g)
            # exceptional outcome with a symbolic exception (callee declares raises_sym: what may escape)
            if getattr(c, 'raises_sym', None) is not None:
                self.env, self.old_env = saved_env, saved_old
                if self.choose_bool(self.fresh('Bool', 'raises'), '@raises:' + c.qualname):
                    term = self.fresh(self.U.exc_sort, 'exc')
                    self.env, self.old_env = dict(post_env), dict(vals)
                    self.env['exc'] = term
                    try:
                        rs = [self.to_bool(self.ev_pure(ast.parse(c.raises_sym, mode='eval').body))]
                        rs += [self.to_bool(self.ev_pure(cl.node)) for cl in c.ensures_raise]
                    finally:
                        self.env, self.old_env = saved_env, saved_old
                    for f in rs:
                        self.assume(f)
                    for m_, nv in rebinds.items():
                        self.writeback(c, m_, nv, node)
                    eff = getattr(c, 'effect_raise', None)
                    if eff:
                        eff(self, term)
                    raise SymRaise('<sym>', 'raised by %s' % c.qualname, term=term)
                self.env, self.old_env = cenv, dict(vals)
            # exceptional outcome?
            if c.raises:
                for exc, guard in c.raises.items():
                    self.env, self.old_env = cenv, dict(vals)
                    g = self.to_bool(self.ev_pure(ast.parse(guard, mode='eval').body))
                    self.env, self.old_env = saved_env, saved_old
                    if self.choose_bool(g, '@raises:%s:%s' % (c.qualname, exc)):
                        raise SymRaise(exc, 'raised by %s' % c.qualname)
                    self.env, self.old_env = cenv, dict(vals)
            self.env, self.old_env = post_env, dict(vals)
            # universally quantified ghost parameters: local lemma, instantiated by trigger matching
            if c.forall:
                qv = {n: z3.Const('q_%s!%d' % (n, self.counter + i), self.U.sort(s))
                      for i, (n, s) in enumerate(c.forall.items())}
                self.counter += len(qv)
                self.env.update(qv)
            facts = [self.to_bool(self.ev_pure(cl.node)) for cl in list(c.defines) + list(c.ensures)
                     if not (functional and cl is functional[0])]
        finally:
            self.env, self.old_env = saved_env, saved_old
        for f in facts:
            if isinstance(f, bool):
                self.assume(f)
                continue
            used = []
            if c.forall:
                from .vcgen import subterms
                ids = {t.get_id() for t in subterms([f]).values()}
                used = [v for v in qv.values() if v.get_id() in ids]
            if used:
                self.local_lemmas.append((used, f, None))
            else:
                self.assume(f)
        # write back modified containers to the caller's variables
        for m, nv in rebinds.items():
            if m in cglobals:
                self.env[m] = nv
                continue
            idx = list(c.params).index(m)
            argnode = None
            if node is None:
                continue
            if idx < len(node.args):
                argnode = node.args[idx]
            else:
                for k in node.keywords:
                    if k.arg == m:
                        argnode = k.value
            if node is None:
                continue
            if isinstance(argnode, ast.Name):
                self.env[argnode.id] = nv
            elif argnode is not None and not isinstance(argnode, (ast.List, ast.Call)):
                raise OutsideSubset('modified argument is not a variable: %s' % short(argnode))
        eff = getattr(c, 'effect', None)
        if eff:
            eff(self, result)
        self.events.append(('call', c.qualname))
        return result

    def writeback(self, c, m, nv, node):
        if m in (getattr(c, 'globals_', None) or {}):
            self.env[m] = nv
            return
        if node is None:
            return
        idx = list(c.params).index(m)
        argnode = None
        if idx < len(node.args):
            argnode = node.args[idx]
        else:
            for k in node.keywords:
                if k.arg == m:
                    argnode = k.value
        if isinstance(argnode, ast.Name):
            self.env[argnode.id] = nv

    def call_lemma(self, lem, args, kwargs):
        """Ghost call of a lemma: assert requires, assume ensures, for these arguments."""
        names = [n for n, _ in lem.forall]
        vals = dict(zip(names, args))
        vals.update(kwargs)
        zv = {n: self.coerce(vals[n], s) for n, s in lem.forall}
        saved = self.env
        self.env = dict(zv)
        try:
            reqs = [self.to_bool(self.ev_pure(cl.node)) for cl in lem.requires]
            ens = [self.to_bool(self.ev_pure(cl.node)) for cl in lem.ensures]
            meas = [self.ev_pure(d.node) for d in lem.decreases]
        finally:
            self.env = saved
        for cl, g in zip(lem.requires, reqs):
            self.oblige('lemma:%s/pre:%s' % (lem.name, cl.name), g, 'precondition')
        if self.current_lemma_index is not None:
            if lem.index == self.current_lemma_index:
                if not lem.decreases:
                    raise OutsideSubset('recursive lemma %s without decreases' % lem.name)
                self.oblige('lemma:%s/decreases' % lem.name, self.lex_less(meas, self.entry_measure), 'decreases')
            elif lem.group is not None and lem.group == self.cset.lemmas[self.current_lemma_index].group:
                # mutual induction inside a group: same well-founded measure, strictly smaller
                self.oblige('lemma:%s/decreases' % lem.name, self.lex_less(meas, self.entry_measure), 'decreases')
            elif lem.index > self.current_lemma_index:
                raise OutsideSubset('lemma %s used before it is proved (order)' % lem.name)
        for f in ens:
            self.assume(f)
        return None

    def lex_less(self, new, old):
        """new < old lexicographically, every component bounded below by 0."""
        if len(new) != len(old):
            raise OutsideSubset('measure arity')
        new = [z3.IntVal(x) if isinstance(x, int) else x for x in new]
        old = [z3.IntVal(x) if isinstance(x, int) else x for x in old]
        conds = []
        eq_prefix = []
        for n, o in zip(new, old):
            conds.append(z3.And(*(eq_prefix + [n < o, o >= 0])) if eq_prefix else z3.And(n < o, o >= 0))
            eq_prefix.append(n == o)
        return z3.Or(*conds) if len(conds) > 1 else conds[0]

    def inv_goal(self, spec, cl):
        """an invariant clause as a proof goal: its universally quantified ghosts become fresh constants"""
        if not spec.forall:
            return self.to_bool(self.ev_pure(cl.node))
        saved = dict(self.env)
        for n, sn in spec.forall.items():
            self.env[n] = self.fresh(sn, 'sk_' + n)
        try:
            return self.to_bool(self.ev_pure(cl.node))
        finally:
            self.env = saved

    def inv_assume(self, spec, cl):
        """an invariant clause as an assumption: quantified ghosts make it a local lemma (instantiated by triggers)"""
        if not spec.forall:
            self.assume(self.to_bool(self.ev_pure(cl.node)))
            return
        saved = dict(self.env)
        qv = {}
        for n, sn in spec.forall.items():
            self.counter += 1
            qv[n] = z3.Const('q_%s!%d' % (n, self.counter), self.U.sort(sn))
            self.env[n] = qv[n]
        try:
            f = self.to_bool(self.ev_pure(cl.node))
        finally:
            self.env = saved
        if isinstance(f, bool):
            self.assume(f)
            return
        from .vcgen import subterms
        ids = {t.get_id() for t in subterms([f]).values()}
        used = [v for v in qv.values() if v.get_id() in ids]
        if used:
            self.local_lemmas.append((used, f, None))
        else:
            self.assume(f)

    def check_havoc_complete(self, head, targets, ordinal):
        for n, v0 in head.items():
            if n in targets or n.startswith('__'):
                continue
            v1 = self.env.get(n)
            same = (v1 is v0) or (is_z3(v0) and is_z3(v1) and v0.eq(v1))
            if not same:
                try:
                    same = bool(v0 == v1) if not (is_z3(v0) or is_z3(v1)) else False
                except Exception:       # noqa
                    same = False
            if not same:
                raise OutsideSubset('loop %d changes variable %s, which was not havoced at the loop head '
                                    '(unsound cut): declare it in the loop spec `modifies`' % (ordinal, n))

    def exec_ghost(self, src):
        import textwrap
        tree = ast.parse(textwrap.dedent(src))
        saved = getattr(self, 'ghost_mode', False)
        self.ghost_mode = True
        try:
            for st in tree.body:
                for n in ast.walk(st):
                    if hasattr(n, 'lineno'):
                        n.lineno = getattr(self, 'code_line', 0)
                self.exec_block([st])
        finally:
            self.ghost_mode = saved

    def ev_pure(self, node):
        saved = self.pure
        self.pure = True
        try:
            return self.ev(node)
        finally:
            self.pure = saved

    # ------------------------------------------------------------------ pure blocks (spec bodies)
    def pure_block(self, stmts):
        for i, s in enumerate(stmts):
            if isinstance(s, ast.Return):
                return self.ev(s.value) if s.value is not None else None
            if isinstance(s, ast.Expr) and isinstance(s.value, ast.Constant):
                continue
            if isinstance(s, ast.Assign):
                self.assign(s.targets[0], self.ev(s.value))
                continue
            if isinstance(s, ast.If):
                self._last_isinstance = None
                c = self.to_bool(self.ev(s.test))
                li = self._last_isinstance
                self._last_isinstance = None
                if isinstance(c, bool):
                    return self.pure_block((s.body if c else s.orelse) + stmts[i + 1:])
                env0 = dict(self.env)
                if li is not None and is_z3(c) and li[2] is not None and c.eq(li[2]):
                    self.refine(li[0], li[1][0], li[1][1])       # inside the branch x is a C(...)
                a = self.pure_block(s.body + stmts[i + 1:])
                self.env = dict(env0)
                b = self.pure_block(s.orelse + stmts[i + 1:])
                self.env = env0
                return self.ite(c, a, b)
            raise OutsideSubset('statement %s in a spec function' % type(s).__name__)
        raise OutsideSubset('spec function path without return')

    # ------------------------------------------------------------------ statements
    def assign(self, target, value):
        if isinstance(target, ast.Name):
            ls = self.fn_contract.locals_.get(target.id) if self.fn_contract is not None else None
            if ls is not None and value is not None:
                value = self.coerce(value, ls)
            self.env[target.id] = value
            if hasattr(self, 'param_alias'):
                self.param_alias.discard(target.id)      # rebound: no longer the caller's object
            grp = getattr(self, 'aliases', {}).pop(target.id, None)
            if grp:
                grp.discard(target.id)
            return
        if isinstance(target, (ast.Tuple, ast.List)):
            U = self.U
            if is_z3(value) and self.sort_of(value) in U.records:
                sn = self.sort_of(value)
                value = tuple(z3.simplify(U.rget(sn, f, value)) for f in U.records[sn])
            if not isinstance(value, (tuple, list)) or len(value) != len(target.elts):
                raise OutsideSubset('unpacking %s' % short(target))
            for t, v in zip(target.elts, value):
                self.assign(t, v)
            return
        if isinstance(target, ast.Subscript):
            base = self.ev(target.value)
            hook = getattr(self.U, 'setitem_hooks', {}).get(self.sort_of(base))
            if hook and isinstance(target.value, ast.Name):
                self.note_mutation(target.value.id)
                self.env[target.value.id] = hook(self, base, target.slice, value)
                return
        if isinstance(target, ast.Attribute) and isinstance(target.value, ast.Name):
            base0 = self.env.get(target.value.id)
            sn0 = self.sort_of(base0) if is_z3(base0) else None
            if sn0 in self.U.records and target.attr in self.U.records[sn0] and (sn0, target.attr) not in getattr(self.U, 'setattr_hooks', {}):
                flds = self.U.decl_spec[sn0][1]
                vals = [self.coerce(value, fs) if f == target.attr else z3.simplify(self.U.rget(sn0, f, base0)) for f, fs in flds]
                self.note_mutation(target.value.id)
                self.env[target.value.id] = self.U.mk(sn0, *vals)
                return
        if isinstance(target, ast.Attribute):
            base = self.ev(target.value)
            hook = getattr(self.U, 'setattr_hooks', {}).get((self.sort_of(base), target.attr))
            if hook and isinstance(target.value, ast.Name):
                self.note_mutation(target.value.id)
                self.env[target.value.id] = hook(self, base, value)
                return
        raise OutsideSubset('assignment target %s' % short(target))

    def exec_block(self, stmts):
        for s in stmts:
            self.exec_stmt(s)

    def exec_stmt(self, s):
        self.lineno = s.lineno
        self.code_line = s.lineno
        m = getattr(self, 'st_' + type(s).__name__, None)
        if m is None:
            raise OutsideSubset('statement %s at line %d' % (type(s).__name__, s.lineno))
        m(s)

    def st_Pass(self, s):
        pass

    def st_Expr(self, s):
        if isinstance(s.value, ast.Constant):
            return
        if isinstance(s.value, (ast.Yield,)):
            self.do_yield(s.value)
            return
        self.ev(s.value)

    def do_yield(self, node):
        if self.out is None:
            raise OutsideSubset('yield in a function without a yields sort')
        v = self.ev(node.value)
        info = self.U.lists[self.out_sort]
        self.out = self.U.cons(self.out_sort, self.coerce(v, info.elem), self.out)
        self.env['__out__'] = self.out

    def st_Assign(self, s):
        v = self.ev_pure(s.value) if getattr(self, 'ghost_mode', False) else self.ev(s.value)
        for t in s.targets:
            self.assign(t, v)
        # alias guard: `x = y` with y a mutable container makes two names for one object; containers have value semantics
        # here, so a later mutation through either name would not be seen through the other.  Remember the pair; a mutation
        # of a name that still has a live alias leaves the subset (undecided) instead of being verified wrongly.
        if not getattr(self, 'ghost_mode', False) and isinstance(s.value, ast.Name) and is_z3(v) and self.is_container(v):
            for t in s.targets:
                if isinstance(t, ast.Name) and t.id != s.value.id:
                    self.aliases = getattr(self, 'aliases', {})
                    grp = self.aliases.get(s.value.id) or {s.value.id}
                    grp.add(t.id)
                    for n in grp:
                        self.aliases[n] = grp

    def is_container(self, v):
        sn = self.sort_of(v)
        return sn in self.U.lists or sn in self.U.records or isinstance(v.sort(), z3.ArraySortRef)

    def check_alias_mutation(self, name):
        grp = getattr(self, 'aliases', {}).get(name)
        if grp and len(grp) > 1:
            raise OutsideSubset('mutation of %s, which has the alias(es) %s (containers have value semantics in the encoding)'
                                % (name, ', '.join(sorted(grp - {name}))))

    def st_AugAssign(self, s):
        cur = self.ev(s.target)
        v = self.binop(s.op, cur, self.ev_pure(s.value) if getattr(self, 'ghost_mode', False) else self.ev(s.value))
        self.assign(s.target, v)

    def st_Return(self, s):
        raise ReturnSig(self.ev(s.value) if s.value is not None else None)

    def st_Continue(self, s):
        raise ContinueSig()

    def st_Break(self, s):
        raise BreakSig()

    def st_Raise(self, s):
        if s.exc is None:
            cur = getattr(self, 'handling', None)
            if cur is None:
                raise OutsideSubset('bare raise outside a handler')
            raise SymRaise(cur.cls, cur.why, term=cur.term)
        node = s.exc
        if isinstance(node, ast.Call):
            name = node.func.id if isinstance(node.func, ast.Name) else None
        elif isinstance(node, ast.Name):
            name = node.id
        else:
            name = None
        if name in EXC_LATTICE or name in getattr(self.U, 'exc_lattice', {}):
            raise SymRaise(name, 'raise statement at line %d' % s.lineno)
        if isinstance(node, ast.Name) and name in self.env and isinstance(self.env[name], tuple) and len(self.env[name]) == 3 and isinstance(self.env[name][0], str) and self.env[name][0] == 'excval':
            raise SymRaise(self.env[name][1], 're-raise', term=self.env[name][2])
        v = self.ev(node)
        hook = getattr(self.U, 'raise_hook', None)
        if hook:
            hook(self, v, s)
        raise OutsideSubset('raise of %s' % short(node))

    def st_Assert(self, s):
        c = self.to_bool(self.ev(s.test))
        if getattr(self, 'ghost_mode', False):
            # a ghost assertion is a proof obligation with a name of its own (never decided silently by path pruning)
            self.oblige('ghost-assert(%s)' % short(s.test, 60), c, 'ghost-assert')
            self.assume(c)
            return
        if not self.choose_bool(c, '@assert:' + short(s.test)):
            raise SymRaise('AssertionError', short(s.test))

    def st_If(self, s):
        self._last_isinstance = None
        c = self.to_bool(self.ev(s.test))
        li = self._last_isinstance
        self._last_isinstance = None
        taken = self.choose_bool(c, short(s.test))
        if taken:
            if li is not None and is_z3(c) and li[2] is not None and c.eq(li[2]):
                self.refine(li[0], li[1][0], li[1][1])
            self.exec_block(s.body)
        else:
            self.exec_block(s.orelse)

    def st_Global(self, s):
        decl = (getattr(self.fn_contract, 'globals_', None) or {}) if self.fn_contract is not None else {}
        for n in s.names:
            if n not in decl:
                raise OutsideSubset('global %s is not declared in the contract' % n)
        # declared globals live in the environment from the entry on: nothing to do

    st_Nonlocal = st_Global          # a closure variable the nested unit rebinds: declared like a global of the unit

    def st_FunctionDef(self, s):
        self.env[s.name] = Closure(s, self.env)

    def st_Try(self, s):
        if s.finalbody:
            try:
                self.try_core(s)
            except (SymRaise, ReturnSig, BreakSig, ContinueSig):
                self.exec_block(s.finalbody)       # (an exception raised by the finally block itself replaces the pending one)
                raise
            else:
                self.exec_block(s.finalbody)
            return
        self.try_core(s)

    def try_core(self, s):
        try:
            self.exec_block(s.body)
        except SymRaise as e:
            for h in s.handlers:
                if h.type is None:
                    names = ['BaseException']
                elif isinstance(h.type, ast.Tuple):
                    names = [x.id for x in h.type.elts]
                else:
                    names = [h.type.id]
                hook = getattr(self.U, 'except_hook', None)
                lat = getattr(self.U, 'exc_lattice', None)
                matched = hook(self, e, names) if hook and e.term is not None else any(exc_subclass(e.cls, n, lat) for n in names)
                if matched:
                    if h.name:
                        self.env[h.name] = ('excval', e.cls, e.term)
                    self.trace.append('+except ' + '|'.join(names))
                    saved_h = getattr(self, 'handling', None)
                    self.handling = e
                    try:
                        self.exec_block(h.body)
                    finally:
                        self.handling = saved_h
                    return
            raise
        else:
            self.exec_block(s.orelse)

    def st_While(self, s):
        self.loop(s, kind='while')

    def st_For(self, s):
        self.loop(s, kind='for')

    # ------------------------------------------------------------------ loops
    def assigned_names(self, stmts):
        """Variables a loop body may rebind: assignment targets and receivers of mutating methods."""
        names = set()
        MUT = {'append', 'extend', 'pop', 'add', 'remove', 'insert', 'clear', 'update', 'discard', 'write'}
        for st in stmts:
            for n in ast.walk(st):
                if isinstance(n, (ast.Assign, ast.AugAssign, ast.For)):
                    tg = n.targets if isinstance(n, ast.Assign) else [n.target]
                    for t in tg:
                        for x in ast.walk(t):
                            if isinstance(x, ast.Name) and isinstance(x.ctx, ast.Store):
                                names.add(x.id)
                            if isinstance(x, (ast.Subscript, ast.Attribute)) and isinstance(x.value, ast.Name) \
                                    and isinstance(x.ctx, ast.Store):
                                names.add(x.value.id)
                if isinstance(n, ast.Call) and isinstance(n.func, ast.Attribute) and n.func.attr in MUT \
                        and isinstance(n.func.value, ast.Name):
                    names.add(n.func.value.id)
                if isinstance(n, ast.Call) and isinstance(n.func, ast.Name) and n.func.id == 'next' and n.args \
                        and isinstance(n.args[0], ast.Name):
                    names.add(n.args[0].id)          # next(it) advances the iterator variable
                if isinstance(n, ast.Call):
                    # callee contracts with modifies
                    f = n.func
                    nm = f.id if isinstance(f, ast.Name) else None
                    c = self.callee_map().get(nm) if nm else None
                    if c is None and nm in self.env and isinstance(self.env[nm], FuncVal) and self.env[nm].kind == 'fnparam':
                        c = self.env[nm].obj
                    if c is not None:
                        for m in c.modifies:
                            idx = list(c.params).index(m)
                            an = n.args[idx] if idx < len(n.args) else next((k.value for k in n.keywords if k.arg == m), None)
                            if isinstance(an, ast.Name):
                                names.add(an.id)
                if isinstance(n, ast.ExceptHandler) and n.name:
                    names.add(n.name)
        return names

    def loop(self, s, kind):
        U = self.U
        ordinal = self.loop_counter
        self.loop_counter += 1
        spec = self.fn_contract.loops.get(ordinal) if self.fn_contract else None
        if spec is None:
            raise OutsideSubset('loop %d at line %d has no invariant' % (ordinal, s.lineno))
        if s.orelse:
            raise OutsideSubset('loop else clause')
        rest_name = spec.rest or ('__rest%d' % ordinal)
        done_name = spec.done
        if kind == 'for':
            it = self.ev(s.iter)
            lsn = self.sort_of(it)
            if not (is_z3(it) and lsn in U.lists and U.lists[lsn].kind == 'fwd'):
                hook = getattr(U, 'for_hook', None)
                it2 = hook(self, it, s) if hook else None
                if it2 is None:
                    raise OutsideSubset('for loop over %s' % short(s.iter))
                it = it2
                lsn = self.sort_of(it)
            self.env[rest_name] = it
            if done_name:
                dsn = spec.done_sort
                self.env[done_name] = U.nil(dsn)
        for g in spec.ghost_head:
            pass
        # 1. invariant on entry
        self.loop_ctx.append((ordinal, len(self.trace)))
        for cl in spec.inv:
            self.oblige('entry/inv:' + cl.name, self.inv_goal(spec, cl), 'invariant-entry')
        # 2. havoc
        targets = self.assigned_names(s.body) | ({rest_name} if kind == 'for' else set())
        if kind == 'for':
            for x in ast.walk(s.target):
                if isinstance(x, ast.Name):
                    targets.add(x.id)
        if spec.modifies:
            targets |= set(spec.modifies)
        ghost_names = set(self.fn_contract.ghost) if self.fn_contract else set()
        targets |= ghost_names
        for n in sorted(targets):
            if n in self.env:
                v = self.env[n]
                if is_z3(v) or isinstance(v, tuple):
                    self.env[n] = self.fresh_like(v, n)
                elif isinstance(v, (int, bool, str)) and not isinstance(v, FuncVal):
                    sn = self.sort_of(v)
                    self.env[n] = self.fresh(sn, n)
                elif v is None:
                    lsort = self.fn_contract.locals_.get(n)
                    if lsort is None:
                        raise OutsideSubset('loop variable %s starts as None: declare its sort in locals_' % n)
                    self.env[n] = self.fresh(lsort, n)
                else:
                    raise OutsideSubset('cannot havoc loop variable %s = %r' % (n, v))
        if self.out is not None:
            self.out = self.fresh(self.out_sort, 'out')
            self.env['__out__'] = self.out
        head_snapshot = dict(self.env)
        if not hasattr(self, 'head_envs'):
            self.head_envs = []
        self.head_envs.append(head_snapshot)
        # the loop-head state is what a counter-model of a loop-cut obligation describes
        self.inputs = dict(self.inputs)
        self.inputs['@loop%d' % ordinal] = {n: self.env[n] for n in sorted(targets)
                                            if n in self.env and (is_z3(self.env[n]) or isinstance(self.env[n], tuple))}
        if self.out is not None:
            self.inputs['@loop%d' % ordinal]['__out__'] = self.out
        self.loop_ctx[-1] = (ordinal, len(self.trace))
        for cl in spec.inv:
            self.inv_assume(spec, cl)
        measure = [self.ev_pure(d.node) for d in spec.decreases]
        # 3. guard
        if kind == 'while':
            c = self.to_bool(self.ev(s.test))
            enter = self.choose_bool(c, 'while ' + short(s.test))
        else:
            rest = self.env[rest_name]
            enter = self.choose_bool(U.is_cons(lsn, rest), 'for ' + short(s.target))
            if enter:
                self.assign(s.target, z3.simplify(U.hd(lsn, rest)))
                self.env[rest_name] = z3.simplify(U.tl(lsn, rest))
                if done_name:
                    self.env[done_name] = U.cons(spec.done_sort, z3.simplify(U.hd(lsn, rest)), self.env[done_name])
        if not enter:
            self.loop_ctx.pop()
            return
        self.oblige('cover/inv+guard', False, 'cover')    # vacuity guard: invariant and guard are satisfiable together
        try:
            self.exec_block(s.body)
        except ContinueSig:
            pass
        except BreakSig:
            self.check_havoc_complete(head_snapshot, targets, ordinal)
            self.loop_ctx.pop()
            return
        # soundness guard of the havoc: a variable the body changed must have been havoced at the head
        self.check_havoc_complete(head_snapshot, targets, ordinal)
        # 4. back edge: ghost code first (it describes the step just taken in terms of the loop state)
        for src in spec.ghost_back:
            self.exec_ghost(src)
        for cl in spec.inv:
            self.oblige('inv:' + cl.name, self.inv_goal(spec, cl), 'invariant-preserved')
        if spec.decreases:
            new = [self.ev_pure(d.node) for d in spec.decreases]
            self.oblige('decreases', self.lex_less(new, measure), 'decreases')
        elif not getattr(spec, 'no_termination', False):
            pass
        self.loop_ctx.pop()
        raise PathEnd('back edge')


# ---------------------------------------------------------------------- builtins
def _b_len(I, args, kwargs, node):
    v = args[0]
    U = I.U
    if isinstance(v, (tuple, list, str)):
        return len(v)
    sn = I.sort_of(v)
    if sn in getattr(U, 'options', {}):
        v = I.coerce(v, U.options[sn])          # len(None) is a TypeError
        sn = I.sort_of(v)
    if sn == 'Str':
        return z3.Length(v)
    if sn in U.lists:
        return I.translator.list_len(sn)(v)
    hook = getattr(U, 'len_hooks', {}).get(sn)
    if hook:
        return hook(I, v)
    raise OutsideSubset('len of %s' % sn)


def _b_min(I, args, kwargs, node):
    a, b = args
    if not (is_z3(a) or is_z3(b)):
        return min(a, b)
    a, b = I.coerce(a, 'Int'), I.coerce(b, 'Int')
    return z3.If(a <= b, a, b)


def _b_max(I, args, kwargs, node):
    a, b = args
    if not (is_z3(a) or is_z3(b)):
        return max(a, b)
    a, b = I.coerce(a, 'Int'), I.coerce(b, 'Int')
    return z3.If(a >= b, a, b)


def _b_reversed(I, args, kwargs, node):
    return GenExp('reversed', arg=args[0])


def _b_copy(I, args, kwargs, node):
    return args[0]          # value semantics: a copy is the same value


def _b_list(I, args, kwargs, node):
    if not args:
        return []
    v = args[0]
    if is_z3(v) and I.sort_of(v) in I.U.lists:
        return v
    if isinstance(v, (list, tuple)):
        return list(v)
    hook = getattr(I.U, 'list_hook', None)
    if hook:
        return hook(I, v)
    raise OutsideSubset('list(%r)' % (v,))


def _b_bool(I, args, kwargs, node):
    return I.to_bool(args[0])


def _b_round(I, args, kwargs, node):
    h = getattr(I.U, 'round_hook', None)
    if h is not None:
        return h(I, args[0])
    raise OutsideSubset('round() outside a declared idiom')


def _b_iter(I, args, kwargs, node):
    return args[0]


def _b_implies(I, args, kwargs, node):
    a, b = I.to_bool(args[0]), I.to_bool(args[1])
    if isinstance(a, bool):
        return b if a else True
    if isinstance(b, bool):
        return True if b else z3.Not(a)
    return z3.Implies(a, b)


def _b_iff(I, args, kwargs, node):
    a, b = I.to_bool(args[0]), I.to_bool(args[1])
    a = z3.BoolVal(a) if isinstance(a, bool) else a
    b = z3.BoolVal(b) if isinstance(b, bool) else b
    return a == b


def _b_abs(I, args, kwargs, node):
    a = args[0]
    return z3.If(a >= 0, a, -a) if is_z3(a) else abs(a)


def _b_rank(I, args, kwargs, node):
    v = args[0]
    sn = I.sort_of(v)
    if sn not in getattr(I.U, 'rank', {}):
        raise OutsideSubset('rank of %s' % sn)
    return I.U.rank[sn](v)


def _b_next(I, args, kwargs, node):
    """next(it) on a list-valued iterator variable: pops the head, StopIteration when exhausted"""
    it = args[0]
    U = I.U
    sn = I.sort_of(it)
    if not (is_z3(it) and sn in U.lists and U.lists[sn].kind == 'fwd'):
        raise OutsideSubset('next() on %r' % (it,))
    if len(args) > 1:
        raise OutsideSubset('next() with a default')
    if not I.choose_bool(U.is_cons(sn, it), '@next:has-item'):
        raise SymRaise('StopIteration', 'iterator exhausted')
    argn = node.args[0]
    if not isinstance(argn, ast.Name):
        raise OutsideSubset('next() on a non-variable')
    I.env[argn.id] = z3.simplify(U.tl(sn, it))
    return z3.simplify(U.hd(sn, it))


def _b_zip(I, args, kwargs, node):
    h = getattr(I.U, 'zip_hook', None)
    if h is None:
        raise OutsideSubset('zip()')
    return h(I, args)


def _b_cycle(I, args, kwargs, node):
    return GenExp('cycle', items=args[0])


def _b_chain(I, args, kwargs, node):
    a, b = args
    U = I.U
    sa = I.sort_of(a)
    if is_z3(a) and sa in U.lists and U.lists[sa].kind == 'snoc' and isinstance(b, list):
        t = a
        for x in b:
            t = U.cons(sa, I.coerce(x, U.lists[sa].elem), t)
        return t
    raise OutsideSubset('chain() shape')


def _b_cons(I, args, kwargs, node):
    """cons(h, t): [h] + t for a forward list (spec functions only)"""
    h, t = args
    sn = I.sort_of(t)
    if isinstance(t, list) and not t:
        raise OutsideSubset('cons onto an untyped empty list: give the tail a sort')
    return I.U.cons(sn, I.coerce(h, I.U.lists[sn].elem), t)


def _b_unwrap(I, args, kwargs, node):
    v = args[0]
    sn = I.sort_of(v)
    return I.coerce(v, I.U.options[sn])


def _b_set(I, args, kwargs, node):
    if not args:
        h = getattr(I.U, 'new_set_hook', None)
        if h:
            return h(I)
        raise OutsideSubset('set()')
    v = args[0]
    if isinstance(v, tuple) and len(v) == 2 and isinstance(v[0], str) and v[0] == 'kwkeys':
        return v
    if isinstance(v, (tuple, list)) and all(isinstance(x, str) for x in v):
        return set(v)
    raise OutsideSubset('set(%r)' % (v,))


def _b_getattr(I, args, kwargs, node):
    if len(args) != 2 or not isinstance(args[1], str):
        raise OutsideSubset('getattr with a non-constant name or a default')
    return I.getattr(args[0], args[1])


def _b_defined(I, args, kwargs, node):
    """defined('x') in ghost code: is the local variable bound on this path? (a Python bool: it selects ghost code per path)"""
    return isinstance(args[0], str) and args[0] in I.env


BUILTINS = {
    'defined': _b_defined,
    'set': _b_set, 'getattr': _b_getattr,
    'cons': _b_cons, 'unwrap': _b_unwrap,
    'rank': _b_rank, 'next': _b_next, 'zip': _b_zip, 'cycle': _b_cycle, 'chain': _b_chain,
    'len': _b_len, 'min': _b_min, 'max': _b_max, 'reversed': _b_reversed, 'copy': _b_copy,
    'list': _b_list, 'bool': _b_bool, 'round': _b_round, 'iter': _b_iter,
    'implies': _b_implies, 'iff': _b_iff, 'abs': _b_abs,
}
