"""Sorts of the verification universe.

A Universe holds the z3 sorts a family of contracts talks about:
  * primitive sorts Int, Bool, Str (z3 String), and uninterpreted sorts
  * enumerations (finite codes such as BREAK_MODE / FLAT_MODE)
  * algebraic datatypes, possibly mutually recursive (one constructor per Python class)
  * list sorts, declared with the *direction the code uses them in*:
        'fwd'   cons-list walked head first        xs[0], xs[1:], for x in xs
        'stack' cons-list whose head is the *last* Python element   xs.pop(), xs.append(x), xs[-1]
        'snoc'  append-only list                   xs.append(x), xs + [x]
  * records (Python tuples / namedtuples with a fixed shape)

and the mapping from Python names used in the real source to these sorts:
  classmap   Python class name  -> (datatype, constructor)    isinstance / constructor calls
  consts     Python global name -> z3 term                    NIL, HARDLINE, FLAT_MODE ...
"""
import z3


class ListInfo:
    def __init__(self, name, elem, kind):
        self.name, self.elem, self.kind = name, elem, kind  # elem: sort name


class Universe:
    def __init__(self, name):
        self.name = name
        self.sorts = {'Int': z3.IntSort(), 'Bool': z3.BoolSort(), 'Str': z3.StringSort()}
        self.datatypes = {}      # name -> z3 datatype sort
        self.ctors = {}          # (dtname, ctorname) -> (ctor decl, recognizer, [accessor decls], [field names])
        self.fields = {}         # dtname -> {fieldname: [(ctorname, accessor)]}
        self.lists = {}          # sort name -> ListInfo
        self.records = {}        # sort name -> [field names]
        self.enums = {}          # sort name -> {member name: const}
        self.classmap = {}       # python class name -> (dtname, ctorname)
        self.consts = {}         # python global name -> z3 term
        self.sort_by_z3 = {}     # z3 sort name -> our sort name
        self.decl_spec = {}      # what was declared, for the source cross-check

    # -- declaration -------------------------------------------------------------------
    def uninterpreted(self, name):
        s = z3.DeclareSort(name)
        self.sorts[name] = s
        return s

    def enum(self, name, members):
        s, consts = z3.EnumSort(name, members)
        self.sorts[name] = s
        self.enums[name] = dict(zip(members, consts))
        return s

    def declare(self, spec):
        """spec: {dtname: ('data', [(ctor, [(field, sortname)])])
                        | ('list', elem_sortname, kind)
                        | ('record', [(field, sortname)])}
        All declared together (mutual recursion allowed)."""
        dts = {n: z3.Datatype(n) for n in spec}

        def ref(sn):
            return dts[sn] if sn in dts else self.sorts[sn]
        for n, d in spec.items():
            if d[0] == 'data':
                for cname, flds in d[1]:
                    dts[n].declare(cname, *[(n + '_' + cname + '_' + f, ref(s)) for f, s in flds])
            elif d[0] == 'list':
                dts[n].declare(n + '_nil')
                dts[n].declare(n + '_cons', (n + '_hd', ref(d[1])), (n + '_tl', dts[n]))
            elif d[0] == 'record':
                dts[n].declare(n + '_mk', *[(n + '_' + f, ref(s)) for f, s in d[1]])
        created = z3.CreateDatatypes(*[dts[n] for n in spec])
        if not hasattr(self, 'rank'):
            self.rank = {}
        for (n, d), s in zip(spec.items(), created):
            self.sorts[n] = s
            # rank: an (uninterpreted) well-founded measure on the terms of the datatype; exists because
            # datatype values are finite trees.  Axioms (added on demand): rank >= 0, rank(field) < rank(term).
            self.rank[n] = z3.Function('rank_' + n, s, z3.IntSort())
            self.datatypes[n] = s
            self.decl_spec[n] = d
            if d[0] == 'data':
                self.fields[n] = {}
                for i, (cname, flds) in enumerate(d[1]):
                    accs = [s.accessor(i, j) for j in range(len(flds))]
                    self.ctors[(n, cname)] = (s.constructor(i), s.recognizer(i), accs, [f for f, _ in flds])
                    for (f, _), a in zip(flds, accs):
                        self.fields[n].setdefault(f, []).append((cname, a))
            elif d[0] == 'list':
                self.lists[n] = ListInfo(n, d[1], d[2])
            elif d[0] == 'record':
                self.records[n] = [f for f, _ in d[1]]
        return created

    # -- helpers -----------------------------------------------------------------------
    def sort(self, name):
        return self.sorts[name]

    def sort_name(self, z3sort):
        for n, s in self.sorts.items():
            if s == z3sort:
                return n
        return None

    def ctor(self, dt, c):
        return self.ctors[(dt, c)][0]

    def is_(self, dt, c, term):
        return self.ctors[(dt, c)][1](term)

    def acc(self, dt, c, field):
        ct, rec, accs, names = self.ctors[(dt, c)]
        return accs[names.index(field)]

    # lists
    def nil(self, ln):
        return self.sorts[ln].constructor(0)()

    def cons(self, ln, h, t):
        return self.sorts[ln].constructor(1)(h, t)

    def is_nil(self, ln, t):
        return self.sorts[ln].recognizer(0)(t)

    def is_cons(self, ln, t):
        return self.sorts[ln].recognizer(1)(t)

    def hd(self, ln, t):
        return self.sorts[ln].accessor(1, 0)(t)

    def tl(self, ln, t):
        return self.sorts[ln].accessor(1, 1)(t)

    # records
    def mk(self, rn, *args):
        return self.sorts[rn].constructor(0)(*args)

    def rget(self, rn, field, t):
        return self.sorts[rn].accessor(0, self.records[rn].index(field))(t)
