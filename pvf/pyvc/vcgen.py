"""Driver: paths -> obligations -> saturation (fuel unfolding + lemma instances) -> z3 / cvc5."""
import ast
import hashlib
import os
import subprocess
import tempfile
import time
import z3

from .interp import (Interp, OutsideSubset, PathEnd, ReturnSig, BreakSig, ContinueSig, SymRaise,
                     Obligation, FuncVal, is_z3, exc_subclass)
from .contract import FnContract, SpecFn, Lemma


class Result:
    def __init__(self, name, function, kind, status, solver='', ms=0, model=None, reason='', lineno=0,
                 size=0, inputs=None, serves=()):
        self.name, self.function, self.kind, self.status = name, function, kind, status
        self.solver, self.ms, self.model, self.reason, self.lineno = solver, ms, model, reason, lineno
        self.size = size
        self.inputs = inputs
        self.serves = list(serves)

    def to_json(self):
        return dict(name=self.name, function=self.function, kind=self.kind, status=self.status,
                    solver=self.solver, ms=round(self.ms, 1), reason=self.reason, lineno=self.lineno,
                    size=self.size, model=self.model, serves=self.serves)


def subterms(exprs):
    seen = {}
    stack = list(exprs)
    while stack:
        e = stack.pop()
        k = e.get_id()
        if k in seen:
            continue
        seen[k] = e
        if z3.is_app(e):
            stack.extend(e.children())
        elif z3.is_quantifier(e):
            stack.append(e.body())
    return seen


class Translator:
    def __init__(self, cset, fuel=2):
        self.cset = cset
        self.U = cset.U
        self.fuel = fuel
        self._decls = {}
        self._bodies = {}
        self._len = {}
        self._builtin = {}
        self._lemma_z3 = {}
        self.spec_by_decl = {}
        self.translating = set()

    # ---- declarations
    def decl_of(self, spec):
        d = self._decls.get(spec.name)
        if d is None:
            sorts = [self.U.sort(s) for _, s in spec.args] + [self.U.sort(spec.ret)]
            d = z3.Function(spec.name, *sorts)
            self._decls[spec.name] = d
            self.spec_by_decl[d.name()] = spec
        return d

    def body_of(self, spec):
        """(params, body term) of a spec function, translated from its Python source on demand."""
        b = self._bodies.get(spec.name)
        if b is None:
            if spec.opaque:
                self._bodies[spec.name] = b = (None, None)
                return b
            I = Interp(self.cset, pure=True)
            I.translator = self
            params = [z3.Const('p_%s_%s' % (spec.name, n), self.U.sort(s)) for n, s in spec.args]
            I.env = {n: p for (n, _), p in zip(spec.args, params)}
            I.name_prefix = 'spec:' + spec.name
            body = I.pure_block(list(spec.node.body))
            body = I.coerce(body, spec.ret)
            b = (params, body)
            self._bodies[spec.name] = b
        return b

    def list_len(self, sn):
        d = self._len.get(sn)
        if d is None:
            d = z3.Function('len_' + sn, self.U.sort(sn), z3.IntSort())
            self._len[sn] = d
        return d

    def builtin_fn(self, name, argsorts, ret):
        d = self._builtin.get(name)
        if d is None:
            d = z3.Function(name, *[self.U.sort(s) for s in argsorts], self.U.sort(ret))
            self._builtin[name] = d
        return d

    def lemma_z3(self, lem):
        r = self._lemma_z3.get(lem.name)
        if r is None:
            I = Interp(self.cset, pure=True)
            I.translator = self
            vs = [z3.Const('L_%s_%s' % (lem.name, n), self.U.sort(s)) for n, s in lem.forall]
            I.env = {n: v for (n, _), v in zip(lem.forall, vs)}
            reqs = [I.to_bool(I.ev(c.node)) for c in lem.requires]
            ens = [I.to_bool(I.ev(c.node)) for c in lem.ensures]
            trig = [I.ev(t) for t in lem.triggers]
            reqs = [z3.BoolVal(x) if isinstance(x, bool) else x for x in reqs]
            ens = [z3.BoolVal(x) if isinstance(x, bool) else x for x in ens]
            body = z3.Implies(z3.And(*reqs), z3.And(*ens)) if reqs else z3.And(*ens)
            r = (vs, body, trig)
            self._lemma_z3[lem.name] = r
        return r

    # ---- saturation
    def match(self, pat, term, vars_ids, binding):
        if pat.get_id() in vars_ids:
            k = pat.get_id()
            if k in binding:
                return binding[k].eq(term)
            if pat.sort() != term.sort():
                return False
            binding[k] = term
            return True
        if not (z3.is_app(pat) and z3.is_app(term)):
            return pat.eq(term)
        if not pat.decl().eq(term.decl()) or pat.num_args() != term.num_args():
            return False
        for p, t in zip(pat.children(), term.children()):
            if not self.match(p, t, vars_ids, binding):
                return False
        return True

    def auto_triggers(self, vs, body):
        ids = {v.get_id() for v in vs}
        cands = []
        for t in subterms([body]).values():
            if z3.is_app(t) and t.decl().kind() == z3.Z3_OP_UNINTERPRETED and t.num_args() > 0:
                free = {x.get_id() for x in subterms([t]).values() if x.get_id() in ids}
                if free == ids:
                    cands.append(t)
        # prefer minimal terms
        cands.sort(key=lambda t: len(subterms([t])))
        return cands[:3]

    def rec_index(self, spec):
        """index of the parameter a spec function recurses on (first list / non-record datatype parameter)"""
        r = getattr(spec, '_rec', None)
        if r is None:
            r = -1
            for i, (_, sn) in enumerate(spec.args):
                if sn in self.U.lists or (sn in self.U.datatypes and sn not in self.U.records):
                    r = i
                    break
            spec._rec = r
        return r

    def saturate(self, formulas, fuel, lemmas, local_lemmas, max_instances=1500, known=None):
        """Ground facts implied by the definitions of the spec functions and by proved lemmas.

        Every application term has a level.  Terms of the VC have level 0.  Unfolding an application whose
        recursion argument is constructor-headed ("collapsing": the definition reduces to one case) is free:
        the terms of its instance keep the level.  Unfolding on an opaque argument costs one level; only
        applications of level < fuel are unfolded that way.  Lemma instances keep the level of the trigger."""
        facts = []
        level = {}
        done = set()
        instantiated = set()
        known = known or {}

        def headed(x):
            """x with its top constructor made explicit, when the path condition determines it"""
            if z3.is_app_of(x, z3.Z3_OP_DT_CONSTRUCTOR):
                return x, None
            S = x.sort()
            if isinstance(S, z3.DatatypeSortRef) and S.num_constructors() == 1:
                c = S.constructor(0)
                return (c(*[S.accessor(0, j)(x) for j in range(c.arity())]) if c.arity() else c()), None
            ci = known.get(x.get_id())
            if ci is not None:
                c = S.constructor(ci)
                return (c(*[S.accessor(ci, j)(x) for j in range(c.arity())]) if c.arity() else c()), S.recognizer(ci)(x)
            return None, None
        lemma_specs = []
        for lem in lemmas:
            vs, body, trig = self.lemma_z3(lem)
            lemma_specs.append((lem.name, vs, body, trig))
        for i, (vs, body, trig) in enumerate(local_lemmas):
            lemma_specs.append(('local%d' % i, vs, body, trig or self.auto_triggers(vs, body)))
        rank_decls = {d.name(): (sn, d) for sn, d in getattr(self.U, 'rank', {}).items()}
        len_decls = {d.name(): (sn, d) for sn, d in self._len.items()}

        def note(forms, lv):
            fresh = []
            for t in subterms(forms).values():
                k = t.get_id()
                if k not in level or level[k] > lv:
                    if k not in level or k not in done:
                        fresh.append(t)
                    level[k] = lv
            return fresh

        frontier = note(formulas, 0)
        has_rank = False
        count = 0
        lemma_by_decl = {}
        for spec_ in lemma_specs:
            (lname, vs, body, trigs) = spec_
            ids = {v.get_id() for v in vs}
            for pat in trigs:
                lemma_by_decl.setdefault(pat.decl().get_id(), []).append((lname, vs, body, pat, ids))
        for rnd in range(40):
            if not frontier or count > max_instances:
                break
            new_batches = []      # (formulas, level)
            info = []
            for t in frontier:
                if not z3.is_app(t):
                    continue
                d = t.decl()
                info.append((t, t.get_id(), d, d.kind(), d.get_id()))
            if not has_rank:
                has_rank = any(kind == z3.Z3_OP_UNINTERPRETED and d.name() in rank_decls for (t, k, d, kind, did) in info)
            for (t, k, d, kind, did) in info:
                lv = level[k]
                if kind == z3.Z3_OP_DT_ACCESSOR:
                    if not has_rank:
                        continue
                    y = t.arg(0)
                    sy, st = self.U.sort_name(y.sort()), self.U.sort_name(t.sort())
                    if sy in self.U.rank and st in self.U.rank:
                        S = y.sort()
                        for ci in range(S.num_constructors()):
                            for j in range(S.constructor(ci).arity()):
                                if S.accessor(ci, j).eq(d):
                                    new_batches.append(([z3.Implies(S.recognizer(ci)(y), self.U.rank[st](t) < self.U.rank[sy](y))], lv))
                    continue
                if kind != z3.Z3_OP_UNINTERPRETED or t.num_args() == 0:
                    continue
                if k not in done:
                    nm = d.name()
                    if nm in rank_decls and d.eq(rank_decls[nm][1]):
                        done.add(k)
                        new_batches.append(([t >= 0], lv))
                    elif nm in len_decls and d.eq(len_decls[nm][1]):
                        sn, ld = len_decls[nm]
                        x = t.arg(0)
                        hx, guard = headed(x)
                        collapsing = hx is not None
                        done.add(k)
                        new_batches.append(([t >= 0], lv))
                        if collapsing or lv < fuel:
                            xx = hx if collapsing else x
                            eq = t == z3.simplify(z3.If(self.U.is_nil(sn, xx), 0, 1 + ld(self.U.tl(sn, xx))))
                            new_batches.append(([z3.Implies(guard, eq) if guard is not None else eq],
                                                lv if collapsing else lv + 1))
                    else:
                        spec = self.spec_by_decl.get(nm)
                        if spec is not None and self._decls.get(nm) is not None and d.eq(self._decls[nm]):
                            params, body = self.body_of(spec)
                            if params is None:
                                done.add(k)
                            else:
                                ri = self.rec_index(spec)
                                args = t.children()
                                guard = None
                                collapsing = False
                                if ri >= 0:
                                    hx, guard = headed(args[ri])
                                    if hx is not None:
                                        collapsing = True
                                        args[ri] = hx
                                if collapsing or lv < fuel:
                                    done.add(k)
                                    inst = z3.simplify(z3.substitute(body, *zip(params, args)))
                                    eq = t == inst
                                    new_batches.append(([z3.Implies(guard, eq) if guard is not None else eq],
                                                        lv if collapsing else lv + 1))
                                    count += 1
                # lemma instances by trigger matching
                for (lname, vs, body, pat, ids) in lemma_by_decl.get(did, ()):
                    b = {}
                    if self.match(pat, t, ids, b) and len(b) == len(ids):
                        key = (lname,) + tuple(b[v.get_id()].get_id() for v in vs)
                        if key in instantiated:
                            continue
                        instantiated.add(key)
                        new_batches.append(([z3.substitute(body, *[(v, b[v.get_id()]) for v in vs])], lv))
                        count += 1
            frontier = []
            for forms, lv in new_batches:
                facts.extend(forms)
                frontier.extend(note(forms, lv))
            # applications that were too deep may have become cheaper (level dropped): revisit them
            # (note() only returns unseen terms; a dropped level matters only for not-yet-unfolded apps)
        return facts

    def known_ctors(self, forms):
        """{term id: constructor index} for terms whose top constructor the path condition fixes"""
        known = {}
        for f in forms:
            stack = [f]
            while stack:
                g = stack.pop()
                if z3.is_and(g):
                    stack.extend(g.children())
                    continue
                neg = False
                if z3.is_not(g):
                    neg = True
                    g = g.arg(0)
                if z3.is_eq(g) and not neg:
                    # t == C  for a nullary constructor C (doc is NIL)
                    a, b = g.arg(0), g.arg(1)
                    for x, y in ((a, b), (b, a)):
                        if z3.is_app_of(y, z3.Z3_OP_DT_CONSTRUCTOR) and y.num_args() == 0 and not z3.is_app_of(x, z3.Z3_OP_DT_CONSTRUCTOR):
                            S = x.sort()
                            for ci in range(S.num_constructors()):
                                if S.constructor(ci).eq(y.decl()):
                                    known[x.get_id()] = ci
                    continue
                if z3.is_app(g) and g.decl().kind() == z3.Z3_OP_DT_IS:
                    t = g.arg(0)
                    if z3.is_app_of(t, z3.Z3_OP_DT_CONSTRUCTOR):
                        continue
                    S = t.sort()
                    for ci in range(S.num_constructors()):
                        if S.recognizer(ci).eq(g.decl()):
                            if not neg:
                                known[t.get_id()] = ci
                            elif S.num_constructors() == 2:
                                known[t.get_id()] = 1 - ci
        return known

    def opaque_tables(self, m):
        out = {}
        for name, spec in self.cset.specs.items():
            if not spec.opaque or name not in self._decls:
                continue
            try:
                fi = m[self._decls[name]]
                if fi is None:
                    continue
                ent = []
                for i in range(fi.num_entries()):
                    e = fi.entry(i)
                    ent.append([[term_to_py(e.arg_value(j)) for j in range(e.num_args())], term_to_py(e.value())])
                out[name] = dict(entries=ent, default=term_to_py(fi.else_value()))
            except Exception:      # noqa
                pass
        return out

    def refine_known_ctors(self, forms):
        """pc says is_C(t): rewrite t to C(acc_1(t), ...) so that definitional unfolding collapses."""
        U = self.U
        keep = {}
        for _ in range(3):
            recog = {}
            for f in forms:
                stack = [f]
                while stack:
                    g = stack.pop()
                    if z3.is_and(g):
                        stack.extend(g.children())
                        continue
                    if z3.is_app(g) and g.decl().kind() == z3.Z3_OP_DT_IS and not z3.is_app_of(g.arg(0), z3.Z3_OP_DT_CONSTRUCTOR):
                        recog[g.arg(0).get_id()] = (g.arg(0), g.decl())
                        keep[g.get_id()] = g
                    elif z3.is_not(g) and z3.is_app(g.arg(0)) and g.arg(0).decl().kind() == z3.Z3_OP_DT_IS:
                        # not is_A(t) on a two-constructor datatype means is_B(t)
                        h = g.arg(0)
                        t = h.arg(0)
                        S = t.sort()
                        if S.num_constructors() == 2 and not z3.is_app_of(t, z3.Z3_OP_DT_CONSTRUCTOR):
                            other = 1 if S.recognizer(0).eq(h.decl()) else 0
                            recog[t.get_id()] = (t, S.recognizer(other))
                            keep[g.get_id()] = g
            if not recog:
                break
            subs = []
            for t, isd in recog.values():
                s = t.sort()
                for i in range(s.num_constructors()):
                    if s.recognizer(i).eq(isd):
                        c = s.constructor(i)
                        args = [s.accessor(i, j)(t) for j in range(c.arity())]
                        subs.append((t, c(*args) if args else c()))
            if not subs:
                break
            new = [z3.simplify(z3.substitute(f, *subs)) for f in forms]
            if all(a.eq(b) for a, b in zip(new, forms)):
                break
            forms = new
        return forms + list(keep.values())

    # ---- solving
    def prepare(self, ob, lemmas, fuel=None):
        fuel = self.fuel if fuel is None else fuel
        forms = [z3.simplify(p) for p in ob.pc] + [z3.simplify(z3.Not(ob.goal))]
        known = self.known_ctors(forms)
        facts = self.saturate(forms, fuel, lemmas, ob.local_lemmas, known=known)
        return forms + facts

    def to_cvc5_text(self, s):
        import re as _re
        smt = s.to_smt2()
        sorts = _re.findall(r'^\(declare-sort [^\n]*\)\s*$', smt, flags=_re.M)
        smt = _re.sub(r'^\(declare-sort [^\n]*\)\s*$', '', smt, flags=_re.M)   # z3 prints them after the datatypes
        return '\n'.join(x.strip() for x in sorts) + '\n' + smt

    def solve(self, ob, lemmas, timeout_ms=10000, fuel=None, use_cvc5=True, cross=False):
        t0 = time.time()
        forms = self.prepare(ob, lemmas, fuel)
        s = z3.Solver()
        s.set('timeout', timeout_ms)
        for f in forms:
            s.add(f)
        size = sum(len(subterms([f])) for f in forms[:50])
        r = s.check()
        ms = (time.time() - t0) * 1000
        if r == z3.unsat:
            if cross:
                # thorough tier: the same query (after saturation: quantifier-free) goes to an independent back end; `sat`
                # there is a disagreement between the solvers and makes the obligation undecided, never discharged
                st, why = run_cvc5(self.to_cvc5_text(s), 8000)
                ms = (time.time() - t0) * 1000
                if st == 'sat':
                    return 'undecided', 'z3/cvc5', ms, None, 'back ends disagree: z3 unsat, cvc5 sat', size
                return 'discharged', ('z3+cvc5' if st == 'unsat' else 'z3'), ms, None, '', size
            return 'discharged', 'z3', ms, None, '', size
        if r == z3.sat:
            m = s.model()
            model = {'@funcs': self.opaque_tables(m), '@consts': {n: term_to_py(m.eval(c, model_completion=True))
                                                                 for n, c in self.U.consts.items()
                                                                 if z3.is_const(c) and c.decl().kind() == z3.Z3_OP_UNINTERPRETED}}
            for k, v in ob.inputs.items():
                try:
                    model[k] = model_value(m, v)
                except Exception as e:      # noqa
                    model[k] = '<%s>' % e
            return 'refuted', 'z3', ms, model, '', size
        reason = s.reason_unknown()
        if use_cvc5:
            import re as _re
            smt = s.to_smt2()
            sorts = _re.findall(r'^\(declare-sort [^\n]*\)\s*$', smt, flags=_re.M)
            smt = _re.sub(r'^\(declare-sort [^\n]*\)\s*$', '', smt, flags=_re.M)   # z3 prints them after the datatypes
            st, why = run_cvc5('\n'.join(x.strip() for x in sorts) + '\n' + smt, timeout_ms * 3)
            ms = (time.time() - t0) * 1000
            if st == 'unsat':
                return 'discharged', 'cvc5', ms, None, '', size
            if st == 'sat':
                return 'refuted', 'cvc5', ms, None, 'cvc5 sat (no model extraction)', size
            reason += '; cvc5: ' + why
        return 'undecided', 'z3', ms, None, reason, size


def model_value(m, v):
    if isinstance(v, dict):
        return {k: model_value(m, x) for k, x in v.items()}
    if isinstance(v, tuple):
        return [model_value(m, x) for x in v]
    if is_z3(v):
        return term_to_py(m.eval(v, model_completion=True))
    return v


def term_to_py(t):
    if z3.is_int_value(t):
        return t.as_long()
    if z3.is_true(t):
        return True
    if z3.is_false(t):
        return False
    if z3.is_string_value(t):
        return t.as_string()
    if z3.is_app(t) and t.decl().kind() == z3.Z3_OP_DT_CONSTRUCTOR:
        return [t.decl().name()] + [term_to_py(c) for c in t.children()]
    return {'term': t.sexpr()[:200]}


def run_cvc5(smt2, timeout_ms):
    exe = '/usr/bin/cvc5'
    if not os.path.exists(exe):
        return 'unknown', 'cvc5 not installed'
    with tempfile.NamedTemporaryFile('w', suffix='.smt2', delete=False, dir='/var/tmp') as f:
        f.write('(set-logic ALL)\n' + smt2)
        path = f.name
    try:
        p = subprocess.run([exe, '--strings-exp', '--tlimit=%d' % timeout_ms, path], capture_output=True,
                           text=True, timeout=timeout_ms / 1000 + 10)
        out = p.stdout.strip().splitlines()
        st = out[0] if out else 'unknown'
        return (st if st in ('sat', 'unsat') else 'unknown'), (p.stderr.strip()[:200] or st)
    except subprocess.TimeoutExpired:
        return 'unknown', 'cvc5 timeout'
    finally:
        os.unlink(path)


# ---------------------------------------------------------------------------------------------
class FunctionVerifier:
    """All paths of one real function against its contract."""

    def __init__(self, cset, contract, fnnode, translator, extern=None, max_paths=4000):
        self.cset, self.c, self.node, self.tr = cset, contract, fnnode, translator
        self.extern = extern or {}
        self.max_paths = max_paths
        self.paths = 0
        self.outside = None

    def run_path(self, script):
        c = self.c
        U = self.cset.U
        I = Interp(self.cset, script=script, feas_timeout=getattr(c, 'feas_timeout', 2000))
        I.translator = self.tr
        I.fn_contract = c
        I.extern = self.extern
        I.module_consts = getattr(self, 'module_consts', None)
        I.module_defs = getattr(self, 'module_defs', None)
        I.name_prefix = c.qualname
        # parameters
        argnames = [a.arg for a in self.node.args.posonlyargs + self.node.args.args + self.node.args.kwonlyargs]
        packs = getattr(c, 'packs', None) or {}        # {'args': sort, 'kwargs': sort}: opaque argument packs (forwarding shims)
        if self.node.args.vararg is not None:
            vn = self.node.args.vararg.arg
            if vn not in packs:
                raise OutsideSubset('*%s without a declared pack sort' % vn)
            I.env[vn] = I.fresh(packs[vn], vn)
        if self.node.args.kwarg is not None and self.node.args.kwarg.arg in packs:
            kwname = self.node.args.kwarg.arg
            I.env[kwname] = I.fresh(packs[kwname], kwname)
        elif self.node.args.kwarg is not None:
            kwname = self.node.args.kwarg.arg
            if getattr(c, 'kwparam', None) != kwname:
                raise OutsideSubset('**%s without a declared keyword universe' % kwname)
            from .interp import KwMap
            I.env[kwname] = KwMap({f: (I.fresh('Bool', 'has_' + f), I.fresh(sn, 'kw_' + f)) for f, sn in c.kw_universe.items()})
        for a in argnames:
            if a not in c.params:
                raise OutsideSubset('parameter %s of %s has no declared sort' % (a, c.qualname))
        for a in argnames:
            if a == getattr(c, 'kwparam', None):
                continue
            sn = c.params[a]
            if sn in c.fnparams.values() or a in c.fnparams:
                fv = FuncVal('fnparam', a, self.cset.protos[c.fnparams[a]])
                I.env[a] = fv
            else:
                I.env[a] = I.fresh(sn, a)
        for n, s in c.forall.items():
            I.env[n] = I.fresh(s, n)
        for g, gs in (getattr(c, 'globals_', None) or {}).items():
            I.env[g] = I.fresh(gs, g)            # module-level state: an arbitrary value at entry
        for g, (gs, init) in c.ghost.items():
            I.env[g] = I.coerce(I.ev_pure(ast.parse(init, mode='eval').body), gs)
        I.old_env = dict(I.env)
        I.param_alias = set(argnames)
        I.argnames = list(argnames)
        I.inputs = {a: I.env[a] for a in argnames if is_z3(I.env[a])}
        I.inputs.update({g: I.env[g] for g in (getattr(c, 'globals_', None) or {}) if is_z3(I.env[g])})
        if c.yields:
            I.out_sort = c.yields
            I.out = U.nil(c.yields)
            I.env['__out__'] = I.out
        for cl in c.requires:
            I.assume(I.to_bool(I.ev_pure(cl.node)))
            n = cl.node
            # `isinstance(param, C)` in a precondition: make the constructor explicit
            if isinstance(n, ast.Call) and isinstance(n.func, ast.Name) and n.func.id == 'isinstance' and len(n.args) == 2 \
                    and isinstance(n.args[0], ast.Name) and isinstance(n.args[1], ast.Name):
                key = I.U.classmap.get(n.args[1].id)
                v = I.env.get(n.args[0].id)
                if key and key in I.U.ctors and is_z3(v) and I.sort_of(v) == key[0]:
                    I.refine(n.args[0].id, key[0], key[1])
                    I.old_env[n.args[0].id] = I.env[n.args[0].id]
        I.oblige('cover/requires', False, 'cover')       # vacuity guard: the precondition must be satisfiable
        if c.decreases:
            I.entry_measure = [I.ev_pure(d.node) for d in c.decreases]
        outcome = None
        try:
            try:
                I.exec_block(self.node.body)
                outcome = ('return', None)
            except ReturnSig as r:
                outcome = ('return', r.value)
        except SymRaise as e:
            outcome = ('raise', e)
        except PathEnd:
            outcome = None
        except (BreakSig, ContinueSig):
            raise OutsideSubset('break/continue outside loop')
        if outcome is not None:
            I.loop_ctx = []
            try:
                if outcome[0] == 'return':
                    self.check_post(I, outcome[1])
                else:
                    self.check_raise(I, outcome[1])
            except PathEnd:
                pass        # the exit ghost code found the path infeasible
        return I

    def check_frame(self, I):
        """module-level state outside `modifies` is left as it was"""
        c = self.c
        for g in (getattr(c, 'globals_', None) or {}):
            if g in c.modifies:
                continue
            now, was = I.env.get(g), I.old_env.get(g)
            if is_z3(now) and is_z3(was) and not now.eq(was):
                I.oblige('frame(global %s is unchanged)' % g, now == was, 'frame')

    def check_post(self, I, value):
        c = self.c
        self.check_frame(I)
        env = dict(I.old_env)
        for m in c.modifies:
            env[m] = I.env[m]
        for g in c.ghost:
            env[g] = I.env[g]
        for n in c.forall:
            env[n] = I.env[n]
        if c.yields:
            env['result'] = I.out
        elif c.returns:
            try:
                env['result'] = I.coerce(value, c.returns)
            except OutsideSubset:
                I.env = env
                I.oblige('return/type', False, 'postcondition')
                return
        # ghost code at the exit (lemma calls that the postconditions need): runs in the final environment of the path,
        # locals included, with `result` bound; it can only add obligations (lemma preconditions) and proved facts
        for src in getattr(c, 'ghost_exit', None) or []:
            saved_full = I.env
            I.env = dict(I.env)
            if 'result' in env:
                I.env['result'] = env['result']
            try:
                I.exec_ghost(src)
            finally:
                I.env = saved_full
        saved = I.env
        I.env = env
        for cl in c.ensures:
            I.oblige('return/post:' + cl.name, I.to_bool(I.ev_pure(cl.node)), 'postcondition')
        I.env = saved

    def check_raise(self, I, e):
        c = self.c
        self.check_frame(I)
        allowed = False
        if e.term is not None and getattr(c, 'raises_sym', None) is not None:
            env = dict(I.old_env)
            for m in c.modifies:
                env[m] = I.env.get(m, env.get(m))
            for g in c.ghost:
                env[g] = I.env[g]
            env['exc'] = e.term
            saved = I.env
            I.env = env
            g_ = I.to_bool(I.ev_pure(ast.parse(c.raises_sym, mode='eval').body))
            I.env = saved
            I.oblige('raise:escaping/allowed', g_, 'raise-path')
            allowed = True
        if c.raises:
            for exc, guard in c.raises.items():
                if exc_subclass(e.cls, exc):
                    env = dict(I.old_env)
                    saved = I.env
                    I.env = env
                    g = I.to_bool(I.ev_pure(ast.parse(guard, mode='eval').body))
                    I.env = saved
                    I.oblige('raise:%s/allowed' % e.cls, g, 'raise-path')
                    allowed = True
                    break
        if not allowed:
            I.oblige('raise:%s/unreachable(%s)' % (e.cls, e.why[:50]), False, 'raise-path')
        env = dict(I.old_env)
        for m in c.modifies:
            env[m] = I.env.get(m, env.get(m))
        for g in c.ghost:
            env[g] = I.env[g]
        saved = I.env
        I.env = env
        for cl in c.ensures_raise:
            I.oblige('raise:%s/post:%s' % (e.cls, cl.name), I.to_bool(I.ev_pure(cl.node)), 'postcondition')
        I.env = saved

    def obligations(self):
        work = [[]]
        obs = []
        seen = set()
        names = {}
        while work:
            script = work.pop()
            self.paths += 1
            if self.paths > self.max_paths:
                raise OutsideSubset('more than %d paths in %s' % (self.max_paths, self.c.qualname))
            I = self.run_path(script)
            work.extend(I.pending)
            for ob in I.obligations:
                key = hashlib.sha1((ob.name + '|' + '|'.join(p.sexpr() for p in ob.pc) + '|' + ob.goal.sexpr()).encode()).hexdigest()
                if key in seen:
                    continue
                seen.add(key)
                n = names.get(ob.name, 0) + 1
                names[ob.name] = n
                if n > 1:
                    ob.name = '%s#%d' % (ob.name, n)
                ob.function = self.c.qualname
                obs.append(ob)
        return obs


class LemmaVerifier:
    def __init__(self, cset, lemma, translator):
        self.cset, self.lem, self.tr = cset, lemma, translator
        self.paths = 0

    def obligations(self):
        lem = self.lem
        work = [[]]
        obs = []
        seen = set()
        names = {}
        while work:
            script = work.pop()
            self.paths += 1
            I = Interp(self.cset, script=script)
            I.translator = self.tr
            I.name_prefix = 'lemma:' + lem.name
            I.current_lemma_index = lem.index
            for n, s in lem.forall:
                I.env[n] = I.fresh(s, n)
            I.old_env = dict(I.env)
            I.inputs = dict(I.env)
            for cl in lem.requires:
                I.assume(I.to_bool(I.ev_pure(cl.node)))
            I.entry_measure = [I.ev_pure(d.node) for d in lem.decreases]
            done = False
            try:
                try:
                    I.exec_block(lem.node.body)
                    done = True
                except ReturnSig:
                    done = True
            except PathEnd:
                pass
            except SymRaise as e:
                I.oblige('raise:%s/unreachable' % e.cls, False, 'raise-path')
            if done:
                saved = I.env
                I.env = dict(I.old_env)
                for cl in lem.ensures:
                    I.oblige('ensures:' + cl.name, I.to_bool(I.ev_pure(cl.node)), 'lemma')
                I.env = saved
            work.extend(I.pending)
            for ob in I.obligations:
                key = hashlib.sha1((ob.name + '|' + '|'.join(p.sexpr() for p in ob.pc) + '|' + ob.goal.sexpr()).encode()).hexdigest()
                if key in seen:
                    continue
                seen.add(key)
                n = names.get(ob.name, 0) + 1
                names[ob.name] = n
                if n > 1:
                    ob.name = '%s#%d' % (ob.name, n)
                ob.function = 'lemma:' + lem.name
                obs.append(ob)
        return obs
