"""Verify a contract family against the current source of /repo.

    python -m pvf.pyvc.run layout [--only NAME] [--fuel N] [--timeout MS] [-j N] [-v]
"""
import argparse
import ast
import hashlib
import importlib
import json
import multiprocessing
import os
import sys
import time
import traceback

from pvf import REPO
from .interp import OutsideSubset
from .vcgen import Translator, FunctionVerifier, LemmaVerifier, Result

FAMILIES = {
    'layout': 'pvf.contracts.layout',
    'runpretty': 'pvf.contracts.runpretty',
    'strings': 'pvf.contracts.strings',
    'normalize': 'pvf.contracts.layout_norm',
    'context': 'pvf.contracts.context',
    'config': 'pvf.contracts.config',
    'registry': 'pvf.contracts.registry',
    'render': 'pvf.contracts.render',
    'printers': 'pvf.contracts.printers',
}


def load_family(name):
    mod = importlib.import_module(FAMILIES.get(name, name))
    return mod.C


def source_path(module):
    return os.path.join(REPO, *module.split('.')) + '.py'


_SRC_CACHE = {}


def module_ast(module):
    p = source_path(module)
    if p not in _SRC_CACHE:
        with open(p) as f:
            src = f.read()
        _SRC_CACHE[p] = (src, ast.parse(src))
    return _SRC_CACHE[p]


def module_constants(module):
    """{NAME: value} for module-level `NAME = <int | str | bool literal>` assigned exactly once in the module and never rebound
    through `global` (thresholds and the like that a function refers to by name)"""
    src, tree = module_ast(module)
    count, vals = {}, {}
    for n in ast.walk(tree):
        if isinstance(n, ast.Global):
            for g in n.names:
                count[g] = count.get(g, 0) + 2
    for n in tree.body:
        tgts = n.targets if isinstance(n, ast.Assign) else ([n.target] if isinstance(n, (ast.AugAssign, ast.AnnAssign)) else [])
        for t in tgts:
            if isinstance(t, ast.Name):
                count[t.id] = count.get(t.id, 0) + 1
                v = getattr(n, 'value', None)
                if isinstance(n, ast.Assign):
                    cv = _const_value(v)
                    if cv is not None:
                        vals[t.id] = cv
    return {k: v for k, v in vals.items() if count.get(k) == 1}


def module_defs(module):
    """{name: FunctionDef} of the module-level functions defined exactly once (helpers without a contract are interpreted inline)"""
    src, tree = module_ast(module)
    out, count = {}, {}
    for n in tree.body:
        if isinstance(n, ast.FunctionDef):
            count[n.name] = count.get(n.name, 0) + 1
            out[n.name] = n
        for t in (n.targets if isinstance(n, ast.Assign) else []):
            if isinstance(t, ast.Name):
                count[t.id] = count.get(t.id, 0) + 1
    return {k: v for k, v in out.items() if count.get(k) == 1}


def _const_value(node):
    """int / str / bool literal, or integer arithmetic over literals (1 << 16, 4 * 1024, -1): None for anything else"""
    if isinstance(node, ast.Constant) and isinstance(node.value, (int, str, bool)):
        return node.value
    if isinstance(node, ast.Constant) and isinstance(node.value, bytes):
        return node.value.decode('latin-1')      # bytes literals: the same sequence sort as str (as in the interpreter)
    if isinstance(node, ast.UnaryOp) and isinstance(node.op, ast.USub):
        v = _const_value(node.operand)
        return -v if isinstance(v, int) and not isinstance(v, bool) else None
    if isinstance(node, ast.BinOp):
        a, b = _const_value(node.left), _const_value(node.right)
        if not all(isinstance(x, int) and not isinstance(x, bool) for x in (a, b)):
            return None
        try:
            if isinstance(node.op, ast.Add):
                return a + b
            if isinstance(node.op, ast.Sub):
                return a - b
            if isinstance(node.op, ast.Mult):
                return a * b
            if isinstance(node.op, ast.LShift) and 0 <= b <= 64:
                return a << b
            if isinstance(node.op, ast.Pow) and 0 <= b <= 64:
                return a ** b
            if isinstance(node.op, ast.FloorDiv) and b != 0:
                return a // b
        except Exception:      # noqa
            return None
    return None


def find_function(module, qualname):
    src, tree = module_ast(module)
    parts = qualname.split('.')
    body = tree.body
    node = None
    for i, p in enumerate(parts):
        found = None
        for n in body:
            if isinstance(n, (ast.FunctionDef, ast.ClassDef)) and n.name == p:
                found = n     # the last definition wins, as in Python
        if found is None:
            return None, None
        node = found
        body = found.body
    seg = ast.get_source_segment(src, node) or ''
    return node, hashlib.sha256(seg.encode()).hexdigest()[:16]


def verify_unit(args):
    famname, kind, key, opts = args[:4]
    shard, nshards = (args[4], args[5]) if len(args) > 4 else (0, 1)
    cset = load_family(famname)
    tr = Translator(cset, fuel=opts['fuel'])
    results = []
    meta = dict(kind=kind, key=key, paths=0, source_hash=None, lines=None, outside=None)
    t0 = time.time()
    try:
        if kind == 'lemma':
            lem = [l for l in cset.lemmas if l.name == key][0]
            v = LemmaVerifier(cset, lem, tr)
            obs = v.obligations()
            lemmas = [l for l in cset.lemmas if l.index < lem.index and (lem.group is None or l.group != lem.group)]
            serves = []
        else:
            c = cset.fns[key]
            node, h = find_function(c.module, c.qualname)
            if node is None:
                raise OutsideSubset('function %s not found in %s' % (c.qualname, c.module))
            meta['source_hash'] = h
            meta['lines'] = [node.lineno, node.end_lineno]
            ext = getattr(cset, 'extern', {}).get(c.module, {})
            v = FunctionVerifier(cset, c, node, tr, extern=ext)
            v.module_consts = module_constants(c.module)
            v.module_defs = module_defs(c.module)
            obs = v.obligations()
            lemmas = list(cset.lemmas)
            serves = c.serves
        meta['paths'] = v.paths
        meta['shard'] = [shard, nshards]
        for oi, ob in enumerate(obs):
            if oi % nshards != shard:
                continue
            st, solver, ms, model, reason, size = tr.solve(ob, lemmas, timeout_ms=opts['timeout'], fuel=opts['fuel'],
                                                          cross=bool(opts.get('cross')) and ob.kind != 'cover')
            if ob.kind == 'cover':
                # a cover is GOOD when it is satisfiable: assumptions that cannot hold together prove anything
                st = {'refuted': 'covered', 'discharged': 'vacuous'}.get(st, 'cover-undecided')
                results.append(Result(ob.name, ob.function, ob.kind, st, solver, ms, None, reason, ob.lineno, size, serves=serves))
                continue
            if st == 'refuted' and opts.get('refute_fuel', 0) > opts['fuel']:
                # a sat answer under limited unfolding is only a candidate: retry deeper
                st2, solver2, ms2, model2, reason2, size2 = tr.solve(ob, lemmas, timeout_ms=opts['timeout'],
                                                                     fuel=opts['refute_fuel'], use_cvc5=opts.get('deep', False))
                ms += ms2
                if st2 == 'discharged':
                    st, solver, model, reason = st2, solver2, model2, 'needed fuel %d' % opts['refute_fuel']
                elif st2 == 'refuted':
                    model = model2 or model
                    reason = 'refuted at fuel %d and %d' % (opts['fuel'], opts['refute_fuel'])
                else:
                    # deeper unfolding gave no verdict: the candidate counter-model of the shallow query stands
                    reason = 'refuted at fuel %d; fuel %d undecided (%s)' % (opts['fuel'], opts['refute_fuel'], reason2[:80])
            results.append(Result(ob.name, ob.function, ob.kind, st, solver, ms, model, reason, ob.lineno, size,
                                  serves=serves))
    except OutsideSubset as e:
        meta['outside'] = str(e)
    except Exception as e:      # a crash of the translator is a checker fault, never a verdict
        meta['crash'] = traceback.format_exc()
    meta['wall_s'] = round(time.time() - t0, 3)
    return meta, [r.to_json() for r in results]


def verify_family(famname, fuel=2, timeout=10000, jobs=None, only=None, refute_fuel=3, serves=None, deep=False, cross=False):
    cset = load_family(famname)
    units = []
    for l in cset.lemmas:
        if not l.trusted:
            units.append((famname, 'lemma', l.name))
    for key, c in cset.fns.items():
        if not c.trusted and (serves is None or serves in c.serves):
            units.append((famname, 'function', key))
    if only:
        units = [u for u in units if only in u[2]]
    opts = dict(fuel=fuel, timeout=timeout, refute_fuel=refute_fuel, deep=deep, cross=cross)
    work = []
    for u in units:
        n = 1
        if u[1] == 'function':
            n = getattr(cset.fns[u[2]], 'shards', 1)
        for i in range(n):
            work.append(u + (opts, i, n))
    jobs = jobs or min(16, max(1, len(work)))
    if jobs == 1 or len(work) <= 1:
        out = [verify_unit(w) for w in work]
    else:
        ctx = multiprocessing.get_context('fork')
        with ctx.Pool(jobs) as pool:
            out = pool.map(verify_unit, work, chunksize=1)
    merged = {}
    order = []
    for meta, results in out:
        key = (meta['kind'], meta['key'])
        if key not in merged:
            merged[key] = (meta, list(results))
            order.append(key)
        else:
            m0, r0 = merged[key]
            r0.extend(results)
            m0['wall_s'] = max(m0['wall_s'], meta['wall_s'])
            for f in ('outside', 'crash'):
                if meta.get(f) and not m0.get(f):
                    m0[f] = meta[f]
    out = [merged[k] for k in order]
    # cross-checks of the declarations against the source (2.4): a mismatch makes the family undecided, not violated
    mod = importlib.import_module(FAMILIES.get(famname, famname))
    for fn in getattr(mod, 'PRECHECKS', []):
        ok, detail = fn()
        if not ok:
            out.append((dict(kind='precheck', key=fn.__name__, paths=0, source_hash=None, lines=None, wall_s=0,
                             outside='declaration does not match the source: %s' % (detail,)), []))
    trusted = [dict(kind='lemma', name=l.name, note=l.note) for l in cset.lemmas if l.trusted] + \
              [dict(kind='function', name=k, note=c.note) for k, c in cset.fns.items() if c.trusted]
    return dict(family=famname, units=out, trusted=trusted, assumptions=list(cset.assumptions))


def main():
    ap = argparse.ArgumentParser()
    ap.add_argument('family')
    ap.add_argument('--only')
    ap.add_argument('--fuel', type=int, default=2)
    ap.add_argument('--timeout', type=int, default=10000)
    ap.add_argument('-j', type=int, default=None)
    ap.add_argument('-v', action='store_true')
    ap.add_argument('--json')
    ap.add_argument('--cross', action='store_true', help='re-check every discharged obligation with cvc5')
    a = ap.parse_args()
    t0 = time.time()
    rep = verify_family(a.family, fuel=a.fuel, timeout=a.timeout, jobs=a.j, only=a.only, cross=a.cross)
    n = d = 0
    for meta, results in rep['units']:
        tag = '%s %s' % (meta['kind'], meta['key'])
        if meta.get('outside'):
            print('OUTSIDE  %s: %s' % (tag, meta['outside']))
        if meta.get('crash'):
            print('CRASH    %s\n%s' % (tag, meta['crash']))
        covers = [r for r in results if r['kind'] == 'cover']
        results = [r for r in results if r['kind'] != 'cover']
        ok = sum(1 for r in results if r['status'] == 'discharged')
        n += len(results)
        d += ok
        print('%-60s paths=%-4d obligations=%-4d discharged=%-4d covers=%d/%d %.1fs' % (
            tag, meta['paths'], len(results), ok, sum(c['status'] == 'covered' for c in covers), len(covers), meta['wall_s']))
        for r in covers:
            if r['status'] != 'covered':
                print('   %-10s %s' % (r['status'], r['name']))
        for r in results:
            if r['status'] != 'discharged' or a.v:
                print('   %-10s %-8s %7.0fms  %s  (line %s) %s' % (r['status'], r['solver'], r['ms'], r['name'], r['lineno'], r['reason']))
                if r['status'] == 'refuted' and r['model']:
                    print('        model: %s' % json.dumps(r['model'])[:600])
    print('total: %d obligations, %d discharged, %.1fs' % (n, d, time.time() - t0))
    if a.json:
        with open(a.json, 'w') as f:
            json.dump(rep, f, indent=1)


if __name__ == '__main__':
    main()
