"""pyvc: verification conditions from the ast of the real source, discharged by z3 / cvc5."""
