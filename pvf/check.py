"""./check <ID> [--tier quick|thorough] [--replay PATH]

Decides one property on the current working tree of /repo:
  1. pyvc: verification conditions of every function under contract that serves the property,
     generated from the source as it is now, discharged by z3 / cvc5
  2. vacuity guards
  3. the bounded stand-in of the property (run-time contracts over an enumerated domain)
  4. evidence/<ID>.json
Exit 0: held on everything explored (known findings are printed as KNOWN-FINDING lines).
Exit 1: a line `VIOLATION property=<ID> replay=<path>` per violation.
Exit 3: checker fault (crash, zero obligations, vacuity guard) - never a verdict about the code.
"""
import argparse
import hashlib
import importlib
import json
import os
import re
import sys
import time
import traceback

from pvf import VERIF, REPO
from pvf.properties import PROPS

KNOWN = os.path.join(VERIF, 'known_findings.json')
BASELINE = os.path.join(VERIF, 'pvf', 'contracts', 'baseline_obligations.json')
REPLAYS = os.path.join(VERIF, 'replays')


def ob_class(name):
    """obligation name without branch labels and ordinals: stable across edits of branch conditions"""
    name = re.sub(r'#\d+$', '', name)
    name = re.sub(r'/\[.*\](?=/)', '', name)
    return name


def load_known(pid):
    if not os.path.exists(KNOWN):
        return []
    with open(KNOWN) as f:
        return [k for k in json.load(f) if k.get('property') == pid and k.get('status') == 'known']


def match_known(known, source, kind, tags):
    for k in known:
        if k.get('source') != source:
            continue
        if k.get('kind') != kind:
            continue
        if all(t in tags for t in k.get('tags', [])):
            return k
    return None


def write_replay(pid, name, payload):
    os.makedirs(REPLAYS, exist_ok=True)
    h = hashlib.sha1(name.encode()).hexdigest()[:10]
    path = os.path.join(REPLAYS, '%s-%s.json' % (pid, h))
    with open(path, 'w') as f:
        json.dump(payload, f, indent=1, default=str)
    return path


def run_pyvc(pid, prop, tier):
    # the line-budget invariants of best_layout (layout_zone.py) serve C05 only and triple the work for that function
    os.environ['PVF_LAYOUT_ZONE'] = '1' if pid == 'C05' else '0'
    from pvf.pyvc.run import verify_family
    out = dict(obligations=[], functions=[], outside=[], crashes=[], trusted=[], assumptions=[], lemmas=[],
               solver_time_s=0.0, by_backend={}, covers=[])
    fuel = 2
    timeout = 30000 if tier == 'quick' else 120000        # per obligation; the slowest takes ~7 s on an idle machine
    for fam in prop['families']:
        rep = verify_family(fam, fuel=fuel, timeout=timeout, serves=pid, refute_fuel=3 if tier == 'quick' else 4,
                            deep=(tier != 'quick'), cross=(tier != 'quick'))
        out['assumptions'].extend(rep['assumptions'])
        out['trusted'].extend(rep['trusted'])
        for meta, results in rep['units']:
            if meta.get('crash'):
                out['crashes'].append((meta['key'], meta['crash']))
            if meta.get('outside'):
                out['outside'].append((meta['key'], meta['outside']))
            ent = dict(name=meta['key'], kind=meta['kind'], family=fam, paths=meta['paths'],
                       obligations=len(results), discharged=sum(r['status'] == 'discharged' for r in results),
                       source_hash=meta.get('source_hash'), lines=meta.get('lines'), wall_s=meta['wall_s'])
            (out['functions'] if meta['kind'] == 'function' else out['lemmas']).append(ent)
            for r in results:
                r['family'] = fam
                if r['kind'] == 'cover':
                    out['covers'].append(r)
                    continue
                out['obligations'].append(r)
                out['solver_time_s'] += r['ms'] / 1000.0
                if r['status'] == 'discharged':
                    out['by_backend'][r['solver']] = out['by_backend'].get(r['solver'], 0) + 1
    return out


def main(argv=None):
    ap = argparse.ArgumentParser()
    ap.add_argument('pid')
    ap.add_argument('--tier', default=None)
    ap.add_argument('--replay', default=None)
    ap.add_argument('--write-baseline', action='store_true')
    ap.add_argument('--no-bounded', action='store_true')
    ap.add_argument('--no-pyvc', action='store_true')
    a = ap.parse_args(argv)
    pid = a.pid
    tier = os.environ.get('VERIF_TIER') or a.tier or 'quick'
    seed = int(os.environ.get('VERIF_SEED') or 0)
    if pid not in PROPS:
        print('unknown or not-applicable property %s' % pid)
        return 3
    prop = PROPS[pid]
    if a.replay:
        return do_replay(pid, prop, a.replay)
    t0 = time.time()
    known = load_known(pid)
    violations = []        # (name, replay path, suffix)
    known_lines = []
    undecided = []
    fault = []

    # ---------------------------------------------------------------- 1. pyvc
    pv = dict(obligations=[], functions=[], outside=[], crashes=[], trusted=[], assumptions=[], lemmas=[],
              solver_time_s=0.0, by_backend={}, covers=[])
    if prop['families'] and not a.no_pyvc:
        try:
            pv = run_pyvc(pid, prop, tier)
        except Exception:
            fault.append('pyvc crashed:\n' + traceback.format_exc())
        for key, tb in pv['crashes']:
            fault.append('translator crash in %s:\n%s' % (key, tb))
        baseline = {}
        if os.path.exists(BASELINE):
            with open(BASELINE) as f:
                baseline = json.load(f)
        if a.write_baseline:
            for fam in prop['families']:
                baseline[fam] = sorted({ob_class(r['name']) for r in pv['obligations']
                                        if r['family'] == fam and r['status'] == 'discharged'} | set(baseline.get(fam, [])))
            with open(BASELINE, 'w') as f:
                json.dump(baseline, f, indent=1)
        for key, why in pv['outside']:
            undecided.append((key, 'outside-subset: ' + why))
        # vacuity guards: preconditions and (invariant and guard) must be satisfiable
        for cv in pv['covers']:
            if cv['status'] == 'vacuous':
                fault.append('vacuity guard: %s is unsatisfiable - everything after it is proved vacuously' % cv['name'])
        # vacuity: every clause of every contract must have produced an obligation
        for r in pv['obligations']:
            if r['status'] == 'discharged':
                continue
            if r['status'] == 'undecided':
                undecided.append((r['name'], r['reason'] or 'solver gave no verdict'))
                continue
            # refuted
            cls = ob_class(r['name'])
            k = match_known(known, 'pyvc', cls, [])
            rp = None
            confirmed = None
            try:
                from pvf import replay as _rp
                confirmed = _rp.replay_obligation(r)
            except Exception:
                confirmed = dict(confirmed=False, detail='replay machinery failed: ' + traceback.format_exc()[-400:])
            payload = dict(property=pid, source='pyvc', family=r.get('family'), obligation=r['name'], obligation_class=cls,
                           function=r['function'], line=r['lineno'], solver=r['solver'], model=r['model'],
                           replay=confirmed, repo=REPO,
                           rerun='./check %s --replay <this file>' % pid)
            if k is not None:
                known_lines.append('KNOWN-FINDING: property=%s %s [%s]' % (pid, k.get('what', cls), r['name']))
                continue
            in_base = cls in set(baseline.get(r['family'], []))
            if '/frame(' in r['name']:
                # a parameter outside `modifies` is mutated on a feasible path: such an obligation does not exist on the unchanged
                # tree (nothing to put in the baseline); the contract's frame, which every caller relies on, is broken
                in_base = True
            if confirmed and confirmed.get('confirmed'):
                rp = write_replay(pid, r['name'], payload)
                violations.append((r['name'], rp, ''))
            elif '/post:chosen-call:' in r['name']:
                # the clause pins the constructor call the printer chose; the property asks only for SOME call that rebuilds an equal
                # object: without a failing input from the replay a different call is not a violation
                undecided.append((r['name'], 'the printer emits another call than the contract pins; the replay on real values found no value that '
                                             'is not rebuilt: ' + str((confirmed or {}).get('detail', ''))[:160]))
            elif in_base:
                rp = write_replay(pid, r['name'], payload)
                violations.append((r['name'], rp, ' no-failing-input-found'))
            else:
                undecided.append((r['name'], 'refuted by the solver, not in the discharged baseline and not reproduced on the real code'))

    # ---------------------------------------------------------------- 1b. frame obligations (effect analysis)
    from pvf.properties import EFFECTS
    if pid in EFFECTS and not a.no_pyvc:
        try:
            from pvf import effects as _eff
            eobs = [o for o in _eff.analyse() if EFFECTS[pid](o)]
            pv['assumptions'].extend(_eff.ASSUMPTIONS)
            pv['functions'].append(dict(name='effect analysis over %d modules' % len(_eff.MODULES), kind='frame', family='effects',
                                        paths=0, obligations=len(eobs), discharged=sum(o['status'] == 'discharged' for o in eobs),
                                        source_hash=None, lines=None, wall_s=0))
            pv['by_backend']['effect-analysis'] = sum(o['status'] == 'discharged' for o in eobs)
            for o in eobs:
                o['family'] = 'effects'
                pv['obligations'].append(o)
                if o['status'] == 'discharged':
                    continue
                clear_cut = any(k in o['name'] for k in ('/module-state@', '/hidden-state@', '/global-rebind@', '/id-flow@', '/settings-flow@')) \
                    or 'reachable from the printed value' in o['reason'] or 'non-local object' in o['reason']
                if not clear_cut:
                    undecided.append((o['name'], 'frame rule does not cover this site: ' + o['reason']))
                    continue
                k = match_known(known, 'effects', ob_class(o['name']), [])
                if k is not None:
                    known_lines.append('KNOWN-FINDING: property=%s %s' % (pid, k.get('what', o['name'])))
                    continue
                rp = write_replay(pid, o['name'], dict(property=pid, source='effects', obligation=o['name'], reason=o['reason'],
                                                       line=o['lineno'], code=o.get('source'), function=o['function'],
                                                       note='frame obligation decided on the source text: there is no input to replay'))
                violations.append((o['name'], rp, ' no-failing-input-found'))
        except Exception:
            fault.append('effect analysis crashed:\n' + traceback.format_exc())

    if (prop['families'] or pid in EFFECTS) and not a.no_pyvc and not pv['obligations'] and not fault:
        fault.append('zero obligations generated for %s' % pid)

    # ---------------------------------------------------------------- 2. bounded stand-in
    bd = None
    if prop.get('bounded') and not a.no_bounded:
        try:
            importlib.import_module(prop['bounded'])
            bd = run_bounded(prop['bounded'], tier, seed)
        except BoundedTimeout as e:
            fault.append('bounded stand-in exceeded its time budget (%s); nothing it explored is reported' % e)
        except ModuleNotFoundError as e:
            if prop['bounded'] in str(e):
                bd = None
            else:
                fault.append('bounded stand-in crashed:\n' + traceback.format_exc())
        except Exception:
            fault.append('bounded stand-in crashed:\n' + traceback.format_exc())
        if bd:
            seen_known = set()
            for v in bd['violations']:
                k = match_known(known, 'bounded', v['kind'], v.get('tags', []))
                if k is not None:
                    if id(k) not in seen_known:
                        seen_known.add(id(k))
                        known_lines.append('KNOWN-FINDING: property=%s %s' % (pid, k.get('what', v['kind'])))
                    continue
                payload = dict(property=pid, source='bounded', module=prop['bounded'], **v)
                rp = write_replay(pid, v['kind'] + json.dumps(v['case'], default=str), payload)
                violations.append((v['kind'], rp, ''))

    # ---------------------------------------------------------------- 3. evidence
    n_ob = len(pv['obligations'])
    n_dis = sum(r['status'] == 'discharged' for r in pv['obligations'])
    level = prop['level'] if (n_ob and n_ob == n_dis and not undecided) else 'other'
    if prop['level'] != 'proof':
        level = prop['level']
    cov = dict(
        obligations=n_ob, discharged=n_dis,
        checker_cmd='./check %s --tier %s' % (pid, tier),
        trusted_base=['pyvc encoding of the Python subset (DESIGN 2.3)', 'z3 5.1.0', 'cvc5 1.4.0 / 1.0.3'] +
                     ['trusted contract: %s (%s)' % (t['name'], t['note']) for t in pv['trusted']],
        functions_under_contract=pv['functions'], lemmas=pv['lemmas'],
        obligation_samples=[dict(name=r['name'], status=r['status'], solver=r['solver'], ms=r['ms'], size=r['size'])
                            for r in pv['obligations'][:8]],
        by_backend=pv['by_backend'], solver_time_s=round(pv['solver_time_s'], 2),
        vacuity_covers=dict(total=len(pv['covers']), satisfiable=sum(c['status'] == 'covered' for c in pv['covers']),
                            undecided=[c['name'] for c in pv['covers'] if c['status'] == 'cover-undecided']),
        undecided=[dict(name=n, reason=w) for n, w in undecided],
        outside_subset=[dict(function=k, reason=w) for k, w in pv['outside']],
        known_findings=known_lines,
        explanation=explanation(pid, pv, bd),
    )
    if bd:
        cov.update(evaluations=bd['evaluations'], distinct_nontrivial=bd['distinct_nontrivial'], rule=bd['rule'],
                   samples=bd['samples'], exhaustive=bd.get('exhaustive', False),
                   bounded=dict(bounds=bd.get('bounds'), counters=bd.get('counters'),
                                violations_total=bd.get('violations_total', 0)))
    else:
        cov.update(evaluations=n_ob, distinct_nontrivial=len({ob_class(r['name']) for r in pv['obligations']}),
                   rule='one evaluation = one verification condition; distinct = obligation classes',
                   samples=[r['name'] for r in pv['obligations'][:5]] or ['-'])
    # mechanical scan: assumptions that family hooks add to a path (instances of trusted lemmas, models of library objects)
    sites = []
    try:
        from pvf.pyvc.run import FAMILIES
        import importlib as _il, inspect as _insp, re as _re
        for fam in prop.get('families', []):
            mod = _il.import_module(FAMILIES.get(fam, fam))
            for m in [mod] + [v for v in vars(mod).values() if _insp.ismodule(v) and v.__name__.startswith('pvf.contracts')]:
                try:
                    src = _insp.getsource(m)
                except Exception:      # noqa
                    continue
                n = len(_re.findall(r'\bI2?\.assume\(', src))
                if n:
                    sites.append('%s: %d assume() sites in hooks' % (m.__name__, n))
    except Exception:      # noqa
        pass
    ev = dict(property_id=pid, tier=tier, seed=seed, level=level, coverage=cov,
              assumptions=sorted(set(pv['assumptions'])) + ['trusted: %s - %s' % (t['name'], t['note']) for t in pv['trusted']] +
                          ['hook-level assumptions (scan): ' + s_ for s_ in sorted(set(sites))],
              wall_s=round(time.time() - t0, 2), violations=len(violations))
    os.makedirs(os.path.join(VERIF, 'evidence'), exist_ok=True)
    with open(os.path.join(VERIF, 'evidence', pid + '.json'), 'w') as f:
        json.dump(ev, f, indent=1, default=str)

    # ---------------------------------------------------------------- 4. verdict
    print('%s tier=%s: %d/%d obligations discharged (pyvc + effect analysis) over %d functions, %d lemmas; bounded: %s evaluations; %.1fs' % (
        pid, tier, n_dis, n_ob, len(pv['functions']), len(pv['lemmas']), bd['evaluations'] if bd else '-', time.time() - t0))
    for n, w in undecided:
        print('UNDECIDED property=%s obligation=%s reason=%s' % (pid, n, w.replace('\n', ' ')[:300]))
    for l in known_lines:
        print(l)
    for f_ in fault:
        print('CHECKER-FAULT %s' % f_)
    for name, rp, suffix in violations:
        print('VIOLATION property=%s replay=%s%s' % (pid, rp, suffix))
    if violations:
        return 1
    if fault:
        return 3
    return 0


class BoundedTimeout(Exception):
    pass


def _bounded_child(modname, tier, seed, conn):
    try:
        mod = importlib.import_module(modname)
        conn.send(('ok', mod.run(tier, seed)))
    except BaseException:      # noqa
        conn.send(('error', traceback.format_exc()[-4000:]))
    finally:
        conn.close()


def run_bounded(modname, tier, seed):
    """the stand-in runs in a child process under a watchdog: an edit of /repo that makes printing diverge must not
    hang the check"""
    import multiprocessing
    budget = int(os.environ.get('PVF_BOUNDED_BUDGET_S', 1500 if tier == 'quick' else 7200))
    ctx = multiprocessing.get_context('fork')
    parent, child = ctx.Pipe(duplex=False)
    p = ctx.Process(target=_bounded_child, args=(modname, tier, seed, child), daemon=False)
    p.start()
    child.close()
    if not parent.poll(budget):
        import signal
        try:
            os.killpg(os.getpgid(p.pid), 0)
        except Exception:       # noqa
            pass
        # kill the child and its pool workers
        try:
            import subprocess
            subprocess.run(['pkill', '-KILL', '-P', str(p.pid)], check=False)
        except Exception:       # noqa
            pass
        p.kill()
        p.join(5)
        raise BoundedTimeout('%d s' % budget)
    status, payload = parent.recv()
    p.join(30)
    if status == 'error':
        raise RuntimeError('bounded stand-in failed in its child process:\n' + payload)
    return payload


def explanation(pid, pv, bd):
    parts = []
    fns = [f for f in pv['functions'] if f.get('kind') != 'frame']
    frames = [f for f in pv['functions'] if f.get('kind') == 'frame']
    if fns:
        parts.append('pyvc generated verification conditions from the current source of %d functions (%s) and %d lemmas; '
                     'each obligation is discharged for all inputs by z3/cvc5 under the encoding of DESIGN.md 2.3.' % (
                         len(fns), ', '.join(f['name'].split(':')[-1] for f in fns), len(pv['lemmas'])))
    if frames:
        parts.append('Frame obligations (%d) decided per mutation site / module-level binding / id() call / settings flow by the effect '
                     'analysis of pvf/effects.py over the ast of the current source.' % sum(f['obligations'] for f in frames))
    if bd:
        parts.append('Bounded stand-in (never counted as proved): ' + bd['rule'])
    return ' '.join(parts) or 'no machinery ran'


def do_replay(pid, prop, path):
    with open(path) as f:
        payload = json.load(f)
    if payload.get('source') == 'bounded':
        mod = importlib.import_module(payload['module'])
        r = mod.replay(payload['case'])
        print(json.dumps(r, indent=1, default=str))
        if r.get('violated'):
            print('VIOLATION property=%s replay=%s' % (pid, path))
            return 1
        return 0
    from pvf import replay as _rp
    r = _rp.replay_payload(payload)
    print(json.dumps(r, indent=1, default=str))
    if r.get('confirmed'):
        print('VIOLATION property=%s replay=%s' % (pid, path))
        return 1
    return 0


if __name__ == '__main__':
    sys.exit(main())
