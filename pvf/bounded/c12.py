"""C12 bounded stand-in: pformat terminates and its work grows polynomially.

Work = number of `sys.monitoring` LINE events delivered for code objects whose file lies under
<repo>/prettyprinter/ during ONE pformat call (wall time is never used for a verdict).

For every family F and configuration, on the chain n, 2n, 4n, 8n:

    terminates      the call returns within STEP_BUDGET counted steps (no exception either)
    growth-factor   steps(F(2n)) <= 6 * max(steps(F(n)), 2000)
                    (below 2000 steps the count is dominated by fixed costs and by regime changes - a string that starts
                    to be split over lines costs 6.1x once and 2x per doubling from then on; a super-polynomial family
                    passes the floor at a later link of the chain and is judged there)

A chain stops at the first call that exhausts the budget (every later member is at least as large);
the ratio reported for such a link is a lower bound (budget / steps(F(n))).

case = {'check': 'growth'|'terminates', 'family': str, 'n': int, 'config': {pformat kwargs},
        'budget': int, 'recipe': [wrapper names] (only family 'recipe')}
"""
import os
import random
import sys
import time
import warnings

from pvf.bounded import common

pp = common.load_repo()
from prettyprinter import pformat, comment, trailing_comment, register_pretty, pretty_call  # noqa: E402
from prettyprinter import is_registered  # noqa: E402

PKG_DIR = os.path.join(os.path.dirname(os.path.abspath(pp.__file__)), '')
FACTOR = 6
FLOOR = 2000
RECURSION_LIMIT = 12000
BUDGET = {'quick': 20_000_000, 'thorough': 40_000_000}


# ---------------------------------------------------------------------------------------------
# registered user type (once per process)
class C12Box:
    def __init__(self, child):
        self.child = child

    def __repr__(self):
        return 'C12Box(%r)' % (self.child,)


class C12Pair:
    def __init__(self, a, b):
        self.a = a
        self.b = b

    def __repr__(self):
        return 'C12Pair(%r, b=%r)' % (self.a, self.b)


if not is_registered(C12Box, check_deferred=False, register_deferred=False):
    @register_pretty(C12Box)
    def _c12_pretty_box(value, ctx):
        return pretty_call(ctx, C12Box, value.child)

if not is_registered(C12Pair, check_deferred=False, register_deferred=False):
    @register_pretty(C12Pair)
    def _c12_pretty_pair(value, ctx):
        return pretty_call(ctx, C12Pair, value.a, b=value.b)


# ---------------------------------------------------------------------------------------------
# step counter
class StepBudgetExceeded(BaseException):
    """BaseException on purpose: the package catches `Exception` around printers."""


def _free_tool_id():
    mon = sys.monitoring
    for tid in (4, 3, 2, 1):
        if mon.get_tool(tid) is None:
            return tid
    raise RuntimeError('no free sys.monitoring tool id')


def count_steps(fn, budget):
    """-> (steps, status, result, seconds); status in 'ok', 'budget', 'exc:<Type>'"""
    mon = sys.monitoring
    tid = _free_tool_id()
    n = [0]
    pkg = PKG_DIR

    def on_line(code, line):
        if not code.co_filename.startswith(pkg):
            return mon.DISABLE
        n[0] += 1
        if n[0] > budget:
            raise StepBudgetExceeded()

    old_limit = sys.getrecursionlimit()
    if old_limit < RECURSION_LIMIT:
        sys.setrecursionlimit(RECURSION_LIMIT)
    mon.use_tool_id(tid, 'pvf-c12')
    mon.register_callback(tid, mon.events.LINE, on_line)
    mon.restart_events()
    result = None
    t0 = time.time()
    try:
        mon.set_events(tid, mon.events.LINE)
        try:
            result = fn()
            status = 'ok'
        except StepBudgetExceeded:
            status = 'budget'
        except Exception as e:      # noqa
            status = 'exc:' + type(e).__name__
        finally:
            mon.set_events(tid, 0)
    finally:
        mon.register_callback(tid, mon.events.LINE, None)
        mon.free_tool_id(tid)
        sys.setrecursionlimit(old_limit)
    return n[0], status, result, time.time() - t0


# ---------------------------------------------------------------------------------------------
# families
def _wrap(leaf, n, f):
    v = leaf
    for _ in range(n):
        v = f(v)
    return v


def _letters(n):
    return ''.join('abcdefghijklmnopqrstuvwxyz'[i % 26] for i in range(n))


def _words(n):
    ws = ['lorem', 'ipsum', 'dolor', 'sit', 'amet', 'consectetur', 'adipiscing', 'elit', 'sed', 'do']
    return ' '.join(ws[i % len(ws)] for i in range(n))


WRAPPERS = {
    'list': lambda v: [v],
    'list2': lambda v: [v, 1],
    'tuple': lambda v: (v,),
    'tuple2': lambda v: (0, v),
    'dict': lambda v: {'k': v},
    'dict2': lambda v: {'a': 1, 'k': v},
    'intkey': lambda v: {7: v},
    'box': lambda v: C12Box(v),
    'pair': lambda v: C12Pair(1, v),
    'comment': lambda v: comment(v, 'c'),
    'tcomment': lambda v: trailing_comment(v, 'tc'),
}


def build_recipe(recipe, n):
    v = 0
    for i in range(n):
        v = WRAPPERS[recipe[i % len(recipe)]](v)
    return v


def recipe_tags(recipe):
    tags = {'family:recipe'}
    p = len(recipe)
    for i in range(p):
        inner = recipe[i]
        # wrapper i is applied first; the container that receives it is the next wrapper that is not itself a
        # comment wrapper (comment wrappers are peeled off together by unwrap_comments)
        outer = None
        for d in range(1, p + 1):
            w = recipe[(i + d) % p]
            if w not in ('comment', 'tcomment'):
                outer = w
                break
        if inner == 'comment' and outer in ('dict', 'dict2', 'intkey'):
            tags.add('commented-dict-value')
        if inner == 'comment' and outer in ('list', 'list2', 'tuple', 'tuple2'):
            tags.add('commented-seq-element')
        if inner == 'comment' and outer in ('box', 'pair'):
            tags.add('commented-call-arg')
        if inner == 'tcomment':
            tags.add('trailing-comment')
    for w in sorted(set(recipe)):
        tags.add('w:' + w)
    return sorted(tags)


# name -> (builder(n), base n quick, extra bases thorough, extra pformat kwargs)
BIG = 10 ** 9
FAMILIES = {
    'nested-list': (lambda n: _wrap([], n, lambda v: [v]), 15, (12, 7), {}),
    'nested-list-wide': (lambda n: _wrap([1, 2], n, lambda v: [v, 'x']), 15, (11, 6), {}),
    'nested-dict': (lambda n: _wrap({}, n, lambda v: {'k': v}), 15, (12, 7), {}),
    'nested-tuple1': (lambda n: _wrap((), n, lambda v: (v,)), 15, (12, 7), {}),
    'nested-call': (lambda n: _wrap(C12Box(0), n, C12Box), 15, (12, 7), {}),
    'nested-call-kw': (lambda n: _wrap(0, n, lambda v: C12Pair(1, v)), 15, (11, 6), {}),
    'flat-list': (lambda n: list(range(n)), 1500, (700, 37), {'max_seq_len': BIG}),
    'flat-list-truncated': (lambda n: list(range(n)), 1500, (700, 130), {}),
    'flat-dict': (lambda n: {i: i for i in range(n)}, 1000, (400, 37), {'max_seq_len': BIG}),
    'flat-dict-strkeys-sorted': (lambda n: {'k%d' % ((i * 7919) % n): i for i in range(n)}, 800, (300, 41),
                                 {'max_seq_len': BIG, 'sort_dict_keys': True}),
    'flat-list-of-strs': (lambda n: ['item %d' % i for i in range(n)], 1000, (600, 53), {'max_seq_len': BIG}),
    'flat-list-commented': (lambda n: [comment(i, 'c%d' % i) for i in range(n)], 400, (250, 31), {'max_seq_len': BIG}),
    'long-str-nobreak': (lambda n: _letters(n), 4000, (1500, 90), {}),
    'long-str-words': (lambda n: _words(n), 1500, (500, 23), {}),
    'long-bytes': (lambda n: bytes(range(256)) * (n // 256) + bytes(range(n % 256)), 2000, (900, 100), {}),
    'deep-short-str': (lambda n: _wrap('hello world', n, lambda v: [v]), 15, (12, 7), {}),
    'deep-long-str': (lambda n: _wrap(_words(40), n, lambda v: [v]), 15, (11, 6), {}),
    'deep-str-dict-value': (lambda n: _wrap(_words(12), n, lambda v: {'k': v}), 15, (11, 6), {}),
    'commented-dict-nesting': (lambda n: _wrap({}, n, lambda v: {'k': comment(v, 'c')}), 3, (2, 4), {}),
    'commented-list-nesting': (lambda n: _wrap([], n, lambda v: [comment(v, 'c')]), 15, (12, 7), {}),
    'commented-call-nesting': (lambda n: _wrap(0, n, lambda v: C12Pair(1, comment(v, 'c'))), 15, (11, 6), {}),
    'trailing-commented-list-nesting': (lambda n: _wrap([], n, lambda v: trailing_comment([v], 'tc')), 15, (11, 6), {}),
    'commented-dict-key-nesting': (lambda n: _wrap(0, n, lambda v: {comment(1, 'kc'): v}), 15, (11, 6), {}),
}


CONFIGS_QUICK = [{}, {'width': 20}, {'width': 200, 'ribbon_width': 200}]
CONFIGS_THOROUGH = CONFIGS_QUICK + [{'width': 1}, {'indent': 1}, {'width': 40, 'ribbon_width': 10}, {'indent': 8, 'width': 60}]


def build(case):
    fam = case['family']
    if fam == 'recipe':
        return build_recipe(case['recipe'], case['n']), {}
    b, _n0, _extra, kw = FAMILIES[fam]
    return b(case['n']), dict(kw)


def tags_of(case):
    if case['family'] == 'recipe':
        tags = recipe_tags(case['recipe'])
    else:
        tags = ['family:' + case['family']]
    cfg = case.get('config') or {}
    if cfg:
        tags = tags + ['cfg:' + ','.join('%s=%s' % kv for kv in sorted(cfg.items()))]
    return sorted(tags)


def measure(case, n):
    c = dict(case, n=n)
    value, kw = build(c)
    kw.update(case.get('config') or {})
    with warnings.catch_warnings():
        warnings.simplefilter('ignore')
        steps, status, out, secs = count_steps(lambda: pformat(value, **kw), case['budget'])
    return steps, status, out, secs


def run_chain(chain):
    """chain: {'family', 'base', 'config', 'budget', 'recipe'?}"""
    acc = common.new_acc()
    base = chain['base']
    proto = {k: chain[k] for k in ('family', 'config', 'budget') if k in chain}
    if 'recipe' in chain:
        proto['recipe'] = chain['recipe']
    prev = None
    slowest = 0.0
    for mult in (1, 2, 4, 8):
        n = base * mult
        steps, status, out, secs = measure(proto, n)
        slowest = max(slowest, secs)
        tcase = dict(proto, check='terminates', n=n)
        acc['evaluations'] += 1
        if status != 'ok':
            kind = 'no-termination-within-budget' if status == 'budget' else 'raised'
            acc['violations'].append({
                'kind': kind, 'case': tcase,
                'observed': '%s after %d steps (%.1f s)' % (status, steps, secs),
                'expected': 'pformat returns within %d package LINE steps' % proto['budget'],
                'tags': tags_of(proto)})
        if prev is not None:
            pn, psteps = prev
            gcase = dict(proto, check='growth', n=pn)
            acc['evaluations'] += 1
            if steps > FACTOR * max(psteps, FLOOR):
                acc['violations'].append({
                    'kind': 'growth-factor', 'case': gcase,
                    'observed': 'steps(F(%d))=%d, steps(F(%d))%s%d, ratio %s%.1f' % (
                        pn, psteps, n, '>=' if status == 'budget' else '=', steps,
                        '>=' if status == 'budget' else '', steps / max(psteps, 1)),
                    'expected': 'steps(F(2n)) <= %d * max(steps(F(n)), %d)' % (FACTOR, FLOOR),
                    'tags': tags_of(proto)})
            if status == 'ok' and steps > 10000 and out is not None and '\n' in out:
                acc['nontrivial'].add('%s|%s|%s|%d' % (chain['family'], ','.join(chain.get('recipe', [])),
                                                       sorted((chain.get('config') or {}).items()), pn))
        if len(acc['samples']) < 1 and mult == 2:
            acc['samples'].append({'case': dict(proto, check='growth', n=base), 'steps': steps, 'status': status})
        if status != 'ok':
            break
        prev = (n, steps)
    acc['counters']['chains'] = 1
    acc['_slowest'] = slowest
    return acc


def chains(tier, seed):
    tier = common.tier_of(tier)
    budget = BUDGET[tier]
    configs = CONFIGS_QUICK if tier == 'quick' else CONFIGS_THOROUGH
    out = []
    for fam, (_b, n0, extra, _kw) in FAMILIES.items():
        bases = (n0,) if tier == 'quick' else (n0,) + tuple(extra)
        for base in bases:
            for cfg in configs:
                out.append({'family': fam, 'base': base, 'config': cfg, 'budget': budget})
    rng = random.Random(common.seed_of(seed) * 1000003 + 12)
    names = sorted(WRAPPERS)
    n_recipes = 32 if tier == 'quick' else 160
    seen = set()
    while len(seen) < n_recipes:
        p = rng.randint(1, 4)
        recipe = tuple(rng.choice(names) for _ in range(p))
        if recipe in seen:
            continue
        seen.add(recipe)
        cfg = rng.choice(configs)
        for base in ((5,) if tier == 'quick' else (5, 10)):
            out.append({'family': 'recipe', 'recipe': list(recipe), 'base': base, 'config': cfg, 'budget': budget})
    # expensive chains first (better balance)
    out.sort(key=lambda c: 0 if (c['family'] == 'commented-dict-nesting' or
                                 'commented-dict-value' in (recipe_tags(c['recipe']) if 'recipe' in c else ())) else 1)
    return out


def run(tier, seed, jobs=16):
    tier = common.tier_of(tier)
    cs = chains(tier, seed)
    results = common.pmap(run_chain, cs, jobs)
    slowest = max([r.pop('_slowest', 0.0) for r in results] or [0.0])
    acc = common.merge(results)
    acc['counters']['slowest_call_s'] = round(slowest, 2)
    return common.report(
        acc,
        rule='a chain link (F(n), F(2n)) is non-trivial when F(2n) terminated, took > 10^4 package steps and its '
             'output spans several lines',
        bounds={'tier': tier, 'families': len(FAMILIES), 'chains': len(cs), 'factor': FACTOR,
                'step_budget': BUDGET[tier], 'chain': 'n,2n,4n,8n', 'max_nesting': 120,
                'configs': CONFIGS_QUICK if tier == 'quick' else CONFIGS_THOROUGH},
        exhaustive=False)


def replay(case):
    proto = {k: case[k] for k in ('family', 'config', 'budget') if k in case}
    proto.setdefault('config', {})
    proto.setdefault('budget', BUDGET['quick'])
    if 'recipe' in case:
        proto['recipe'] = case['recipe']
    n = case['n']
    if case.get('check') == 'terminates':
        steps, status, _out, secs = measure(proto, n)
        return {'violated': status != 'ok',
                'detail': 'F(%d): %s after %d steps (%.1f s), budget %d' % (n, status, steps, secs, proto['budget'])}
    s1, st1, _o, _t = measure(proto, n)
    if st1 != 'ok':
        return {'violated': True, 'detail': 'F(%d) itself: %s after %d steps' % (n, st1, s1)}
    s2, st2, _o, _t = measure(proto, 2 * n)
    return {'violated': s2 > FACTOR * max(s1, FLOOR),
            'detail': 'steps(F(%d))=%d, steps(F(%d))%s%d (%s), ratio %.1f, allowed %d' % (
                n, s1, 2 * n, '>=' if st2 == 'budget' else '=', s2, st2, s2 / max(s1, 1), FACTOR)}
