"""C01 (bounded): printed built-in values evaluate back to an equal value of the same types.

Postcondition on the real ``prettyprinter.pformat`` for a value ``v`` over the built-in literal types and
keyword arguments width / ribbon_width / indent / sort_dict_keys:

  pformat-raised     pformat returns (no exception);
  fallback-warning   no "raised an exception" warning (a printer fell back to repr);
  not-evaluable      eval('(' + text + '\\n)') succeeds;
  eval-roundtrip     the evaluated value is type-exactly equal to ``v`` (same type at every position,
                     nan == nan, -0.0 != 0.0); with sort_dict_keys=False dict entries are compared in
                     order; with sort_dict_keys=True every dict must have the same (type-exact) key
                     set and equal values per key;
  dict-order         with sort_dict_keys=True and pairwise comparable keys (``a < b`` never raises
                     TypeError) the printed key sequence has no adjacent inversion (for a total order
                     this is "ascending key order"; for partial orders such as frozenset inclusion or
                     nan it is the strongest order-independent reading).

Domain: see ``bounds`` of run().  Tags (shape of the input):

  contains-empty-str / contains-empty-bytes   '' / b'' occurs somewhere in the value
  no-room-at-empty   some empty str/bytes sits below d containers, behind `lead` characters of a dict key,
                     with min(width - d*indent - lead, ribbon_width - lead) < 2 (fewer than 2 columns left)
  width<=3           min(width, ribbon_width) <= 3
  depth>=10          nesting depth of the value >= 10
  multi-key-dict     sort_dict_keys=True and the value contains a dict with >= 2 keys
  incomparable-keys  ... one of which has keys that are not pairwise comparable
"""
import hashlib
import random
import time

from . import common
from .common import canon, type_exact_equal

NS = {'nan': float('nan'), 'inf': float('inf')}
DEFAULT_CFG = (79, 71, 4)
SUBGRID = [(1, 1, 1), (5, 5, 4), (13, 13, 4), (79, 79, 4)]   # quick only: configurations for 4-node trees
QUICK_DEPTHS = (1, 2, 3, 4, 5, 8, 12, 16, 18, 19, 20, 21, 25, 30)

_pp = None


def pp():
    global _pp
    if _pp is None:
        _pp = common.load_repo()
    return _pp


# ---------------------------------------------------------------------------------------------
# shape of a value
def walk(v, depth=0, lead=0):
    """(node, number of enclosing containers, characters in front of it on its line when every enclosing
    container is broken: len(repr(key)) + 2 for a dict value) for every position of the value, keys included"""
    yield v, depth, lead
    if isinstance(v, (list, tuple, set, frozenset)):
        for x in v:
            yield from walk(x, depth + 1)
    elif isinstance(v, dict):
        for k, x in v.items():
            yield from walk(k, depth + 1)
            yield from walk(x, depth + 1, len(repr(k)) + 2)


def pairwise_comparable(keys):
    keys = list(keys)
    for i, a in enumerate(keys):
        for b in keys[i + 1:]:
            try:
                a < b
                b < a
            except TypeError:
                return False
    return True


def tags_of(v, kwargs):
    w, r, ind = kwargs['width'], kwargs['ribbon_width'], kwargs['indent']
    tags = set()
    maxd = 0
    for node, d, lead in walk(v):
        maxd = max(maxd, d)
        if isinstance(node, (str, bytes)) and len(node) == 0:
            tags.add('contains-empty-str' if isinstance(node, str) else 'contains-empty-bytes')
            if min(w - d * ind - lead, r - lead) < 2:
                tags.add('no-room-at-empty')
        if isinstance(node, dict) and len(node) >= 2 and kwargs.get('sort_dict_keys'):
            tags.add('multi-key-dict')
            if not pairwise_comparable(node):
                tags.add('incomparable-keys')
    if min(w, r) <= 3:
        tags.add('width<=3')
    if maxd >= 10:
        tags.add('depth>=10')
    return sorted(tags)


# ---------------------------------------------------------------------------------------------
# the postcondition
def compare(v, got, sort):
    """None when `got` is an acceptable evaluation result for `v`, else (kind, reason)"""
    if type(v) is not type(got):
        return ('eval-roundtrip', 'type %s printed, %s read back' % (type(v).__name__, type(got).__name__))
    if isinstance(v, (list, tuple)):
        if len(v) != len(got):
            return ('eval-roundtrip', 'length %d != %d' % (len(got), len(v)))
        for x, y in zip(v, got):
            r = compare(x, y, sort)
            if r:
                return r
        return None
    if isinstance(v, dict):
        if not sort:
            if len(v) != len(got):
                return ('eval-roundtrip', 'dict length %d != %d' % (len(got), len(v)))
            for (k1, x1), (k2, x2) in zip(v.items(), got.items()):
                if not type_exact_equal(k1, k2):
                    if sorted(map(canon, v)) == sorted(map(canon, got)):
                        return ('dict-order', 'insertion order not kept: %r' % (list(got),))
                    return ('eval-roundtrip', 'dict key %r != %r' % (k2, k1))
                r = compare(x1, x2, sort)
                if r:
                    return r
            return None
        a = {canon(k): (k, x) for k, x in v.items()}
        b = {canon(k): (k, x) for k, x in got.items()}
        if len(b) != len(got) or sorted(a) != sorted(b):
            return ('eval-roundtrip', 'dict key set differs: %r' % (list(got),))
        for ck, (k, x) in a.items():
            r = compare(x, b[ck][1], sort)
            if r:
                return r
        if pairwise_comparable(v):
            ks = list(got)
            for i in range(len(ks) - 1):
                if ks[i + 1] < ks[i]:
                    return ('dict-order', 'keys not ascending: %r' % (ks,))
        return None
    if not type_exact_equal(v, got):
        return ('eval-roundtrip', 'value differs at a %s' % type(v).__name__)
    return None


def check_text(v, text, sort):
    try:
        got = common.safe_eval(text, NS)
    except BaseException as e:  # SyntaxError, NameError, ...
        return ('not-evaluable', '%s: %s' % (type(e).__name__, e))
    return compare(v, got, sort)


def check_one(v, kwargs, cache=None):
    """-> (text, [(kind, observed)])"""
    try:
        with common.caught_warnings() as cw:
            text = pp().pformat(v, **kwargs)
    except BaseException as e:
        return None, [('pformat-raised', '%s: %s' % (type(e).__name__, e))]
    out = []
    if cw.bad:
        out.append(('fallback-warning', cw.bad[0]))
    sort = bool(kwargs.get('sort_dict_keys'))
    key = (text, sort)
    if cache is not None and key in cache:
        r = cache[key]
    else:
        r = check_text(v, text, sort)
        if cache is not None:
            cache[key] = r
    if r:
        out.append((r[0], '%s; output %s' % (r[1], common.shrink_repr(text, 200))))
    return text, out


def kw(cfg, sort):
    return {'width': cfg[0], 'ribbon_width': cfg[1], 'indent': cfg[2], 'sort_dict_keys': bool(sort)}


def record(acc, v, kwargs, fails):
    case = {'value': repr(v), 'kwargs': kwargs}
    tags = tags_of(v, kwargs)
    for kind, observed in fails:
        common.add_violation(
            acc, kind, case, observed,
            'eval("(" + pformat(v, **kwargs) + "\\n)") type-exactly equal to v, no fallback warning', tags)
        if 'no-room-at-empty' not in tags:
            acc['counters']['viol-not-tagged-no-room-at-empty'] = \
                acc['counters'].get('viol-not-tagged-no-room-at-empty', 0) + 1


def short(v):
    return hashlib.md5(canon(v).encode('utf-8', 'backslashreplace')).hexdigest()[:12]


def run_value(acc, v, configs, sorts, label=None):
    cache = {}
    nontrivial = False
    for sort in sorts:
        for cfg in configs:
            kwargs = kw(cfg, sort)
            text, fails = check_one(v, kwargs, cache)
            acc['evaluations'] += 1
            if text is not None and '\n' in text:
                nontrivial = True
            if fails:
                record(acc, v, kwargs, fails)
            elif len(acc['samples']) < 3 and text is not None and '\n' in text and cfg[0] >= 5:
                acc['samples'].append({'value': repr(v), 'kwargs': kwargs, 'output': text})
    if nontrivial and isinstance(v, (list, tuple, set, frozenset, dict, str, bytes)):
        acc['nontrivial'].add(label or short(v))


# ---------------------------------------------------------------------------------------------
# domains
def dedupe(values):
    seen = set()
    out = []
    for v in values:
        c = canon(v)
        if c not in seen:
            seen.add(c)
            out.append(v)
    return out


def wrap(leaf, depth, kind):
    v = leaf
    for i in range(depth):
        k = kind if kind != 'mixed' else ('list', 'dict', 'tuple')[i % 3]
        if k == 'list':
            v = [v]
        elif k == 'tuple':
            v = (v,)
        else:
            v = {'k': v}
    return v


def nested_values(tier):
    depths = QUICK_DEPTHS if tier == 'quick' else range(1, 31)
    out = []
    for leaf in common.LEAVES:
        for d in depths:
            for kind in ('list', 'tuple', 'dict', 'mixed'):
                out.append(wrap(leaf, d, kind))
    # an empty string / bytes as a dict key deep down
    for d in depths:
        out.append(wrap({'': 1}, d, 'list'))
        out.append(wrap({b'': 1}, d, 'mixed'))
    # large values: long containers, long strings, wide and deep mixtures
    out.extend(common.large_values())
    return out


def random_case(seed, i):
    rng = random.Random('c01:%d:%d' % (seed, i))
    v = common.random_value(rng)
    if rng.random() < 0.3:
        for _ in range(rng.randint(1, 30)):
            k = rng.choice(['list', 'tuple', 'dict', 'pad'])
            if k == 'list':
                v = [v]
            elif k == 'tuple':
                v = (v,)
            elif k == 'dict':
                v = {rng.choice(['k', 0, '', b'q', None]): v}
            else:
                v = [rng.choice(common.LEAVES), v]
    cfg = common.random_config(rng)
    return v, kw(cfg, rng.random() < 0.5)


_WORK = {}


def _shard(spec):
    part, i, n = spec
    acc = common.new_acc()
    t0 = time.process_time()
    if part == 'exh':
        for v in _WORK['trees'][i::n]:
            run_value(acc, v, _WORK['configs'], (False, True))
    elif part == 'exh4':
        for v in _WORK['trees4'][i::n]:
            run_value(acc, v, SUBGRID, (False, True))
    elif part == 'nest':
        for v in _WORK['nested'][i::n]:
            run_value(acc, v, _WORK['configs'] + [DEFAULT_CFG], (False,))
    else:
        seed, count = _WORK['seed'], _WORK['nrandom']
        for j in range(i, count, n):
            v, kwargs = random_case(seed, j)
            text, fails = check_one(v, kwargs)
            acc['evaluations'] += 1
            if text is not None and '\n' in text:
                acc['nontrivial'].add('rand:%d' % j)
            if fails:
                record(acc, v, kwargs, fails)
    acc['counters']['cpu_s:' + part] = round(time.process_time() - t0, 2)
    acc['nontrivial'] = sorted(acc['nontrivial'])
    return acc


def run(tier='quick', seed=0, jobs=16):
    tier, seed = common.tier_of(tier), common.seed_of(seed)
    t0 = time.time()
    max_nodes = 3 if tier == 'quick' else 4
    nrandom = 2000 if tier == 'quick' else 30000
    raw = list(common.value_trees(max_nodes))
    trees = dedupe(raw)
    trees4 = []
    if tier == 'quick':
        seen = set(map(canon, trees))
        trees4 = [v for v in dedupe(common.value_trees(4)) if canon(v) not in seen]
    _WORK.clear()
    _WORK.update(trees=trees, trees4=trees4, configs=common.config_grid(tier), nested=nested_values(tier),
                 seed=seed, nrandom=nrandom)
    pp()  # import before fork
    n = max(1, jobs) * 8
    shards = ([('exh4', i, n) for i in range(n if trees4 else 0)] + [('exh', i, n) for i in range(n)] +
              [('nest', i, n) for i in range(n)] + [('rand', i, n) for i in range(n)])
    acc = common.merge(common.pmap(_shard, shards, jobs))
    acc['counters']['wall_s'] = round(time.time() - t0, 1)
    acc['counters'].setdefault('viol-not-tagged-no-room-at-empty', 0)
    bounds = {
        'tier': tier, 'seed': seed,
        'exhaustive_trees': 'all value trees with <= %d nodes over common.LEAVES (%d leaves + 5 empty '
                            'containers; list/tuple/set/frozenset/dict): %d trees, %d after removing '
                            'type-exact duplicates' % (max_nodes, len(common.LEAVES), len(raw), len(_WORK['trees'])),
        'configs': '%d (width, ribbon_width, indent) triples of common.config_grid(%r) x sort_dict_keys in '
                   '{False, True}' % (len(_WORK['configs']), tier),
        'exhaustive_4_nodes_subgrid': ('%d further trees with exactly 4 nodes x configurations %s x sort_dict_keys in '
                                       '{False, True}' % (len(trees4), SUBGRID)) if trees4 else 'n/a (full grid above)',
        'nested': '%d values: every leaf (and {"": 1}, {b"": 1}) below %s nested list / 1-tuple / '
                  'single-key dict / mixed wrappers, grid + default (79, 71, 4), sort_dict_keys=False'
                  % (len(_WORK['nested']), 'depths %s' % (list(QUICK_DEPTHS),) if tier == 'quick' else 'depths 1..30'),
        'random': '%d seeded common.random_value trees (30%% wrapped 1..30 levels deeper), '
                  'common.random_config (width, ribbon 1..200, indent 1..8), random sort_dict_keys' % nrandom,
        'determinism': 'given (tier, seed) the inputs are fixed; the iteration order of sets holding str/bytes follows '
                       'the hash seed of the interpreter, so the split between violation kinds can move by a few '
                       'cases between runs unless PYTHONHASHSEED is fixed',
        'not_covered': 'depth / max_seq_len truncation (left at defaults None / 1000), compact, values > 4 nodes '
                       'outside the random sample',
    }
    rule = ('a value (identified by its type-exact canonical form) that is a container or str/bytes and whose '
            'output spans several lines under at least one configuration; random cases count individually')
    return common.report_counted(acc, rule, bounds, exhaustive=True, max_violations=60)


def replay(case):
    v = eval(case['value'], dict(NS))
    text, fails = check_one(v, dict(case['kwargs']))
    if fails:
        return {'violated': True, 'detail': '; '.join('%s: %s' % f for f in fails)}
    return {'violated': False, 'detail': 'output %s evaluates back' % common.shrink_repr(text, 200)}
