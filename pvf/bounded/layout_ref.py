"""Executable reference semantics of documents, written from the statement of C04 for the bounded checks
(independent of the engine and of the z3 encoding), plus document enumeration.

render(doc, oracle, W, R) lays a document out under an *assignment* of flat/broken to its groups and fill
items: `oracle` is a callable asked, in document order, for the next decision (True = flat).
It also records, per group, (decision, indent, column where its text starts, index range of its output).
"""
import itertools
import random
import sys

from . import common



def mods():
    pp = common.load_repo()
    import prettyprinter.doc as D
    import prettyprinter.doctypes as T
    import prettyprinter.layout as L
    import prettyprinter.render as R
    import prettyprinter.sdoctypes as S
    return D, T, L, R, S


# ---------------------------------------------------------------------------------------------
class NeedDecision(Exception):
    pass


def forced(T, d, flat=True):
    """a hard line or an always_break is reachable when d is rendered flat (statement: such content is always
    broken and forces every enclosing group to break).  Contextual documents are opaque here."""
    if isinstance(d, str) or d is T.NIL:
        return False
    if d is T.HARDLINE or isinstance(d, T.HardLine):
        return 'HL'
    if isinstance(d, T.AlwaysBreak):
        return 'AB'
    if isinstance(d, (T.Concat, T.Fill)):
        for x in d.docs:
            f = forced(T, x)
            if f:
                return f
        return False
    if isinstance(d, (T.Nest, T.Group, T.Annotated)):
        return forced(T, d.doc)
    if isinstance(d, T.FlatChoice):
        return forced(T, d._when_flat)
    if isinstance(d, T.Contextual) and getattr(d.fn, '__qualname__', '').startswith('align.'):
        # align / hang: the result is Nest(column - indent, doc) whatever the arguments
        return forced(T, d.fn(indent=0, column=0, page_width=80, ribbon_width=80))
    return False


def align_body(d):
    """the document an align(...) wraps (the free variable `doc` of its evaluator), None for any other contextual document"""
    fn = d.fn
    if not getattr(fn, '__qualname__', '').startswith('align.'):
        return None
    try:
        names = fn.__code__.co_freevars
        return fn.__closure__[names.index('doc')].cell_contents
    except Exception:       # noqa
        return None


def is_empty(T, d):
    """renders to nothing in every mode"""
    if d is T.NIL or (isinstance(d, str) and d == ''):
        return True
    if isinstance(d, T.Concat):
        return all(is_empty(T, x) for x in d.docs)
    if isinstance(d, T.Group):
        return is_empty(T, d.doc)
    return False


class Ref:
    def __init__(self, mods_, W, R, decide, trust_forced=True, normalize_ctx=False):
        self.D, self.T, self.L, self.Rm, self.S = mods_
        self.normalize_ctx = normalize_ctx      # classification aid only: evaluate contextual documents the way the engine does
        self.W, self.R = W, R
        self.decide = decide            # callable(kind, doc) -> bool
        self.out = []                   # ('t', str) | ('l', indent) | ('push', ann) | ('pop', ann)
        self.col = 0
        self.groups = []                # dicts: flat, indent, start (index in out), end, forced
        self.trust_forced = trust_forced

    def text(self, s):
        self.out.append(('t', s))
        self.col += len(s)

    def run(self, i, flat, d):
        T = self.T
        if d is T.NIL:
            return
        if isinstance(d, str):
            self.text(d)
        elif d is T.HARDLINE or isinstance(d, T.HardLine):
            self.out.append(('l', i))
            self.col = i
        elif isinstance(d, T.Concat):
            for x in d.docs:
                self.run(i, flat, x)
        elif isinstance(d, T.Nest):
            self.run(i + d.indent, flat, d.doc)
        elif isinstance(d, T.AlwaysBreak):
            self.run(i, False, d.doc)
        elif isinstance(d, T.Annotated):
            self.out.append(('push', d.annotation))
            self.run(i, flat, d.doc)
            self.out.append(('pop', d.annotation))
        elif isinstance(d, T.FlatChoice):
            self.run(i, flat, d._when_flat if flat else d._when_broken)
        elif isinstance(d, T.Group):
            f = forced(T, d.doc)
            rec = dict(indent=i, start=len(self.out), col=self.col, forced=f, doc=d)
            if is_empty(T, d.doc):
                gflat = False
                rec['decided'] = False
            elif f and self.trust_forced:
                gflat = False           # forced content: the group is broken, there is nothing to decide
                rec['decided'] = False
            else:
                gflat = bool(self.decide('group', d))
                rec['decided'] = True
            rec['flat'] = gflat
            rec['illegal'] = bool(f and gflat)
            self.groups.append(rec)
            self.run(i, gflat, d.doc)
            rec['end'] = len(self.out)
        elif isinstance(d, T.Fill):
            # statement: "some assignment of flat/broken to its groups and fill items": every item takes its
            # own decision (the engine's pairwise choices are special cases); items without content take none
            for x in d.docs:
                if is_empty(T, x):
                    continue
                self.run(i, bool(self.decide('fill', x)), x)
        elif isinstance(d, T.Contextual):
            inner = align_body(d)
            if inner is not None and not self.normalize_ctx:
                # align / hang, from the statement and independent of the library's evaluator: the aligned document is
                # rendered with the indentation set to the column at which it starts
                self.run(self.col, flat, inner)
                return
            sub = d.fn(indent=i, column=self.col, page_width=self.W, ribbon_width=self.R)
            if self.normalize_ctx:
                sub = T.normalize_doc(sub)
            self.run(i, flat, sub)
        else:
            raise ValueError(d)


def engine_out(mods_, sdocs):
    D, T, L, Rm, S = mods_
    out = []
    for s in sdocs:
        if isinstance(s, str):
            out.append(('t', s))
        elif isinstance(s, S.SLine):
            out.append(('l', s.indent))
        elif isinstance(s, S.SAnnotationPush):
            out.append(('push', s.value))
        elif isinstance(s, S.SAnnotationPop):
            out.append(('pop', s.value))
        else:
            out.append(('?', repr(s)))
    return out


def norm_out(out):
    """merge adjacent texts, drop empty texts (fragment boundaries are not observable)"""
    res = []
    for o in out:
        if o[0] == 't':
            if not o[1]:
                continue
            if res and res[-1][0] == 't':
                res[-1] = ('t', res[-1][1] + o[1])
                continue
        res.append(o)
    return res


def match(mods_, doc, W, R, target, max_nodes=20000, trust_forced=True, normalize_ctx=False):
    """Search an assignment under which the reference rendering equals `target` (engine output, normalised).
    DFS over decision prefixes; a prefix is abandoned as soon as the text rendered so far contradicts target.
    Returns (Ref of the match | None, number of assignments tried)."""
    target = norm_out(target)
    ttext = flat_chars(target)
    tried = 0
    stack = [[]]
    while stack:
        prefix = stack.pop()
        tried += 1
        if tried > max_nodes:
            return None, tried
        pos = [0]

        def decide(kind, d, prefix=prefix, pos=pos):
            if pos[0] < len(prefix):
                v = prefix[pos[0]]
                pos[0] += 1
                return v
            raise NeedDecision()
        r = Ref(mods_, W, R, decide, trust_forced=trust_forced, normalize_ctx=normalize_ctx)
        try:
            r.run(0, False, doc)
        except NeedDecision:
            if flat_chars(norm_out(r.out)) == ttext[:len(flat_chars(norm_out(r.out)))]:
                stack.append(prefix + [True])
                stack.append(prefix + [False])      # explored first: matches with few flat decisions come first
            continue
        if norm_out(r.out) == target:
            r.decisions = prefix
            return r, tried
    return None, tried


def match_all(mods_, doc, W, R, target, max_nodes=20000, trust_forced=True, normalize_ctx=False):
    """Generator over EVERY assignment under which the reference rendering equals `target` (same search as match).
    After exhaustion `match_all.complete` semantics: the generator's return value (StopIteration.value) is True when the
    whole space was explored within max_nodes."""
    target = norm_out(target)
    ttext = flat_chars(target)
    tried = 0
    stack = [[]]
    while stack:
        prefix = stack.pop()
        tried += 1
        if tried > max_nodes:
            return False
        pos = [0]

        def decide(kind, d, prefix=prefix, pos=pos):
            if pos[0] < len(prefix):
                v = prefix[pos[0]]
                pos[0] += 1
                return v
            raise NeedDecision()
        r = Ref(mods_, W, R, decide, trust_forced=trust_forced, normalize_ctx=normalize_ctx)
        try:
            r.run(0, False, doc)
        except NeedDecision:
            if flat_chars(norm_out(r.out)) == ttext[:len(flat_chars(norm_out(r.out)))]:
                stack.append(prefix + [True])
                stack.append(prefix + [False])
            continue
        if norm_out(r.out) == target:
            r.decisions = prefix
            yield r
    return True


def flat_chars(out):
    """the output as a character/marker sequence, for prefix comparison"""
    res = []
    for o in out:
        if o[0] == 't':
            res.extend(o[1])
        else:
            res.append(o)
    return res


def lines_of(out):
    """[(indent, text, [item indices])] of the output lines"""
    lines = [[0, '', []]]
    for idx, o in enumerate(out):
        if o[0] == 'l':
            lines.append([o[1], ' ' * o[1], [idx]])
        elif o[0] == 't':
            lines[-1][1] += o[1]
            lines[-1][2].append(idx)
        else:
            lines[-1][2].append(idx)
    return lines


# ---------------------------------------------------------------------------------------------
# documents
def build(mods_, spec):
    """spec: nested lists -> document built with the PUBLIC combinators"""
    D, T, L, Rm, S = mods_
    k = spec[0]
    if k == 't':
        return spec[1]
    if k == 'nil':
        return D.NIL
    if k == 'line':
        return D.LINE
    if k == 'softline':
        return D.SOFTLINE
    if k == 'hardline':
        return D.HARDLINE
    if k == 'cat':
        return D.concat([build(mods_, x) for x in spec[1]])
    if k == 'nest':
        return D.nest(spec[1], build(mods_, spec[2]))
    if k == 'group':
        return D.group(build(mods_, spec[1]))
    if k == 'ab':
        return D.always_break(build(mods_, spec[1]))
    if k == 'fc':
        return D.flat_choice(when_broken=build(mods_, spec[1]), when_flat=build(mods_, spec[2]))
    if k == 'fill':
        return D.fill([build(mods_, x) for x in spec[1]])
    if k == 'align':
        return D.align(build(mods_, spec[1]))
    if k == 'hang':
        return D.hang(spec[1], build(mods_, spec[2]))
    if k == 'ann':
        return D.annotate(spec[1], build(mods_, spec[2]))
    raise ValueError(spec)


LEAVES = [['t', 'a'], ['t', 'bb'], ['t', ''], ['line'], ['softline'], ['hardline'], ['nil']]
CLASSIC_LEAVES = [['t', 'a'], ['t', 'bbb'], ['line'], ['softline'], ['hardline']]


def specs(max_nodes, classic=False, annotations=True):
    """all document specs with <= max_nodes nodes (generator, smallest first)"""
    memo = {}
    leaves = CLASSIC_LEAVES if classic else LEAVES

    def gen(n):
        if n in memo:
            return memo[n]
        out = []
        if n == 1:
            out.extend(leaves)
        else:
            for x in gen(n - 1):
                out.append(['group', x])
                out.append(['nest', 2, x])
                out.append(['ab', x])
                out.append(['align', x])
                if not classic:
                    out.append(['hang', 1, x])
                    if annotations:
                        out.append(['ann', 'A', x])
            for parts in common.compositions(n - 1, 3):
                if len(parts) < 2:
                    continue
                for kids in itertools.product(*[gen(k) for k in parts]):
                    out.append(['cat', list(kids)])
                    if not classic:
                        out.append(['fill', list(kids)])
                        if len(kids) == 2:
                            out.append(['fc', kids[0], kids[1]])
        memo[n] = out
        return out
    for n in range(1, max_nodes + 1):
        for s in gen(n):
            yield s


def random_spec(rng, size, classic=False):
    if size <= 1:
        return rng.choice(CLASSIC_LEAVES if classic else LEAVES)
    kinds = ['group', 'group', 'nest', 'cat', 'cat', 'cat', 'ab', 'align']
    if not classic:
        kinds += ['fill', 'fc', 'hang', 'ann']
    k = rng.choice(kinds)
    if k in ('group', 'ab', 'align'):
        return [k, random_spec(rng, size - 1, classic)]
    if k == 'nest':
        return ['nest', rng.choice([1, 2, 4]), random_spec(rng, size - 1, classic)]
    if k == 'hang':
        return ['hang', rng.choice([1, 2]), random_spec(rng, size - 1, classic)]
    if k == 'ann':
        return ['ann', rng.choice(['A', 'B']), random_spec(rng, size - 1, classic)]
    if k == 'fc':
        a = rng.randint(1, max(1, size - 2))
        return ['fc', random_spec(rng, a, classic), random_spec(rng, max(1, size - 1 - a), classic)]
    n = rng.randint(2, 4)
    rest = size - 1
    kids = []
    for j in range(n):
        share = max(1, rest // (n - j)) if j < n - 1 else max(1, rest)
        share = rng.randint(1, share)
        kids.append(random_spec(rng, share, classic))
        rest -= share
    return [k, kids]


def has_kind(spec, kinds):
    if spec[0] in kinds:
        return True
    for x in spec[1:]:
        if isinstance(x, list):
            if x and isinstance(x[0], str):
                if has_kind(x, kinds):
                    return True
            else:
                for y in x:
                    if isinstance(y, list) and has_kind(y, kinds):
                        return True
    return False


def ribbon_of(W, frac):
    return max(0, min(W, round(frac * W)))


def large_specs():
    """A few LARGE documents (long concats, many stack entries behind a group, deep nesting of groups, wide pages): sizes the
    exhaustive and the small random domains never reach.  [(spec, [widths], [fractions])].  Added after seeded faults that were
    guarded by a size threshold (a concat of more than 32 children pushed in slices, a lookahead cut after 8 stack entries /
    400 steps) went unnoticed by the bounded stand-ins."""
    out = []
    items = []
    for i in range(20):
        items += [['line'], ['t', 'item%02d' % i]]
    body = ['nest', 4, ['cat', items]]
    for wrap in (lambda d: d, lambda d: ['ab', d], lambda d: ['group', d]):
        out.append((['cat', [['t', 'key: '], wrap(body)]], [20, 30, 60], [1.0, 0.5]))
    for n in (8, 12, 20):
        tail = [['t', 'x'] for _ in range(n)] + [['t', 'yyyyyyyyyy']]
        d = ['cat', [['group', ['cat', [['t', 'aaaaaaaa'], ['line'], ['t', 'bbbbbbbb']]]]] + tail]
        out.append((d, [30, 28 + n, 40 + n], [1.0]))
        out.append((['nest', 4, d], [30, 28 + n], [1.0]))
    deep = ['t', 'x']
    for _ in range(45):
        deep = ['group', ['cat', [['t', '('], ['nest', 1, ['cat', [['softline'], deep]]], ['softline'], ['t', ')']]]]
    out.append((deep, [100, 200], [1.0]))
    wide = []
    for i in range(150):
        wide += [['t', 'ab'], ['line']]
    out.append((['group', ['cat', wide[:-1]]], [150 * 3 - 1, 150 * 3 + 9], [1.0]))
    return out
