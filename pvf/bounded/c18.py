r"""C18 (bounded): all entry points and configuration layers agree.

For every history of 0..2 (quick) / 0..3 (thorough) set_default_config calls drawn from a small list of
argument sets, every combination of explicitly passed settings (indent {UNSET,2} x width {UNSET,20} x
depth {UNSET,1} x ribbon_width {UNSET,10} x max_seq_len {UNSET,2} x sort_dict_keys {UNSET,True} = 64) and a
few values that are sensitive to each of the six settings, on the real code:

  get-default-config        after each set_default_config call get_default_config() == the previous
                            defaults overwritten with exactly the given settings ('style' is not a
                            config key); the view is read-only (item assignment raises TypeError and
                            changes nothing)
  explicit-over-defaults    pformat(v, **explicit) under the changed defaults == pformat(v, **full) computed
                            under the PRISTINE defaults, full = model defaults overwritten with explicit,
                            all six passed explicitly
  positional-args           pformat(v, indent, width, depth, ...) / pprint(v, stream, indent, width, depth, ...)
                            positional == keyword form (only when the three are explicit)
  pprint-is-pformat-plus-end  pprint(v, stream=StringIO(), end=e, **explicit) wrote pformat(v, **explicit) + e
                            for e in '\n', '', 'X'; pprint(v, **explicit) writes the same + '\n' to sys.stdout
  cpprint-stripped          cpprint(v, stream=.., end=e, **explicit) with SGR sequences stripped == the same
  PrettyPrinter-pformat     PrettyPrinter(**explicit).pformat(v) == pformat(v, **explicit)
  PrettyPrinter-pprint      PrettyPrinter(**explicit).pprint(v) writes that + '\n' to sys.stdout;
                            PrettyPrinter(stream=s, **explicit).pprint(v) writes it to s
  pretty-repr               (explicit == {} only) pretty_repr(inst) == repr(inst) == pformat(inst) for an
                            instance of a registered type whose class has __repr__ = pretty_repr

Every history starts from the pristine defaults and restores them afterwards (set_default_config with the
saved values; prettyprinter._default_config is rebound directly only if that did not restore them).
"""
import contextlib
import importlib
import io
import itertools
import re
import time
import warnings

from . import common

SGR_RE = re.compile(r'\x1b\[[0-9;]*m')
KEYS = ['indent', 'width', 'depth', 'ribbon_width', 'max_seq_len', 'sort_dict_keys']
EXPLICIT_DOMAIN = {'indent': 2, 'width': 20, 'depth': 1, 'ribbon_width': 10, 'max_seq_len': 2,
                   'sort_dict_keys': True}

# argument sets of set_default_config (no `indent` parameter exists)
ARGSETS = [
    {},
    {'width': 30},
    {'ribbon_width': 15},
    {'depth': 2},
    {'max_seq_len': 3},
    {'sort_dict_keys': True},
    {'width': 25, 'ribbon_width': 12},
    {'depth': None, 'max_seq_len': 1000, 'width': 79},
    {'sort_dict_keys': False, 'ribbon_width': 71},
    {'style': 'light', 'width': 40},
    {'width': 60, 'ribbon_width': 100},          # a ribbon wider than the page is stored as given
    {'width': 200, 'depth': 0, 'sort_dict_keys': False},
]

VALUE_EXPRS = [
    "{'b': [1, 2, 3, [4, [5]]], 'a': 'x' * 12, 'c': {'z': 1, 'y': (1, 2, 3)}}",
    "[{'k2': 'word ' * 6, 'k1': list(range(5))}, ('t', {3: 'c', 1: 'a', 2: 'b'}, [[['deep']]])]",
    "Pt([1, 2, 3], name='n' * 15, opts={'y': [[0]], 'x': None})",
]
PT_INDEX = 2

RULE = ("non-trivial: the default configuration differs from the pristine one or at least one setting is "
        "passed explicitly; key = entry point + set of changed defaults + set of explicit settings + value")


class _Env:
    def __init__(self):
        self.pp = common.load_repo()
        self.color = importlib.import_module('prettyprinter.color')
        pp = self.pp
        self.pristine = dict(pp.get_default_config())
        self.pristine_style = self.color.default_style

        class Pt:
            def __init__(self, *args, **kwargs):
                self.args, self.kwargs = args, kwargs
            __repr__ = pp.pretty_repr
        Pt.__module__, Pt.__qualname__ = '__main__', 'Pt'

        @pp.register_pretty(Pt)
        def _pretty_pt(value, ctx):
            return pp.pretty_call(ctx, Pt, *value.args, **value.kwargs)

        self.ns = {'Pt': Pt}
        self.values = [eval(e, dict(self.ns)) for e in VALUE_EXPRS]
        self.ref_cache = {}

    def ref(self, vi, full):
        """pformat(value, **full) computed under the pristine defaults"""
        key = (vi, tuple(full[k] for k in KEYS))
        if key not in self.ref_cache:
            pp = self.pp
            cur = pp._default_config
            pp._default_config = dict(self.pristine)
            try:
                self.ref_cache[key] = pp.pformat(self.values[vi], **full)
            finally:
                pp._default_config = cur
        return self.ref_cache[key]

    def restore(self, counters=None):
        pp = self.pp
        try:
            pp.set_default_config(**{k: v for k, v in self.pristine.items() if k != 'indent'})
        except Exception:
            pass
        self.color.default_style = self.pristine_style
        if dict(pp.get_default_config()) != self.pristine:
            pp._default_config = dict(self.pristine)
            if counters is not None:
                counters['restore_by_rebinding'] = counters.get('restore_by_rebinding', 0) + 1


_ENV = None


def env():
    global _ENV
    if _ENV is None:
        _ENV = _Env()
    return _ENV


def explicit_combos():
    out = []
    for mask in itertools.product([False, True], repeat=len(KEYS)):
        out.append({k: EXPLICIT_DOMAIN[k] for k, m in zip(KEYS, mask) if m})
    # an explicit None is a value, not "unset": depth=None / max_seq_len=None must override a non-None default
    out.append({'depth': None})
    out.append({'max_seq_len': None})
    out.append({'depth': None, 'max_seq_len': None, 'width': 20})
    out.append({'depth': None, 'indent': 2, 'sort_dict_keys': True})
    # explicit values that are falsy or equal to a default are values too (a truthiness test, `x or default`, or a comparison
    # with the default in place of the sentinel test would drop them)
    out.append({'sort_dict_keys': False})
    out.append({'depth': 0})
    out.append({'indent': 0})
    out.append({'sort_dict_keys': False, 'depth': 0, 'width': 20})
    out.append({'width': 79, 'ribbon_width': 71, 'indent': 4, 'max_seq_len': 1000})
    out.append({'width': 300, 'ribbon_width': 400})
    return out


def _call(fn):
    """-> ('ok', result) | ('raised', 'Type: msg')"""
    try:
        return 'ok', fn()
    except Exception as e:  # noqa
        return 'raised', '%s: %s' % (type(e).__name__, str(e)[:120])


def check_history(history, explicits, value_idxs, acc=None, only=None):
    """Runs one history of set_default_config calls, then all entry-point checks.  -> violations"""
    E = env()
    pp = E.pp
    vs = []
    cnt = acc['counters'] if acc is not None else {}

    def ev(key=None):
        if acc is not None:
            acc['evaluations'] += 1
            if key:
                acc['nontrivial'].add(key)

    def bad(kind, case, observed, expected, tags):
        if only is None or kind == only:
            vs.append({'kind': kind, 'case': dict(case, check=kind), 'observed': common.shrink_repr(observed, 200),
                       'expected': common.shrink_repr(expected, 200), 'tags': sorted(tags)})

    E.restore(cnt)
    model = dict(E.pristine)
    try:
        # ---- the configuration layer
        for i, args in enumerate(history):
            case = {'history': history[:i + 1], 'explicit': {}, 'values': []}
            st, r = _call(lambda: pp.set_default_config(**args))
            for k, v in args.items():
                if k != 'style':
                    model[k] = v
            ev()
            tags = ['set:' + k for k in sorted(args)] or ['set:nothing']
            if st != 'ok':
                bad('get-default-config', case, r, 'no exception', tags)
                continue
            got = dict(pp.get_default_config())
            if got != model:
                bad('get-default-config', case, got, model, tags)
            ev()
            view = pp.get_default_config()

            def assign():
                view['width'] = 1
            st, r = _call(assign)
            if st == 'ok' or not r.startswith('TypeError') or dict(pp.get_default_config()) != model:
                bad('get-default-config', case, 'assignment through the view: %s, config %r' %
                    (r, dict(pp.get_default_config())), 'TypeError, config unchanged', tags + ['read-only'])
        changed = sorted(k for k in KEYS if model[k] != E.pristine[k])
        # ---- the entry points
        for explicit in explicits:
            full = dict(model)
            full.update(explicit)
            etags = ['explicit:' + k for k in KEYS if k in explicit] or ['explicit:none']
            dtags = ['default-changed:' + k for k in changed]
            for vi in value_idxs:
                v = E.values[vi]
                case = {'history': history, 'explicit': explicit, 'values': [vi]}
                ntkey = None
                if changed or explicit:
                    ntkey = '%s|%s|%d' % (','.join(changed), ','.join(k for k in KEYS if k in explicit), vi)
                ref = E.ref(vi, full)
                # pformat
                ev(ntkey and 'pformat|' + ntkey)
                st, text = _call(lambda: pp.pformat(v, **explicit))
                if st != 'ok' or text != ref:
                    bad('explicit-over-defaults', case, text, ref, etags + dtags)
                    if st != 'ok':
                        continue
                if all(k in explicit for k in ('indent', 'width', 'depth')):
                    rest = {k: x for k, x in explicit.items() if k not in ('indent', 'width', 'depth')}
                    ev(ntkey and 'positional|' + ntkey)
                    st, t2 = _call(lambda: pp.pformat(v, explicit['indent'], explicit['width'], explicit['depth'], **rest))
                    if st != 'ok' or t2 != text:
                        bad('positional-args', case, t2, text, ['ep:pformat'] + etags)
                    s = io.StringIO()
                    st, t2 = _call(lambda: pp.pprint(v, s, explicit['indent'], explicit['width'], explicit['depth'], **rest))
                    if st != 'ok' or s.getvalue() != text + '\n':
                        bad('positional-args', case, t2 if st != 'ok' else s.getvalue(), text + '\n', ['ep:pprint'] + etags)
                # pprint
                for end in ('\n', '', 'X'):
                    ev(ntkey and 'pprint|' + ntkey)
                    s = io.StringIO()
                    st, r = _call(lambda: pp.pprint(v, stream=s, end=end, **explicit))
                    if st != 'ok' or s.getvalue() != text + end:
                        bad('pprint-is-pformat-plus-end', dict(case, end=end), r if st != 'ok' else s.getvalue(),
                            text + end, ['ep:pprint', 'end:%r' % end] + etags)
                ev(ntkey and 'pprint-stdout|' + ntkey)
                s = io.StringIO()
                with contextlib.redirect_stdout(s):
                    st, r = _call(lambda: pp.pprint(v, **explicit))
                if st != 'ok' or s.getvalue() != text + '\n':
                    bad('pprint-is-pformat-plus-end', case, r if st != 'ok' else s.getvalue(), text + '\n',
                        ['ep:pprint', 'stream:stdout'] + etags)
                # cpprint
                for end in ('\n', 'X'):
                    ev(ntkey and 'cpprint|' + ntkey)
                    s = io.StringIO()
                    st, r = _call(lambda: pp.cpprint(v, stream=s, end=end, **explicit))
                    out = SGR_RE.sub('', s.getvalue())
                    if st != 'ok' or out != text + end:
                        bad('cpprint-stripped', dict(case, end=end), r if st != 'ok' else out, text + end,
                            ['ep:cpprint', 'end:%r' % end] + etags)
                # PrettyPrinter
                ev(ntkey and 'PrettyPrinter.pformat|' + ntkey)
                st, r = _call(lambda: pp.PrettyPrinter(**explicit).pformat(v))
                if st != 'ok' or r != text:
                    bad('PrettyPrinter-pformat', case, r, text, ['PrettyPrinter-shim'] + (['raises'] if st != 'ok' else []))
                ev(ntkey and 'PrettyPrinter.pprint|' + ntkey)
                s = io.StringIO()
                with contextlib.redirect_stdout(s):
                    st, r = _call(lambda: pp.PrettyPrinter(**explicit).pprint(v))
                if st != 'ok' or s.getvalue() != text + '\n':
                    bad('PrettyPrinter-pprint', case, r if st != 'ok' else s.getvalue(), text + '\n',
                        ['PrettyPrinter-shim', 'stream:stdout'] + (['raises'] if st != 'ok' else []))
                ev(ntkey and 'PrettyPrinter.pprint-stream|' + ntkey)
                s = io.StringIO()
                st, r = _call(lambda: pp.PrettyPrinter(stream=s, **explicit).pprint(v))
                if st != 'ok' or s.getvalue() != text + '\n':
                    bad('PrettyPrinter-pprint', case, r if st != 'ok' else s.getvalue(), text + '\n',
                        ['PrettyPrinter-shim', 'stream:given'] + (['raises'] if st != 'ok' else []))
                # pretty_repr
                if vi == PT_INDEX and not explicit:
                    ev('pretty_repr|%s|%d' % (','.join(changed), vi) if changed else None)
                    with common.caught_warnings() as cw:
                        st, r = _call(lambda: pp.pretty_repr(v))
                        st2, r2 = _call(lambda: repr(v))
                    if st != 'ok' or r != text or st2 != 'ok' or r2 != text or cw.log:
                        bad('pretty-repr', case, (r, r2, cw.messages[:1]), text, ['ep:pretty_repr'] + dtags)
    finally:
        E.restore(cnt)
    return vs


def all_histories(max_len):
    out = [[]]
    for n in range(1, max_len + 1):
        out += [list(h) for h in itertools.product(ARGSETS, repeat=n)]
    return out


def _thin(acc, per_key=2):
    vs = acc['violations']
    acc['counters']['violations_before_thinning'] = acc['counters'].get('violations_before_thinning', 0) + len(vs)
    by = {}
    for v in vs:
        by.setdefault((v['kind'], tuple(v['tags'])), []).append(v)
    out = []
    for lst in by.values():
        lst.sort(key=lambda v: len(str(v['case'])))
        out.extend(lst[:per_key])
    acc['violations'] = out
    return acc


def _shard(arg):
    histories = arg
    warnings.simplefilter('ignore')
    acc = common.new_acc()
    explicits = explicit_combos()
    vals = list(range(len(VALUE_EXPRS)))
    for k, h in enumerate(histories):
        acc['violations'].extend(check_history(h, explicits, vals, acc))
        acc['counters']['histories'] = acc['counters'].get('histories', 0) + 1
        if k == 1 and len(h) == 2 and not acc['samples']:
            acc['samples'].append({'history': h, 'explicit': explicits[21], 'values': [0]})
    return _thin(acc)


def sensitivity():
    """which settings change the output of some corpus value (harness validity)"""
    E = env()
    E.restore()
    out = {}
    for k in KEYS:
        out[k] = [vi for vi, v in enumerate(E.values)
                  if E.pp.pformat(v) != E.pp.pformat(v, **{k: EXPLICIT_DOMAIN[k]})]
    for name, args in (('width', {'width': 30}), ('ribbon_width', {'ribbon_width': 15}), ('depth', {'depth': 2}),
                       ('max_seq_len', {'max_seq_len': 3})):
        out['default ' + name] = [vi for vi, v in enumerate(E.values) if E.pp.pformat(v) != E.pp.pformat(v, **args)]
    return out


def run(tier, seed, jobs=16):
    tier, seed = common.tier_of(tier), common.seed_of(seed)
    t0 = time.time()
    warnings.simplefilter('ignore')
    sens = sensitivity()
    insensitive = [k for k, v in sens.items() if not v]
    if insensitive:
        raise RuntimeError('harness: no corpus value is sensitive to %r' % insensitive)
    max_len = 2 if tier == 'quick' else 3
    hs = all_histories(max_len)
    n_shards = max(1, min(len(hs), jobs * 4))
    shards = [hs[i::n_shards] for i in range(n_shards)]
    acc = common.merge(common.pmap(_shard, shards, jobs))
    acc['counters']['wall_s'] = round(time.time() - t0, 1)
    bounds = {'tier': tier, 'seed': seed, 'set_default_config_argument_sets': ARGSETS,
              'history_len': '0..%d' % max_len, 'histories': len(hs), 'explicit_combinations': 64,
              'explicit_domain': EXPLICIT_DOMAIN, 'values': VALUE_EXPRS, 'sensitivity': sens,
              'entry_points': ['pformat (keyword, positional)', 'pprint (stream, 3 ends; stdout; positional)',
                               'cpprint (2 ends, SGR stripped)', 'PrettyPrinter.pformat',
                               'PrettyPrinter.pprint (stdout; stream=)', 'pretty_repr / __repr__ (all-defaults only)']}
    return common.report(acc, RULE, bounds, exhaustive=True)


def replay(case):
    warnings.simplefilter('ignore')
    history = case.get('history', [])
    explicit = case.get('explicit', {})
    vals = case.get('values', [])
    vs = check_history(history, [explicit] if vals else [], vals, only=case.get('check'))
    if 'end' in case:
        vs = [v for v in vs if v['case'].get('end') == case['end']] or vs
    if not vs:
        return {'violated': False, 'detail': 'all postconditions hold'}
    return {'violated': True, 'detail': '; '.join('%s: observed %s, expected %s' % (v['kind'], v['observed'], v['expected'])
                                                  for v in vs[:3])}
