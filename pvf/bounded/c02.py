"""C02 (bounded): string and bytes literals are reproduced exactly, however they are split.

Checks on the real code (prettyprinter imported through common.load_repo()):

A. ``pformat(container(s), width=w)`` for a str/bytes value ``s`` in six placements
     top        s                  sole       [s]               many     [0, s, 1]
     dict-key   {s: 0}             dict-value {0: s}            call-arg Box(s)   (Box: user type printed
                                                                                   through pretty_call)
   (the neighbours are ints, so every STRING token of the output belongs to ``s``):
     pformat-raised / timeout      pformat returns within 10 s
     fallback-warning              no "raised an exception" warning
     not-parseable                 '(' + text + '\\n)' parses (ast) and tokenizes
     structure-mismatch            the evaluated expression is type-exactly the container (with Box args)
     literal-at-position           the AST node at the position of ``s`` is a constant equal to ``s`` (same type)
     literal-missing               there is at least one STRING token
     empty-piece                   no STRING token is an empty literal, unless ``s`` is empty and is printed
                                   as exactly one literal
     bytes-prefix                  every piece of a bytes value carries the b prefix; no piece of a str does
     literal-mismatch              the implicit concatenation of the pieces equals ``s``
B. ``str_to_lines(max_len, use_quote, s)`` directly, max_len in 1..12, both quotes:
     non-termination (2 s alarm, and at most len(s) + 1 pieces are pulled), pieces-mismatch
     (join(pieces) == s), empty-piece.
C. ``escape_str_for_quote(q, s)`` for both quotes: escape-mismatch:  eval(prefix + q + result + q) == s.

Tags: 'str' | 'bytes'; the placement (A) or the function name (B, C); 'empty' when len(s) == 0;
'width<=3' (A); 'no-room' (A) when fewer than two columns are left at the position of ``s`` once its
container is broken (width - 4*depth - lead < 2); 'long' for the random long strings.
"""
import ast
import io
import itertools
import random
import signal
import time
import tokenize

from . import common
from .common import type_exact_equal

STR_ALPHABET = ["'", '"', '\\', ' ', '\n', 'a', '\xe9', '\x00', '\x7f', '\U0001F600']
BYTES_ALPHABET = [b"'", b'"', b'\\', b' ', b'\n', b'a', b'\xe9', b'\x00', b'\x7f', b'\xf0']
PLACEMENTS = ('top', 'sole', 'many', 'dict-key', 'dict-value', 'call-arg')
QUICK_WIDTHS = (1, 2, 3, 5, 8, 12, 13, 20, 40, 60)
ALL_WIDTHS = tuple(range(1, 61))
EXPECTED = 'adjacent literals at the position of s concatenate to s, none empty, b prefix iff bytes'

_pp = None


def pp():
    global _pp
    if _pp is None:
        _pp = common.load_repo()
    return _pp


def impl():
    """the module prettyprinter/prettyprinter.py of the tree under check"""
    pp()
    import importlib
    m = importlib.import_module('prettyprinter.prettyprinter')
    assert m.__file__.startswith(common.REPO), m.__file__
    return m


class Box:
    """user type printed through pretty_call"""

    def __init__(self, *args, **kwargs):
        self.args = args
        self.kwargs = kwargs

    def __eq__(self, other):
        return (type(other) is Box and type_exact_equal(self.args, other.args) and
                type_exact_equal(self.kwargs, other.kwargs))

    __hash__ = None

    def __repr__(self):
        parts = [repr(a) for a in self.args] + ['%s=%r' % kv for kv in self.kwargs.items()]
        return 'Box(%s)' % ', '.join(parts)


def _pretty_box(value, ctx):
    return pp().pretty_call(ctx, Box, *value.args, **value.kwargs)


def _register():
    """register the printer of Box once per loaded prettyprinter"""
    from prettyprinter.prettyprinter import is_registered, register_pretty
    if not is_registered(Box, check_superclasses=False, check_deferred=False, register_deferred=False):
        register_pretty(Box)(_pretty_box)


pp()
_register()

NS = {'Box': Box, 'pvf': __import__('pvf')}


# ---------------------------------------------------------------------------------------------
class Timeout(BaseException):
    pass


def _on_alarm(signum, frame):
    raise Timeout()


class time_limit:
    def __init__(self, seconds):
        self.seconds = seconds

    def __enter__(self):
        try:
            self.old = signal.signal(signal.SIGVTALRM, _on_alarm)      # CPU time of this process, not wall time (load-independent)
        except ValueError:      # not in the main thread: no limit
            self.old = None
            return
        signal.setitimer(signal.ITIMER_VIRTUAL, self.seconds)

    def __exit__(self, *a):
        if self.old is not None:
            signal.setitimer(signal.ITIMER_VIRTUAL, 0)
            signal.signal(signal.SIGVTALRM, self.old)
        return False


# ---------------------------------------------------------------------------------------------
def place(s, placement):
    if placement == 'top':
        return s
    if placement == 'sole':
        return [s]
    if placement == 'many':
        return [0, s, 1]
    if placement == 'dict-key':
        return {s: 0}
    if placement == 'dict-value':
        return {0: s}
    if placement == 'call-arg':
        return Box(s)
    raise ValueError(placement)


def node_at(tree, placement):
    b = tree.body
    try:
        if placement == 'top':
            return b
        if placement == 'sole':
            return b.elts[0]
        if placement == 'many':
            return b.elts[1]
        if placement == 'dict-key':
            return b.keys[0]
        if placement == 'dict-value':
            return b.values[0]
        return b.args[0]
    except (AttributeError, IndexError):
        return None


DEPTH_LEAD = {'top': (0, 0), 'sole': (1, 0), 'many': (1, 0), 'dict-key': (1, 0), 'dict-value': (1, 3),
              'call-arg': (1, 0)}


def tags_A(s, placement, width, long=False):
    tags = {'bytes' if isinstance(s, bytes) else 'str', placement}
    if len(s) == 0:
        tags.add('empty')
    if width <= 3:
        tags.add('width<=3')
    d, lead = DEPTH_LEAD[placement]
    if width - 4 * d - lead < 2:
        tags.add('no-room')
    if long:
        tags.add('long')
    return sorted(tags)


def check_output(s, placement, text):
    """[(kind, observed)] for one output text"""
    src = '(' + text + '\n)'
    show = 'output %s' % common.shrink_repr(text, 200)
    try:
        tree = ast.parse(src, mode='eval')
        toks = [t for t in tokenize.generate_tokens(io.StringIO(src).readline) if t.type == tokenize.STRING]
    except (SyntaxError, tokenize.TokenError, IndentationError, ValueError) as e:
        return [('not-parseable', '%s: %s; %s' % (type(e).__name__, e, show))]
    fails = []
    try:
        got = eval(compile(tree, '<pformat>', 'eval'), dict(NS))
        if not type_exact_equal(got, place(s, placement)):
            fails.append(('structure-mismatch', 'evaluates to %s; %s' % (common.shrink_repr(got, 80), show)))
    except BaseException as e:
        fails.append(('structure-mismatch', 'evaluation raised %s: %s; %s' % (type(e).__name__, e, show)))
    node = node_at(tree, placement)
    if not (isinstance(node, ast.Constant) and type(node.value) is type(s) and node.value == s):
        fails.append(('literal-at-position', 'node at the position is %s; %s' % (
            common.shrink_repr(ast.dump(node) if node is not None else None, 80), show)))
    if not toks:
        fails.append(('literal-missing', 'no string literal; %s' % show))
        return fails
    pieces = []
    for t in toks:
        try:
            pieces.append(ast.literal_eval(t.string))
        except BaseException as e:
            return fails + [('not-parseable', 'token %r: %s; %s' % (t.string, e, show))]
    if any(len(p) == 0 for p in pieces) and not (len(s) == 0 and len(pieces) == 1):
        fails.append(('empty-piece', '%d pieces, empty ones among them; %s' % (len(pieces), show)))
    want_b = isinstance(s, bytes)
    for t, p in zip(toks, pieces):
        prefix = t.string[:len(t.string) - len(t.string.lstrip('bBrRuUfF'))]
        if (('b' in prefix.lower()) != want_b) or isinstance(p, bytes) != want_b:
            fails.append(('bytes-prefix', 'piece %s; %s' % (t.string, show)))
            break
    if all(isinstance(p, type(s)) for p in pieces):
        joined = type(s)().join(pieces)
        if joined != s:
            fails.append(('literal-mismatch', 'pieces concatenate to %s; %s' % (common.shrink_repr(joined, 80), show)))
    return fails


def check_A(s, placement, width, cache=None):
    """-> (text, [(kind, observed)])"""
    v = place(s, placement)
    try:
        with common.caught_warnings() as cw:
            with time_limit(10):
                text = pp().pformat(v, width=width)
    except Timeout:
        return None, [('timeout', 'pformat did not return within 10 s')]
    except BaseException as e:
        return None, [('pformat-raised', '%s: %s' % (type(e).__name__, e))]
    fails = []
    if cw.bad:
        fails.append(('fallback-warning', cw.bad[0]))
    if cache is not None and text in cache:
        r = cache[text]
    else:
        r = check_output(s, placement, text)
        if cache is not None:
            cache[text] = r
    return text, fails + r


def case_A(s, placement, width):
    return {'check': 'pformat', 's': repr(s), 'placement': placement, 'value': repr(place(s, placement)),
            'kwargs': {'width': width}}


def run_A(acc, s, widths, long=False):
    nontrivial = False
    for placement in PLACEMENTS:
        cache = {}
        for w in widths:
            text, fails = check_A(s, placement, w, cache)
            acc['evaluations'] += 1
            if text is not None and text.count('\n') >= 1 and placement == 'top':
                nontrivial = True
            for kind, observed in fails:
                common.add_violation(acc, kind, case_A(s, placement, w), observed, EXPECTED,
                                     tags_A(s, placement, w, long))
            if not fails and long and len(s) <= 60 and not acc['samples'] and w == 20 and placement == 'dict-value':
                acc['samples'].append(dict(case_A(s, placement, w), output=text))
    isb = isinstance(s, bytes)
    needs_escape = repr(s)[2 if isb else 1:-1] != (s.decode('latin-1') if isb else s)
    if nontrivial or needs_escape:
        acc['nontrivial'].add('b:' + s.hex() if isb else 's:' + s.encode('utf-8', 'surrogatepass').hex())


# ---------------------------------------------------------------------------------------------
def check_B(s, max_len, q):
    fn = impl().str_to_lines
    pieces = []
    try:
        with time_limit(2):
            for p in fn(max_len, q, s):
                pieces.append(p)
                if len(pieces) > len(s) + 1:
                    return [('non-termination', 'more than len(s) + 1 = %d pieces yielded' % (len(s) + 1))]
    except Timeout:
        return [('non-termination', 'no result within 2 s (%d pieces so far)' % len(pieces))]
    except BaseException as e:
        return [('str_to_lines-raised', '%s: %s' % (type(e).__name__, e))]
    fails = []
    if any(len(p) == 0 for p in pieces):
        fails.append(('empty-piece', 'pieces %r' % (pieces,)))
    try:
        joined = type(s)().join(pieces)
    except TypeError as e:
        joined = e
    if not (type(joined) is type(s) and joined == s):
        fails.append(('pieces-mismatch', 'pieces %s' % common.shrink_repr(pieces, 160)))
    return fails


def check_C(s, q):
    fn = impl().escape_str_for_quote
    try:
        r = fn(q, s)
        lit = ('b' if isinstance(s, bytes) else '') + q + r + q
    except BaseException as e:
        return [('escape-raised', '%s: %s' % (type(e).__name__, e))]
    try:
        got = eval(lit, {})
    except BaseException as e:
        return [('escape-mismatch', 'literal %s does not evaluate: %s' % (lit, e))]
    if not (type(got) is type(s) and got == s):
        return [('escape-mismatch', 'literal %s evaluates to %r' % (lit, got))]
    return []


def tags_BC(s, fn):
    tags = {'bytes' if isinstance(s, bytes) else 'str', fn}
    if len(s) == 0:
        tags.add('empty')
    return sorted(tags)


def run_BC(acc, s):
    for q in ("'", '"'):
        for kind, observed in check_C(s, q):
            common.add_violation(acc, kind, {'check': 'escape_str_for_quote', 's': repr(s), 'use_quote': q},
                                 observed, 'eval(prefix + q + escape_str_for_quote(q, s) + q) == s',
                                 tags_BC(s, 'escape_str_for_quote'))
        acc['evaluations'] += 1
        for max_len in range(1, 13):
            for kind, observed in check_B(s, max_len, q):
                common.add_violation(acc, kind,
                                     {'check': 'str_to_lines', 's': repr(s), 'max_len': max_len, 'use_quote': q},
                                     observed, 'join(pieces) == s, no empty piece, terminates',
                                     tags_BC(s, 'str_to_lines'))
            acc['evaluations'] += 1


# ---------------------------------------------------------------------------------------------
# domains
def exhaustive(alphabet, max_len):
    empty = alphabet[0][:0]
    for n in range(max_len + 1):
        for t in itertools.product(alphabet, repeat=n):
            yield empty.join(t)


WORDS = ['a', 'of', 'the', 'lazy', 'quick', 'it\'s', '"quoted"', 'caf\xe9', 'na\xefve', '中文', 'x\\y',
         'tab\there', 'end.', 'semi;colon', 'under_score', 'hy-phen', '\U0001F600', 'é', '\x00', '1234567890' * 2]


VERY_LONG = [
    # sizes the random family (30..300 characters) never reaches: an unbroken run of several hundred characters after some
    # text, a lone run, many pieces, many escapes, a long whitespace run
    'Authorization: Bearer ' + 'A1b2' * 100,
    'key=' + '0123456789abcdef' * 20 + ' tail words here',
    'x' * 700,
    ('word ' * 150).strip(),
    'pre ' + ' ' * 300 + 'post',
    ('\\n\\t"' + "'") * 40,
    b'sig ' + b'QUJD' * 90,
    b'\\x00\\xff ' * 60,
    'it\'s "mixed" ' * 30 + 'Z' * 280,
]


def random_long(seed, i):
    rng = random.Random('c02:%d:%d' % (seed, i))
    if i < len(VERY_LONG):
        return VERY_LONG[i]
    kind = i % 6
    n = rng.randint(30, 300)
    if kind == 0:      # words separated by single / multiple blanks and newlines
        out = ''
        while len(out) < n:
            out += rng.choice(WORDS) + rng.choice([' ', ' ', ' ', '  ', '\n', ' \n ', '\t'])
        return out[:n]
    if kind == 1:      # no whitespace, non-word separators
        out = ''
        while len(out) < n:
            out += rng.choice(WORDS).replace(' ', '').replace('\t', '') + rng.choice(['-', '/', '.', ',', '::', '\\', "'", '"'])
        return ''.join(c for c in out if not c.isspace())[:n]
    if kind == 2:      # no split point at all
        return ''.join(rng.choice('abcXYZ019_\xe9中') for _ in range(n))
    if kind == 3:      # arbitrary code points incl. controls, quotes, astral
        return ''.join(rng.choice([chr(rng.randrange(0, 128)), chr(rng.randrange(128, 0x3000)),
                                   chr(rng.randrange(0x1F300, 0x1F700)), ' ', "'", '"', '\\'])
                       for _ in range(n))
    if kind == 4:      # binary
        return bytes(rng.randrange(256) for _ in range(n))
    out = b''          # ascii words as bytes
    while len(out) < n:
        out += rng.choice([b'GET', b'/index.html', b'HTTP/1.1', b"it's", b'"q"', b'\x00\xff', b'a' * 20]) + \
            rng.choice([b' ', b' ', b'\r\n', b'\t', b''])
    return out[:n]


_WORK = {}


def _shard(spec):
    part, i, n = spec
    acc = common.new_acc()
    t0 = time.process_time()
    if part == 'A':
        for j in range(i, len(_WORK['values_A']), n):
            s = _WORK['values_A'][j]
            run_A(acc, s, ALL_WIDTHS if j % _WORK['all_widths_every'] == 0 else _WORK['widths'])
    elif part == 'BC':
        for alphabet in (STR_ALPHABET, BYTES_ALPHABET):
            for s in itertools.islice(exhaustive(alphabet, _WORK['len_BC']), i, None, n):
                run_BC(acc, s)
    else:
        for j in range(i, _WORK['nlong'], n):
            s = random_long(_WORK['seed'], j)
            run_A(acc, s, ALL_WIDTHS, long=True)
            run_BC(acc, s)
    acc['counters']['cpu_s:' + part] = round(time.process_time() - t0, 2)
    acc['nontrivial'] = sorted(acc['nontrivial'])
    return acc


def run(tier='quick', seed=0, jobs=16):
    tier, seed = common.tier_of(tier), common.seed_of(seed)
    t0 = time.time()
    quick = tier == 'quick'
    len_A = 4 if quick else 5
    len_BC = 5 if quick else 6
    nlong = 48 if quick else 600
    every = 16 if quick else 10
    count_BC = 2 * sum(10 ** k for k in range(len_BC + 1))
    _WORK.clear()
    _WORK.update(
        values_A=list(exhaustive(STR_ALPHABET, len_A)) + list(exhaustive(BYTES_ALPHABET, len_A)),
        len_BC=len_BC,
        widths=QUICK_WIDTHS, all_widths_every=every, nlong=nlong, seed=seed)
    n = max(1, jobs) * 8
    shards = ([('A', i, n) for i in range(n)] + [('BC', i, n) for i in range(n)] +
              [('long', i, min(n, nlong)) for i in range(min(n, nlong))])
    acc = common.merge(common.pmap(_shard, shards, jobs))
    acc['counters']['wall_s'] = round(time.time() - t0, 1)
    bounds = {
        'tier': tier, 'seed': seed,
        'alphabet': 'str %r; bytes %r' % (STR_ALPHABET, BYTES_ALPHABET),
        'A_pformat': 'every str and bytes over the alphabet up to length %d (%d values) x 6 placements %s x widths '
                     '%s (ribbon_width, indent at their defaults 71 / 4; width <= 60 so the ribbon never binds); '
                     'every %dth value with all widths 1..60' % (len_A, len(_WORK['values_A']), list(PLACEMENTS),
                                                                  list(QUICK_WIDTHS), every),
        'B_str_to_lines': 'every str and bytes up to length %d (%d values) x max_len 1..12 x both quotes'
                          % (len_BC, count_BC),
        'C_escape_str_for_quote': 'the same %d values x both quotes' % count_BC,
        'long': '%d seeded random strings of length 30..300 (words with blanks/newlines; non-word separators only; '
                'no split point; arbitrary code points; random bytes; ascii byte words) x 6 placements x widths '
                '1..60, plus B and C on them' % nlong,
        'trimmed': ('nothing (task: length 4)' if quick else
                    'the task asks length 6 for pformat; pformat is run to length 5 only (2.2 * 10^6 values x 6 '
                    'placements x >= 10 widths does not fit the 10 min budget); str_to_lines / escape_str_for_quote '
                    'do go to length 6'),
        'not_covered': 'ribbon_width / indent other than the defaults, placements deeper than one container, '
                       'split_pattern argument of pretty_str',
    }
    rule = ('a str/bytes value (identified by its content) that is printed on more than one line at top level for '
            'some width, or whose repr needs escaping')
    return common.report_counted(acc, rule, bounds, exhaustive=True, max_violations=80)


def replay(case):
    s = eval(case['s'], {})
    check = case.get('check', 'pformat')
    if check == 'pformat':
        text, fails = check_A(s, case['placement'], case['kwargs']['width'])
        ok = 'output %s' % common.shrink_repr(text, 200)
    elif check == 'str_to_lines':
        fails = check_B(s, case['max_len'], case['use_quote'])
        ok = 'pieces join back'
    else:
        fails = check_C(s, case['use_quote'])
        ok = 'escaped literal evaluates back'
    if fails:
        return {'violated': True, 'detail': '; '.join('%s: %s' % f for f in fails)}
    return {'violated': False, 'detail': ok}
