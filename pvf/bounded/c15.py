r"""C15 (bounded): printer dispatch follows the class hierarchy for every registration history.

Runs the real register_pretty / is_registered / pformat on a class lattice that is created FRESH for
every history

        A        E
       / \
      B   C          D.__mro__ == (D, B, C, A, object)
       \ /
        D

and compares every observation (which printer ran, each is_registered answer) with a reference model
written from the property statement.  After each history the five classes are deleted from the dict
behind `pretty_dispatch.registry` (singledispatch has no unregister), the dispatch cache is cleared and
the entries the history added to _DEFERRED_DISPATCH_BY_NAME / _PREDICATE_REGISTRY are removed; shards
run in forked children (common.pmap).

Operations (JSON lists):
    ['reg',   X]                 register_pretty(X)(printer_i)
    ['name',  X]                 register_pretty('<module>.<qualname of X>')(printer_i)
    ['pred',  X]                 register_pretty(predicate=lambda v: isinstance(v, X))(printer_i)
    ['print', X]                 pformat(X())
    ['isreg', X, cs, cd, rd]     is_registered(X, check_superclasses=cs, check_deferred=cd, register_deferred=rd)
printer_i (i = index of the operation in the history) returns the unique tag 'P<i>'.

Reference model (state per class: nothing | direct tag | by-name tag + promoted flag; ordered predicate list):
  * eff(T) = tag of the first class of T.__mro__ (before object) that has a direct or a by-name entry
    (a later registration of the same kind replaces the earlier one), else the tag of the first-registered
    predicate accepting the value, else repr(value).
  * histories that register one class both directly and by name are EXCLUDED ("of the same kind").
  * is_registered(T, cs, cd, rd): ValueError iff (not cd and rd).  A class *counts* if it has a direct
    entry, a by-name entry that has been promoted, or (only if cd) a pending by-name entry.  Answer:
    T counts (cs=False) / some class of T.__mro__ before object counts (cs=True).  Predicates never count.
  * promotion (the only state change of print / is_registered(.., rd=True)); it never changes eff:
    if T has a direct/promoted entry: nothing; elif T has a pending by-name entry: it becomes promoted;
    elif cs (always for print): the first class of T.__mro__[1:] with a pending entry becomes promoted.
    NOTE: the answer for check_deferred=False therefore depends on earlier promotions; the statement
    is silent on this, the model follows the mechanism anchors of the property (documented ambiguity).
  * is_registered(.., rd=False) changes nothing: the model ignores such calls, so every later observation
    is compared with what it would have been without the call.  When a history with such calls shows a
    mismatch, the history is additionally re-run on the real code WITHOUT them (differential check
    'noeffect-rd-false').
"""
import gc
import importlib
import itertools
import random
import time
import warnings

from . import common

CLASSES = ['A', 'B', 'C', 'D', 'E']
FLAGS = [(cs, cd, rd) for cs in (False, True) for cd in (True, False) for rd in (True, False)]
# 'O' is `object` itself, the root of every MRO: only queried (singledispatch keeps the base printer under it, which is
# not a registration: is_registered(object) is False under every flag combination that does not raise)
ALL_OPS = ([[k, c] for c in CLASSES for k in ('reg', 'name', 'pred', 'print')] +
           [['isreg', c, cs, cd, rd] for c in CLASSES + ['O'] for (cs, cd, rd) in FLAGS])
ALL_OPS.sort(key=lambda op: ((CLASSES + ['O']).index(op[1]), op[0], op[2:]))

RULE = ("non-trivial: a checked print / is_registered whose class has a direct, pending or promoted entry "
        "somewhere in its MRO or an accepting predicate; key = operation+flags, class, per-MRO-class entry "
        "state (-/d/n/p), accepting-predicate present")

_uid = itertools.count()


# ---------------------------------------------------------------------------------------------
# access to the real code
class _Real:
    def __init__(self):
        self.pp = common.load_repo()
        self.P = importlib.import_module('prettyprinter.prettyprinter')
        disp = self.P.pretty_dispatch
        reg = cache = None
        try:
            cells = dict(zip(disp.register.__code__.co_freevars, disp.register.__closure__))
            reg = cells['registry'].cell_contents
            cache = cells['dispatch_cache'].cell_contents
        except Exception:
            pass
        if not isinstance(reg, dict) or reg != dict(disp.registry):
            reg = [r for r in gc.get_referents(disp.registry) if isinstance(r, dict)][0]
        self.registry = reg
        self.cache = cache
        self.base_size = len(reg)

    def clear_cache(self):
        if self.cache is not None:
            self.cache.clear()
        else:
            self.P.pretty_dispatch._clear_cache()


_REAL = None


def _real():
    global _REAL
    if _REAL is None:
        _REAL = _Real()
    return _REAL


def _lattice():
    uid = next(_uid)

    def mk(n, bases):
        return type(n, bases, {'__module__': __name__, '__qualname__': 'L%d_%s' % (uid, n)})
    A = mk('A', (object,))
    B = mk('B', (A,))
    C = mk('C', (A,))
    D = mk('D', (B, C))
    E = mk('E', (object,))
    out = {'A': A, 'B': B, 'C': C, 'D': D, 'E': E, 'O': object}
    # a chain of six classes (MRO of seven entries with object): sizes the diamond lattice does not reach - added after a seeded
    # fault that looked only at the three nearest supertypes for by-name printers
    prev = object
    for i in range(1, 7):
        prev = out['G%d' % i] = mk('G%d' % i, (prev,))
    return out


def _printer(tag):
    def printer(value, ctx):
        return tag
    printer.__qualname__ = 'printer_' + tag
    return printer


def _predicate(cls):
    return lambda v: isinstance(v, cls)


def run_real(ops):
    """Observations of the real code, one per op (None for registrations)."""
    R = _real()
    P, pp = R.P, R.pp
    L = _lattice()
    keys = {n: c.__module__ + '.' + c.__qualname__ for n, c in L.items()}
    deferred_before = {k: P._DEFERRED_DISPATCH_BY_NAME[k] for k in keys.values()
                       if k in P._DEFERRED_DISPATCH_BY_NAME}
    my_preds = []
    obs = []
    try:
        for i, op in enumerate(ops):
            kind, cls = op[0], L[op[1]]
            tag = 'P%d' % i
            if kind == 'reg':
                P.register_pretty(cls)(_printer(tag))
                obs.append(None)
            elif kind == 'name':
                P.register_pretty(keys[op[1]])(_printer(tag))
                obs.append(None)
            elif kind == 'pred':
                fn = _printer(tag)
                P.register_pretty(predicate=_predicate(cls))(fn)
                my_preds.append(fn)
                obs.append(None)
            elif kind == 'print':
                inst = cls()
                try:
                    out = pp.pformat(inst)
                except Exception as e:  # noqa
                    out = 'raised %s: %s' % (type(e).__name__, e)
                obs.append([out, repr(inst)])
            elif kind == 'isreg':
                try:
                    r = P.is_registered(cls, check_superclasses=op[2], check_deferred=op[3],
                                        register_deferred=op[4])
                    if not isinstance(r, bool):
                        r = 'non-bool %r' % (r,)
                except ValueError:
                    r = 'ValueError'
                except Exception as e:  # noqa
                    r = 'raised %s: %s' % (type(e).__name__, e)
                obs.append(r)
            else:
                raise ValueError(op)
    finally:
        for c in L.values():
            if c is not object:
                R.registry.pop(c, None)
        R.clear_cache()
        for n_, k in keys.items():
            if n_ != 'O':
                P._DEFERRED_DISPATCH_BY_NAME.pop(k, None)
        P._DEFERRED_DISPATCH_BY_NAME.update(deferred_before)
        if my_preds:
            P._PREDICATE_REGISTRY[:] = [pf for pf in P._PREDICATE_REGISTRY
                                        if not any(pf[1] is f for f in my_preds)]
    return obs


# ---------------------------------------------------------------------------------------------
# the reference model
MRO = {'A': ['A'], 'B': ['B', 'A'], 'C': ['C', 'A'], 'D': ['D', 'B', 'C', 'A'], 'E': ['E'], 'O': ['O']}
for _i in range(1, 7):
    MRO['G%d' % _i] = ['G%d' % j for j in range(_i, 0, -1)]
DEEP = ['G1', 'G2', 'G6']
DEEP_OPS = ([[k, c] for c in DEEP for k in ('reg', 'name', 'print')] +
            [['isreg', c, cs, cd, rd] for c in DEEP for (cs, cd, rd) in FLAGS if cd or not rd])


def mixed_kind(ops):
    d = {op[1] for op in ops if op[0] == 'reg'}
    n = {op[1] for op in ops if op[0] == 'name'}
    return bool(d & n)


def run_model(ops):
    """-> (expected observations, per-op non-trivial key or None, per-op shape flags)"""
    entry = {}          # class -> ['d', tag] | ['n', tag, promoted]
    preds = []          # (class, tag)
    exp, keys, flags_at = [], [], []
    flags = set()

    def counts(c, cd):
        e = entry.get(c)
        if e is None:
            return False
        if e[0] == 'd' or e[2]:
            return True
        return bool(cd)

    def pending(c):
        e = entry.get(c)
        return e is not None and e[0] == 'n' and not e[2]

    ambiguous = set()

    def promote(t, cs):
        if counts(t, False):
            return
        if pending(t):
            entry[t][2] = True
            ambiguous.discard(t)
            return
        if cs:
            for k in MRO[t][1:]:
                if pending(k):
                    entry[k][2] = True
                    ambiguous.discard(k)
                    return

    def pattern(t):
        out = []
        for k in MRO[t]:
            e = entry.get(k)
            out.append('-' if e is None else 'd' if e[0] == 'd' else 'p' if e[2] else 'n')
        return ''.join(out)

    for i, op in enumerate(ops):
        kind, c = op[0], op[1]
        tag = 'P%d' % i
        key = None
        if kind == 'reg':
            ambiguous.discard(c)
            entry[c] = ['d', tag]
            exp.append(None)
        elif kind == 'name':
            e = entry.get(c)
            if e is not None and e[0] == 'n' and e[2]:
                flags.add('rereg-name-after-promotion')
                # The earlier printer of this class sits in the live registry (promoted), the new one is
                # pending by name.  What is_registered(check_deferred=False) should say now is not fixed by the
                # statement ("deferred and direct registration being equivalent" leaves no room for the flag):
                # both answers are accepted until the pending printer is promoted.  (Corrected after triage:
                # the oracle demanded False; the dispatch itself is still checked strictly.)
                ambiguous.add(c)
            entry[c] = ['n', tag, False]
            exp.append(None)
        elif kind == 'pred':
            preds.append((c, tag))
            exp.append(None)
        elif kind == 'print':
            eff = None
            for k in MRO[c]:
                if k in entry:
                    eff = entry[k][1]
                    break
            acc = [t for (pc, t) in preds if pc in MRO[c]]
            pat = pattern(c)
            if eff is None and acc:
                eff = acc[0]
            exp.append(eff if eff is not None else 'repr')
            if pat.strip('-') or acc:
                key = 'print:%s:%s:%s' % (c, pat, 'pred' if acc else '')
            promote(c, True)
        elif kind == 'isreg':
            cs, cd, rd = op[2], op[3], op[4]
            if not cd and rd:
                exp.append('ValueError')
            else:
                rel = MRO[c] if cs else [c]
                if not cd and any(k in ambiguous for k in rel) and not any(counts(k, cd) for k in rel):
                    exp.append('ANY')
                elif cs:
                    exp.append(any(counts(k, cd) for k in MRO[c]))
                else:
                    exp.append(counts(c, cd))
                pat = pattern(c)
                acc = any(pc in MRO[c] for (pc, t) in preds)
                if pat.strip('-') or acc:
                    key = 'isreg:%d%d%d:%s:%s:%s' % (cs, cd, rd, c, pat, 'pred' if acc else '')
                if rd:
                    promote(c, cs)
        keys.append(key)
        flags_at.append(sorted(flags))
    return exp, keys, flags_at


def _matches(op, expected, observed):
    if op[0] == 'print':
        out, rep = observed
        return out == (rep if expected == 'repr' else expected)
    if op[0] == 'isreg':
        if expected == 'ANY':
            return isinstance(observed, bool)
        return observed == expected and type(observed) is type(expected)
    return True


def check_history(ops, acc=None):
    """Runs one history on the real code and the model; returns the list of violations."""
    ops = [list(o) for o in ops]
    exp, keys, flags_at = run_model(ops)
    obs = run_real(ops)
    out = []
    kinds_seen = set()
    for i, op in enumerate(ops):
        if op[0] not in ('print', 'isreg'):
            continue
        if acc is not None:
            acc['evaluations'] += 1
            if keys[i]:
                acc['nontrivial'].add(keys[i])
        if _matches(op, exp[i], obs[i]):
            continue
        if op[0] == 'print':
            kind = 'print-uses-eff'
            tags = ['op:print']
            observed = 'op %d %r printed %r' % (i, op, obs[i][0])
            expected = 'output of %s' % ('repr(value) = %r' % obs[i][1] if exp[i] == 'repr' else 'printer ' + exp[i])
        else:
            kind = 'isreg-valueerror' if 'ValueError' in (exp[i], obs[i]) else 'isreg-answer'
            tags = ['op:isreg', 'flags:cs=%d,cd=%d,rd=%d' % (op[2], op[3], op[4])]
            observed = 'op %d %r returned %r' % (i, op, obs[i])
            expected = repr(exp[i])
        tags += flags_at[i]
        if (kind, tuple(tags)) in kinds_seen:
            continue
        kinds_seen.add((kind, tuple(tags)))
        out.append({'kind': kind, 'case': {'ops': ops, 'at': i}, 'observed': observed,
                    'expected': expected, 'tags': sorted(tags)})
    # differential: dropping the rd=False queries must not change any other observation
    if out and any(op[0] == 'isreg' and not op[4] for op in ops):
        keep = [i for i, op in enumerate(ops) if not (op[0] == 'isreg' and not op[4])]
        # printer tags are positional ('P<index>'): map the tags of the shortened history back
        sub = [ops[i] for i in keep]
        obs2 = run_real(sub)
        remap = {'P%d' % j: 'P%d' % i for j, i in enumerate(keep)}
        for j, i in enumerate(keep):
            a, b = obs[i], obs2[j]
            if ops[i][0] == 'print':
                a = 'repr' if a[0] == a[1] else a[0]
                b = 'repr' if b[0] == b[1] else remap.get(b[0], b[0])
            if acc is not None:
                acc['evaluations'] += 1
            if a != b:
                out.append({'kind': 'noeffect-rd-false', 'case': {'ops': ops, 'at': i},
                            'observed': 'op %d %r observed %r' % (i, ops[i], a),
                            'expected': '%r (same history without the register_deferred=False queries)' % (b,),
                            'tags': sorted(set(flags_at[i]) | {'op:' + ops[i][0]})})
                break
    return out


# ---------------------------------------------------------------------------------------------
# shards
def _op_set(classes, admissible_only):
    return [op for op in ALL_OPS if op[1] in classes and
            not (admissible_only and op[0] == 'isreg' and not op[3] and op[4])]


def _exhaustive_shard(arg):
    """all histories prefix + middle + last of the given total length whose LAST operation is an observation
    (print / is_registered): a history ending in a registration shows exactly the observations of its
    prefix, which is enumerated at the shorter length."""
    prefix, total_len, classes, admissible_only = arg
    op_set = _op_set(classes, admissible_only)
    obs_set = [op for op in op_set if op[0] in ('print', 'isreg')]
    acc = common.new_acc()
    cnt = acc['counters']
    warnings.simplefilter('ignore')
    R = _real()
    rest = total_len - len(prefix)
    if rest == 0:
        tails = [()] if (prefix and prefix[-1][0] in ('print', 'isreg')) else []
    else:
        tails = (mid + (last,) for mid in itertools.product(op_set, repeat=rest - 1) for last in obs_set)
    n_enum = n_mixed = n_run = 0
    for tail in tails:
        ops = list(prefix) + list(tail)
        n_enum += 1
        if mixed_kind(ops):
            n_mixed += 1
            continue
        n_run += 1
        vs = check_history(ops, acc)
        acc['violations'].extend(vs)
        if not acc['samples'] and len(ops) == total_len and ops[-1][0] == 'print' and ops[0][0] == 'name':
            acc['samples'].append({'ops': ops})
    cnt['histories_enumerated'] = n_enum
    cnt['excluded_mixed_kind'] = n_mixed
    cnt['histories_run'] = n_run
    if len(R.registry) != R.base_size:
        cnt['registry_leak'] = cnt.get('registry_leak', 0) + 1
    return _thin(acc)


def random_history(rng, max_len=12):
    n = rng.randint(4, max_len)
    kind_of = {c: rng.choice(['reg', 'name']) for c in CLASSES}
    ops = []
    for _ in range(n):
        c = rng.choice(CLASSES if rng.random() < 0.8 else ['D', 'B'])
        r = rng.random()
        if r < 0.33:
            ops.append([kind_of[c], c])
        elif r < 0.42:
            ops.append(['pred', c])
        elif r < 0.67:
            ops.append(['print', c])
        else:
            cs, cd, rd = rng.choice(FLAGS)
            ops.append(['isreg', c, cs, cd, rd])
    return ops


def _deep_shard(arg):
    """all histories of the given length over the deep chain (classes G1, G2, G6 of the six-class chain)"""
    first, total_len = arg
    acc = common.new_acc()
    warnings.simplefilter('ignore')
    _real()
    obs_set = [op for op in DEEP_OPS if op[0] in ('print', 'isreg')]
    n = 0
    for mid in itertools.product(DEEP_OPS, repeat=max(0, total_len - 2)):
        for last in (obs_set if total_len > 1 else [None]):
            ops = [first] + list(mid) + ([last] if last is not None else [])
            if ops[-1][0] not in ('print', 'isreg') or mixed_kind(ops):
                continue
            n += 1
            acc['violations'].extend(check_history(ops, acc))
    acc['counters']['deep_chain_histories_run'] = n
    return _thin(acc)


def _random_shard(arg):
    seed, shard, count = arg
    rng = random.Random(seed * 1000003 + shard * 7919 + 17)
    acc = common.new_acc()
    cnt = acc['counters']
    warnings.simplefilter('ignore')
    R = _real()
    for k in range(count):
        ops = random_history(rng)
        cnt['random_histories_run'] = cnt.get('random_histories_run', 0) + 1
        acc['violations'].extend(check_history(ops, acc))
        if k == 0 and shard < 3:
            acc['samples'].append({'ops': ops})
    if len(R.registry) != R.base_size:
        cnt['registry_leak'] = cnt.get('registry_leak', 0) + 1
    return _thin(acc)


def _thin(acc, per_key=3):
    """keep the few smallest witnesses per (kind, tags); the total goes to a counter"""
    vs = acc['violations']
    acc['counters']['violations_before_thinning'] = len(vs)
    by = {}
    for v in vs:
        by.setdefault((v['kind'], tuple(v['tags'])), []).append(v)
    out = []
    for lst in by.values():
        lst.sort(key=lambda v: (len(v['case']['ops']), str(v['case'])))
        out.extend(lst[:per_key])
    acc['violations'] = out
    return acc


def run(tier, seed, jobs=16):
    tier, seed = common.tier_of(tier), common.seed_of(seed)
    t0 = time.time()
    max_len = 3 if tier == 'quick' else 4
    n_random = 24000 if tier == 'quick' else 400000
    full = ''.join(CLASSES)
    # one longer length over a sub-lattice (class choices subsampled; said so in `bounds`)
    sub_len, sub_classes = (4, 'AD') if tier == 'quick' else (5, 'AD')
    shards = []
    for n in range(1, max_len + 1):
        if n <= 2:
            shards += [((op,), n, full, False) for op in ALL_OPS]
        else:
            shards += [((a, b), n, full, False) for a in ALL_OPS for b in ALL_OPS]
    sub_ops = _op_set(sub_classes, True)
    shards += [((a, b), sub_len, sub_classes, True) for a in sub_ops for b in sub_ops]
    # big shards first
    shards.sort(key=lambda s: -(len(_op_set(s[2], s[3])) ** (s[1] - len(s[0]))))
    results = common.pmap(_exhaustive_shard, shards, jobs)
    results += common.pmap(_deep_shard, [(op, 3) for op in DEEP_OPS] + [(op, 2) for op in DEEP_OPS], jobs)
    n_shards = 64 if tier == 'quick' else 256
    per = n_random // n_shards
    results += common.pmap(_random_shard, [(seed, s, per) for s in range(n_shards)], jobs)
    acc = common.merge(results)
    acc['counters']['wall_s'] = round(time.time() - t0, 1)
    bounds = {'tier': tier, 'seed': seed, 'lattice': 'A; B(A); C(A); D(B,C); E (fresh per history)',
              'operations': len(ALL_OPS),
              'exhaustive_max_len': max_len,
              'exhaustive_sublattice': 'additionally all histories of length %d over the classes %s only '
                                       '(class choices subsampled) without the inadmissible flag combination'
                                       % (sub_len, ','.join(sub_classes)),
              'not_run': 'histories whose last operation is a registration (same observations as their prefix, '
                         'which is enumerated)',
              'random_histories': per * n_shards, 'random_len': '4..12',
              'excluded': 'histories registering one class both directly and by name',
              'class_subsampling': 'none up to exhaustive_max_len (all 5 classes x 12 operations per class)'}
    rep = common.report(acc, RULE, bounds, exhaustive=True)
    return rep


def replay(case):
    warnings.simplefilter('ignore')
    ops = case['ops']
    if mixed_kind(ops):
        return {'violated': False, 'detail': 'excluded: a class is registered both directly and by name'}
    vs = check_history(ops)
    if not vs:
        return {'violated': False, 'detail': 'all %d observations match the reference' %
                sum(1 for o in ops if o[0] in ('print', 'isreg'))}
    return {'violated': True, 'detail': '; '.join('%s: observed %s, expected %s' % (v['kind'], v['observed'], v['expected'])
                                                  for v in vs[:3])}
