"""C06 bounded stand-in: whatever fits on one line is put on one line.

(a) documents (classic algebra without always_break / hardline: a forced break on the line is a legitimate
    reason to break a group): if the all-flat rendering of the document is a single line of L columns and
    L <= min(W, R), the engine's output is exactly that line (every decision flat).
(b) values: if pformat(v, width=10**6, ribbon_width=10**6) is a single line of L columns, then pformat at
    width = ribbon_width in {L, L+1, L+2} is that same line; at L-1 / L-2 the output differs (counted, not required).
"""
import json
import random

from . import common
from . import layout_ref as LR

WIDTHS_Q = [1, 2, 3, 4, 6, 9, 14]
WIDTHS_T = [1, 2, 3, 4, 5, 6, 8, 10, 14, 20, 30]
FRACS = [1.0, 0.7, 0.5, 0.25]


def check_doc(mods_, spec, W, frac, strategy, counters=None):
    D, T, L, Rm, S = mods_
    if LR.has_kind(spec, ('ab', 'hardline')):
        return None     # "a forced-break document starts later on that same line" is a legitimate reason to break
    doc = LR.build(mods_, spec)
    R = LR.ribbon_of(W, frac)
    ref = LR.Ref(mods_, W, R, lambda kind, d: True)
    ref.run(0, False, doc)
    flat = LR.norm_out(ref.out)
    if any(o[0] == 'l' for o in flat):
        return None
    text = ''.join(o[1] for o in flat if o[0] == 't')
    if len(text) > min(W, R):
        return None
    if counters is not None:
        counters['docs_with_premise'] = counters.get('docs_with_premise', 0) + 1
    layout = L.layout_smart if strategy == 'smart' else L.layout_fast
    eng = LR.norm_out(LR.engine_out(mods_, list(layout(doc, width=W, ribbon_frac=frac))))
    if eng != flat:
        return ('fitting-doc-broken', json.dumps(eng)[:200], 'the single line %r' % text, [strategy])
    return None


def check_value(pp, vexpr, counters=None):
    v = eval(vexpr, {'nan': float('nan'), 'inf': float('inf')})
    wide = pp.pformat(v, width=10 ** 6, ribbon_width=10 ** 6)
    if '\n' in wide:
        return None
    L = len(wide)
    if counters is not None:
        counters['values_with_premise'] = counters.get('values_with_premise', 0) + 1
    for w in (L, L + 1, L + 2):
        if w < 1:
            continue
        out = pp.pformat(v, width=w, ribbon_width=w)
        if out != wide:
            return ('fitting-value-broken', '%r at width=ribbon_width=%d' % (out, w), repr(wide), ['value'])
    for w in (L - 1, L - 2):
        if w >= 1 and pp.pformat(v, width=w, ribbon_width=w) != wide and counters is not None:
            counters['narrower_differs'] = counters.get('narrower_differs', 0) + 1
    return None


def shard(args):
    tier, seed, idx, n = args
    mods_ = LR.mods()
    pp = common.load_repo()
    acc = common.new_acc()
    widths = WIDTHS_Q if tier == 'quick' else WIDTHS_T
    maxn = 5 if tier == 'quick' else 6
    cases = [spec for j, spec in enumerate(LR.specs(maxn, classic=True)) if j % n == idx]
    if idx == 1 % n:
        # large documents (sizes no enumeration reaches): long concats, many pending stack entries, deep groups, wide pages
        for spec, Ws, fracs in LR.large_specs():
            for W in Ws:
                for frac in fracs:
                    for strategy in ('smart', 'fast'):
                        acc['evaluations'] += 1
                        r = check_doc(mods_, spec, W, frac, strategy, acc['counters'])
                        if r is not None:
                            acc['violations'].append({'kind': r[0], 'case': {'spec': spec, 'W': W, 'frac': frac, 'strategy': strategy},
                                                      'observed': r[1], 'expected': r[2], 'tags': sorted(r[3])})
    rng = random.Random(seed * 1000 + idx)
    for _ in range(150 if tier == 'quick' else 3000):
        cases.append(LR.random_spec(rng, rng.randint(6, 18), classic=True))
    for spec in cases:
        if not LR.has_kind(spec, ('group',)):
            continue
        for W in widths:
            for frac in FRACS:
                for strategy in ('smart', 'fast'):
                    acc['evaluations'] += 1
                    r = check_doc(mods_, spec, W, frac, strategy, acc['counters'])
                    if r is not None:
                        acc['violations'].append({'kind': r[0], 'case': {'spec': spec, 'W': W, 'frac': frac, 'strategy': strategy},
                                                  'observed': r[1], 'expected': r[2], 'tags': sorted(r[3])})
        acc['nontrivial'].add(json.dumps(spec))
    # values
    vals = [v for j, v in enumerate(common.value_trees(3 if tier == 'quick' else 4)) if j % n == idx]
    for _ in range(100 if tier == 'quick' else 2000):
        vals.append(common.random_value(rng, max_depth=3))
    for v in vals:
        try:
            vexpr = repr(v)
            eval(vexpr, {'nan': float('nan'), 'inf': float('inf')})
        except Exception:       # noqa
            continue
        acc['evaluations'] += 1
        r = check_value(pp, vexpr, acc['counters'])
        acc['nontrivial'].add('v:' + vexpr[:80])
        if r is not None:
            acc['violations'].append({'kind': r[0], 'case': {'value': vexpr}, 'observed': r[1], 'expected': r[2], 'tags': sorted(r[3])})
        if len(acc['samples']) < 2:
            acc['samples'].append({'value': vexpr})
    return acc


def run(tier, seed, jobs=16):
    tier, seed = common.tier_of(tier), common.seed_of(seed)
    n = 64
    acc = common.merge(common.pmap(shard, [(tier, seed, i, n) for i in range(n)], jobs))
    widths = WIDTHS_Q if tier == 'quick' else WIDTHS_T
    rule = ('(a) classic-algebra document specs with <= %d nodes containing a group + random ones x widths %s x ribbon fractions %s x '
            '{smart, fast}: all-flat single line of L <= min(W, R) columns => engine prints that line; (b) value trees with <= %d nodes + '
            'random values: one-line rendering of L columns => identical at width = ribbon_width in {L, L+1, L+2}; non-trivial = '
            'distinct specs / values' % (5 if tier == 'quick' else 6, widths, FRACS, 3 if tier == 'quick' else 4))
    return common.report(acc, rule, {'widths': widths, 'fracs': FRACS})


def replay(case):
    if 'value' in case:
        r = check_value(common.load_repo(), case['value'])
    else:
        r = check_doc(LR.mods(), case['spec'], case['W'], case['frac'], case['strategy'])
    if r is None:
        return {'violated': False, 'detail': 'holds'}
    return {'violated': True, 'detail': '%s: observed %s ; expected %s' % (r[0], r[1], r[2])}
