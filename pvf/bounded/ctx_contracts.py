"""Run-time contracts of PrettyContext (the object that carries depth / max_seq_len / visited / strategy down the
recursion), checked exhaustively over the finite part of their quantifier:

  _replace(**sub)            for EVERY subset `sub` of the 7 fields x a value grid that contains the boundary values
                             (None, 0, inf, empty / shared containers): passed fields take the passed value, every other
                             field is the same object as before;
  nested_call()              depth_left - 1 (inf stays inf), everything else identical, `visited` the SAME set object;
  use_multiline_strategy(s)  only multiline_strategy changes;
  assoc(k, v)                only user_ctx changes (old entries kept, k -> v), the old context is not modified;
  start_visit / end_visit / is_visited   add / remove / membership of id(value) in the shared set.

Complete for the subset quantifier (2^7); values are a grid, so the check is bounded (never counted as proved).
Used by the stand-ins of C10, C11 and C13.
"""
import itertools

from . import common

FIELDS = ('indent', 'depth_left', 'visited', 'multiline_strategy', 'max_seq_len', 'sort_dict_keys', 'user_ctx')


def grids(P):
    vis = {1, 2}
    return {
        'indent': [4, 1, 0],
        'depth_left': [float('inf'), 0, 1, 3],
        'visited': [vis, set()],
        'multiline_strategy': [P.MULTILINE_STRATEGY_PLAIN, P.MULTILINE_STRATEGY_HANG, P.MULTILINE_STRATEGY_PARENS],
        'max_seq_len': [1000, None, 0, 1],
        'sort_dict_keys': [False, True],
        'user_ctx': [{'a': 1}, {'z': None}],
    }


def same(a, b):
    return a is b or (type(a) is type(b) and a == b and not isinstance(a, (set, dict)))


def check(acc):
    """adds evaluations / violations to acc; returns number of evaluations"""
    common.load_repo()
    import importlib
    P = importlib.import_module('prettyprinter.prettyprinter')
    G = grids(P)
    n = 0

    def viol(kind, case, obs, exp, tags):
        acc['violations'].append({'kind': kind, 'case': case, 'observed': obs, 'expected': exp, 'tags': sorted(tags)})

    bases = []
    for j in range(4):
        base = {f: G[f][j % len(G[f])] for f in FIELDS}
        bases.append(base)
    for bi, base in enumerate(bases):
        for r in range(len(FIELDS) + 1):
            for sub in itertools.combinations(FIELDS, r):
                for vi in range(3):
                    ctx = P.PrettyContext(**base)
                    kw = {f: G[f][(vi + 1 + k) % len(G[f])] for k, f in enumerate(sub)}
                    new = ctx._replace(**kw)
                    n += 1
                    for f in FIELDS:
                        got = getattr(new, f)
                        want = kw[f] if f in kw else getattr(ctx, f)
                        ok = (got is want) or (f != 'visited' and got == want and type(got) is type(want))
                        if f == 'user_ctx' and f in kw and not kw[f]:
                            ok = (got == {})        # the constructor replaces a falsy user_ctx by {}
                        if not ok:
                            viol('ctx-replace', {'check': 'ctx', 'base': bi, 'sub': list(sub), 'vi': vi, 'field': f},
                                 '%s = %r' % (f, got), '%r' % (want,),
                                 ['ctx:_replace', 'field:' + f, 'value:None' if want is None else 'value:other'])
        # nested_call / use_multiline_strategy / assoc
        for d in G['depth_left']:
            b2 = dict(base, depth_left=d)
            ctx = P.PrettyContext(**b2)
            new = ctx.nested_call()
            n += 1
            if new.depth_left != d - 1:
                viol('ctx-nested_call', {'check': 'ctx', 'base': bi, 'depth_left': repr(d)}, 'depth_left = %r' % new.depth_left,
                     repr(d - 1), ['ctx:nested_call', 'field:depth_left'])
            for f in FIELDS:
                if f != 'depth_left' and getattr(new, f) is not getattr(ctx, f) and not (
                        getattr(new, f) == getattr(ctx, f) and f not in ('visited',)):
                    viol('ctx-nested_call', {'check': 'ctx', 'base': bi, 'depth_left': repr(d), 'field': f},
                         '%s = %r' % (f, getattr(new, f)), repr(getattr(ctx, f)),
                         ['ctx:nested_call', 'field:' + f, 'value:None' if getattr(ctx, f) is None else 'value:other'])
            for s in G['multiline_strategy']:
                new = ctx.use_multiline_strategy(s)
                n += 1
                for f in FIELDS:
                    want = s if f == 'multiline_strategy' else getattr(ctx, f)
                    got = getattr(new, f)
                    if got is not want and not (got == want and f != 'visited'):
                        viol('ctx-use_multiline_strategy', {'check': 'ctx', 'base': bi, 'field': f}, '%s = %r' % (f, got), repr(want),
                             ['ctx:use_multiline_strategy', 'field:' + f, 'value:None' if want is None else 'value:other'])
            before = dict(ctx.user_ctx)
            new = ctx.assoc('k', 7)
            n += 1
            if new.user_ctx != dict(before, k=7) or ctx.user_ctx != before:
                viol('ctx-assoc', {'check': 'ctx', 'base': bi}, repr(new.user_ctx), repr(dict(before, k=7)), ['ctx:assoc'])
            for f in FIELDS:
                if f != 'user_ctx' and getattr(new, f) is not getattr(ctx, f) and not (getattr(new, f) == getattr(ctx, f) and f != 'visited'):
                    viol('ctx-assoc', {'check': 'ctx', 'base': bi, 'field': f}, repr(getattr(new, f)), repr(getattr(ctx, f)),
                         ['ctx:assoc', 'field:' + f])
        # visited discipline
        ctx = P.PrettyContext(indent=4, depth_left=3, visited=set())
        child = ctx.nested_call().use_multiline_strategy(P.MULTILINE_STRATEGY_HANG)
        v = [1]
        n += 1
        if ctx.is_visited(v):
            viol('ctx-visited', {'check': 'ctx', 'step': 'fresh'}, 'visited', 'not visited', ['ctx:visited'])
        child.start_visit(v)
        if not ctx.is_visited(v) or id(v) not in ctx.visited:
            viol('ctx-visited', {'check': 'ctx', 'step': 'shared'}, 'parent does not see the visit', 'shared set', ['ctx:visited'])
        ctx.end_visit(v)
        if child.is_visited(v) or ctx.visited:
            viol('ctx-visited', {'check': 'ctx', 'step': 'end'}, 'still visited', 'removed', ['ctx:visited'])
    acc['evaluations'] += n
    acc['counters']['ctx_contract_evaluations'] = acc['counters'].get('ctx_contract_evaluations', 0) + n
    return n


def replay(case):
    acc = common.new_acc()
    check(acc)
    for v in acc['violations']:
        if v['case'] == case:
            return {'violated': True, 'detail': '%s: observed %s ; expected %s' % (v['kind'], v['observed'], v['expected'])}
    return {'violated': False, 'detail': 'holds'}
