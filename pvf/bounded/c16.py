r"""C16 (bounded): colored output is the plain output plus well-nested styling.

Color output is FORCED ON (colorful.use_true_colors(); checked by asserting that cpprint(1) writes an ESC).
All styling is decoded with a small SGR state machine (state = fg, bg, bold, italic, underline, other).

(a) styles x tokens, exhaustive: every style of pygments.styles.get_all_styles() + the two bundled styles
    x every prettyprinter.syntax.Token member (x color modes true / 256 / 8):
      token-mapped          the token has an entry in _SYNTAX_TOKEN_TO_PYGMENTS_TOKEN
      style-crash           styleattrs_to_colorful(style.style_for_token(..)) does not raise
      color-only-sgr        str(color) consists of SGR sequences only
      style-attrs-decoded   (true colors) the SGR state after the color string == the style's attributes
(b) values: corpus of ~300 value expressions (strings with escapes, bytes, commented values, pretty_call user
    types, stdlib types) x 4 configurations x styles (quick: 4, thorough: all):
      cpprint-raises        cpprint does not raise where pformat does not
      strip-equals-plain    cpprint output with \x1b\[[0-9;]*m removed == pformat(..) + end
      ends-in-reset         decoded state after the last byte is the reset state
      char-style            per character: decoded state == state of the color string of the innermost
                            enclosing Token annotation of python_to_sdocs(value, ..) (reset state if none)
(c) documents built directly with prettyprinter.doc: token annotations nested to depth 3, non-token
    annotations (arbitrary objects) inside / outside / between them, text before/inside/after, line breaks;
    layout_smart at 2 widths; colored_render_to_stream vs default_render_to_stream:
      render-raises, strip-equals-plain, ends-in-reset, char-style  (as above; the expected per-character
      style comes from this module's own walk over the sdocs, so "the enclosing token's style is restored
      when an inner token / a non-token annotation ends" is part of char-style).
"""
import importlib
import io
import itertools
import random
import re
import time
import warnings

from . import common

SGR_RE = re.compile(r'\x1b\[([0-9;]*)m')
ONLY_SGR_RE = re.compile(r'(?:\x1b\[[0-9;]*m)*\Z')

RULE = ("non-trivial: (a) every (style, token, mode); (b),(c) a rendering that wrote at least one SGR sequence; "
        "key = part + style + annotation-nesting signature of the sdocs (sequence of push kinds T/N and pops, "
        "capped) + config")

RESET_STATE = (None, None, False, False, False, ())


# ---------------------------------------------------------------------------------------------
# SGR state machine
def sgr_apply(state, params):
    fg, bg, bold, italic, underline, other = state
    ps = [int(p) if p else 0 for p in params.split(';')]
    i = 0
    while i < len(ps):
        p = ps[i]
        if p == 0:
            fg, bg, bold, italic, underline, other = RESET_STATE
        elif p == 1:
            bold = True
        elif p == 22:
            bold = False
        elif p == 3:
            italic = True
        elif p == 23:
            italic = False
        elif p == 4:
            underline = True
        elif p == 24:
            underline = False
        elif 30 <= p <= 37:
            fg = ('ansi', p - 30)
        elif 90 <= p <= 97:
            fg = ('ansi-bright', p - 90)
        elif p == 39:
            fg = None
        elif 40 <= p <= 47:
            bg = ('ansi', p - 40)
        elif 100 <= p <= 107:
            bg = ('ansi-bright', p - 100)
        elif p == 49:
            bg = None
        elif p in (38, 48):
            col = None
            if i + 1 < len(ps) and ps[i + 1] == 5 and i + 2 < len(ps):
                col = ('256', ps[i + 2])
                i += 2
            elif i + 1 < len(ps) and ps[i + 1] == 2 and i + 4 < len(ps):
                col = ('rgb', ps[i + 2], ps[i + 3], ps[i + 4])
                i += 4
            else:
                other = other + (('malformed', p),)
            if col is not None:
                if p == 38:
                    fg = col
                else:
                    bg = col
        else:
            other = tuple(sorted(set(other) | {p}))
        i += 1
    return (fg, bg, bold, italic, underline, other)


def decode(text, state=RESET_STATE):
    """-> (list of (char, state), final state, number of SGR sequences)"""
    out = []
    pos = 0
    n = 0
    for m in SGR_RE.finditer(text):
        for ch in text[pos:m.start()]:
            out.append((ch, state))
        state = sgr_apply(state, m.group(1))
        n += 1
        pos = m.end()
    for ch in text[pos:]:
        out.append((ch, state))
    return out, state, n


def strip_sgr(text):
    return SGR_RE.sub('', text)


def fmt_state(s):
    if s == RESET_STATE:
        return 'reset'
    fg, bg, bold, italic, underline, other = s
    parts = []
    if fg:
        parts.append('fg=' + '/'.join(map(str, fg)))
    if bg:
        parts.append('bg=' + '/'.join(map(str, bg)))
    parts += [n for n, v in (('bold', bold), ('italic', italic), ('underline', underline)) if v]
    if other:
        parts.append('other=%r' % (other,))
    return ' '.join(parts)


# ---------------------------------------------------------------------------------------------
# real code, color forcing, styles
class _Env:
    def __init__(self):
        self.pp = common.load_repo()
        self.P = importlib.import_module('prettyprinter.prettyprinter')
        self.color = importlib.import_module('prettyprinter.color')
        self.doc = importlib.import_module('prettyprinter.doc')
        self.layout = importlib.import_module('prettyprinter.layout')
        self.render = importlib.import_module('prettyprinter.render')
        self.sdoctypes = importlib.import_module('prettyprinter.sdoctypes')
        self.Token = importlib.import_module('prettyprinter.syntax').Token
        import colorful
        self.colorful = colorful
        self.ns = None


_ENV = None


def env():
    global _ENV
    if _ENV is None:
        _ENV = _Env()
    return _ENV


_FORCED = []


class forced_color:
    """forces colorful's color mode; nested use with the same mode is free"""

    def __init__(self, mode='true'):
        self.mode = mode

    def __enter__(self):
        E = env()
        self.saved = E.colorful.colorful.colormode
        if _FORCED and _FORCED[-1] == self.mode:
            _FORCED.append(self.mode)
            return self
        _FORCED.append(self.mode)
        {'true': E.colorful.use_true_colors, '256': E.colorful.use_256_ansi_colors,
         '8': E.colorful.use_8_ansi_colors}[self.mode]()
        s = io.StringIO()
        E.pp.cpprint(1, stream=s)
        if '\x1b[' not in s.getvalue():
            raise RuntimeError('harness: could not force color output on (cpprint(1) wrote %r)' % s.getvalue())
        return self

    def __exit__(self, *a):
        _FORCED.pop()
        env().colorful.colorful.colormode = self.saved


BUNDLED = {'bundled:default_dark_style': 'default_dark_style', 'bundled:GitHubLightStyle': 'GitHubLightStyle'}


def all_style_names():
    from pygments.styles import get_all_styles
    return sorted(get_all_styles()) + sorted(BUNDLED)


def get_style(name):
    if name in BUNDLED:
        return getattr(env().color, BUNDLED[name])
    from pygments.styles import get_style_by_name
    return get_style_by_name(name)


def quick_styles(seed):
    rest = ['default', 'fruity'] + [n for n in all_style_names() if n not in BUNDLED and n not in ('default', 'fruity')]
    a, b = rest[(2 * seed) % len(rest)], rest[(2 * seed + 1) % len(rest)]
    return sorted(BUNDLED) + [a, b]


_TOKEN_COLOR = {}


def token_color(style, tok):
    """(color string, decoded state) of a Token under a style through the code under test; raises like it"""
    E = env()
    key = (style, tok, E.colorful.colorful.colormode)
    if key not in _TOKEN_COLOR:
        attrs = style.style_for_token(E.color._SYNTAX_TOKEN_TO_PYGMENTS_TOKEN[tok])
        c = E.color.styleattrs_to_colorful(attrs)
        s = str(c)
        _TOKEN_COLOR[key] = (s, decode(s)[1])
    return _TOKEN_COLOR[key]


def crash_tags(style_name, style, toks):
    E = env()
    tags = set()
    for tok in toks:
        try:
            attrs = style.style_for_token(E.color._SYNTAX_TOKEN_TO_PYGMENTS_TOKEN[tok])
        except Exception:
            tags.add('token-unmapped')
            continue
        try:
            E.color.styleattrs_to_colorful(attrs)
        except Exception:
            tags.add('style:' + style_name)
            if attrs.get('underline'):
                tags.add('attr:underline')
            if attrs.get('bgcolor') and not attrs.get('color'):
                tags.add('attr:bg-without-fg')
    return tags


# ---------------------------------------------------------------------------------------------
# expected per-character styles from a list of sdocs (own walk, does not use color.py's stack logic)
def expected_chars(sdocs, style, color_of=None):
    """-> list of (char, expected state).  Text: per line the last text sdoc is rstripped (render spec)."""
    E = env()
    SLine, Push, Pop = E.sdoctypes.SLine, E.sdoctypes.SAnnotationPush, E.sdoctypes.SAnnotationPop
    cache = {}

    def state_of(tok):
        if tok not in cache:
            cache[tok] = token_color(style, tok)[1]
        return cache[tok]

    # split into lines, rstrip the last text of each line
    lines, cur = [], []
    for sd in sdocs:
        if isinstance(sd, SLine):
            lines.append(cur)
            cur = [sd]
        else:
            cur.append(sd)
    lines.append(cur)
    out = []
    stack = []      # annotation values, innermost last
    for line in lines:
        idx = [i for i, sd in enumerate(line) if isinstance(sd, str)]
        last = idx[-1] if idx else -1
        for i, sd in enumerate(line):
            if isinstance(sd, (str, SLine)):
                if isinstance(sd, SLine):
                    text = '\n' + ' ' * sd.indent
                else:
                    text = sd.rstrip() if i == last else sd
                toks = [a for a in stack if isinstance(a, E.Token)]
                st = state_of(toks[-1]) if toks else RESET_STATE
                for ch in text:
                    out.append((ch, st))
            elif isinstance(sd, Push):
                stack.append(sd.value)
            elif isinstance(sd, Pop):
                if stack:
                    stack.pop()
    return out


def nesting_signature(sdocs, cap=24):
    E = env()
    Push, Pop = E.sdoctypes.SAnnotationPush, E.sdoctypes.SAnnotationPop
    sig = []
    for sd in sdocs:
        if isinstance(sd, Push):
            sig.append('T' if isinstance(sd.value, E.Token) else 'N')
        elif isinstance(sd, Pop):
            sig.append(')')
    s = ''.join(sig)
    # collapse repetitions of simple leaf tokens
    s = re.sub(r'(?:T\))+', 'L', s)
    return s[:cap]


def compare_chars(actual, expected):
    """first difference or None"""
    for i, (a, e) in enumerate(zip(actual, expected)):
        if a[0] != e[0]:
            return 'char %d: text %r vs expected text %r' % (i, a[0], e[0]), ''
        if a[1] != e[1]:
            ctx = ''.join(c for c, _ in actual[max(0, i - 8):i + 1])
            return ('char %d %r (..%r) shown as [%s]' % (i, a[0], ctx, fmt_state(a[1])),
                    '[%s]' % fmt_state(e[1]))
    if len(actual) != len(expected):
        return 'length %d vs %d' % (len(actual), len(expected)), ''
    return None


# ---------------------------------------------------------------------------------------------
# (a) styles x tokens
def _hex_rgb(h):
    h = h.lstrip('#')
    if len(h) == 3:
        h = ''.join(c * 2 for c in h)
    return ('rgb', int(h[0:2], 16), int(h[2:4], 16), int(h[4:6], 16))


def check_style_token(style_name, tok_name, mode, acc=None):
    E = env()
    vs = []
    case = {'part': 'style-token', 'style': style_name, 'token': tok_name, 'mode': mode}

    def ev(key=None):
        if acc is not None:
            acc['evaluations'] += 1
            if key:
                acc['nontrivial'].add(key)

    def bad(kind, observed, expected, tags):
        vs.append({'kind': kind, 'case': case, 'observed': observed, 'expected': expected, 'tags': sorted(tags)})

    tok = E.Token[tok_name]
    style = get_style(style_name)
    ev('a:%s:%s:%s' % (style_name, tok_name, mode))
    if tok not in E.color._SYNTAX_TOKEN_TO_PYGMENTS_TOKEN:
        bad('token-mapped', 'no entry for Token.%s' % tok_name, 'an entry', ['token:' + tok_name])
        return vs
    attrs = style.style_for_token(E.color._SYNTAX_TOKEN_TO_PYGMENTS_TOKEN[tok])
    with forced_color(mode):
        ev()
        try:
            c = E.color.styleattrs_to_colorful(attrs)
            s = str(c)
        except Exception as e:  # noqa
            tags = {'style:' + style_name}
            if attrs.get('underline'):
                tags.add('attr:underline')
            if attrs.get('bgcolor') and not attrs.get('color'):
                tags.add('attr:bg-without-fg')
            bad('style-crash', '%s: %s (attrs %r)' % (type(e).__name__, str(e)[:80],
                                                     {k: v for k, v in attrs.items() if v}),
                'a color', tags)
            return vs
        ev()
        if not ONLY_SGR_RE.match(s):
            bad('color-only-sgr', repr(s), 'SGR sequences only', ['style:' + style_name])
            return vs
        if mode == 'true':
            ev()
            got = decode(s)[1]
            want = (_hex_rgb(attrs['color']) if attrs.get('color') else None,
                    _hex_rgb(attrs['bgcolor']) if attrs.get('bgcolor') else None,
                    bool(attrs.get('bold')), bool(attrs.get('italic')), bool(attrs.get('underline')), ())
            if got != want:
                bad('style-attrs-decoded', '%r -> [%s]' % (s, fmt_state(got)), '[%s]' % fmt_state(want),
                    ['style:' + style_name])
    return vs


def _shard_a(arg):
    style_name, modes = arg
    warnings.simplefilter('ignore')
    acc = common.new_acc()
    E = env()
    for tok in E.Token:
        for mode in modes:
            acc['violations'].extend(check_style_token(style_name, tok.name, mode, acc))
    return acc


# ---------------------------------------------------------------------------------------------
# (b) values
def namespace():
    """Names usable in the corpus expressions."""
    E = env()
    if E.ns is not None:
        return E.ns
    import collections
    import datetime
    import decimal
    import enum
    import functools
    import types
    import uuid
    pp = E.pp

    class Pt:
        def __init__(self, *args, **kwargs):
            self.args, self.kwargs = args, kwargs

        def __repr__(self):
            return 'Pt(...)'
    Pt.__module__, Pt.__qualname__ = 'c16mod', 'Pt'

    class Hug:
        def __init__(self, arg):
            self.arg = arg
    Hug.__module__, Hug.__qualname__ = '__main__', 'Hug'

    class Plain:
        def __repr__(self):
            return '<Plain object\nwith a newline>'

    class Color(enum.Enum):
        RED = 1
        GREEN = 'g'

    class S(str):
        pass

    class L(list):
        pass

    @pp.register_pretty(Pt)
    def _pretty_pt(value, ctx):
        return pp.pretty_call(ctx, Pt, *value.args, **value.kwargs)

    @pp.register_pretty(Hug)
    def _pretty_hug(value, ctx):
        return pp.pretty_call(ctx, Hug, value.arg)

    def rec_list():
        x = [1]
        x.append(x)
        return x

    def rec_dict():
        d = {'k': 1}
        d['self'] = d
        return d

    ns = dict(comment=pp.comment, trailing_comment=pp.trailing_comment, Pt=Pt, Hug=Hug, Plain=Plain,
              Color=Color, S=S, L=L, rec_list=rec_list, rec_dict=rec_dict,
              nan=float('nan'), inf=float('inf'), collections=collections, datetime=datetime,
              decimal=decimal, functools=functools, types=types, uuid=uuid,
              OrderedDict=collections.OrderedDict, defaultdict=collections.defaultdict,
              Counter=collections.Counter, deque=collections.deque, ChainMap=collections.ChainMap)
    E.ns = ns
    return ns


HAND = [
    # strings with escapes, quotes, long / multi-line strings
    r"'\x00\x1f\t\n\r\x7f'", r"'it\'s \"quoted\"'", r"'back\\slash \\n'", r"'é中\U0001f600'",
    "'word ' * 30", "'a' * 100", "'line one\\nline two\\n' * 4", "'tab\\tsep ' * 12", "'\\n'", "' '", "'  lead and trail  '",
    "'x' * 79", "'ab cd' * 16 + '\\n'", "S('sub')", "S('long sub ' * 12)",
    r"b'\x00\xff\x80' * 12", "b'bytes with spaces ' * 8", r"b'q\'\"'", "b'a' * 100", r"bytearray(b'ba\x00')",
    "['a\\nb', b'a b ' * 10, 'c' * 30]", "{'k' * 30: 'v ' * 30}", "{'multi\\nline ' * 6: 1}", "('x ' * 40,)",
    # numbers and constants
    "-5", "10 ** 30", "-0.0", "1e-300", "-1.5e300", "nan", "-inf", "1j", "(-2+3.5j)", "True", "None", "...",
    "[True, False, None, ..., NotImplemented]", "decimal.Decimal('1.50')", "range(3)", "slice(1, 2)",
    # containers
    "list(range(30))", "tuple(range(25))", "set(range(12))", "frozenset(['a'])", "{i: str(i) * i for i in range(8)}",
    "{'a': {'b': {'c': {'d': [1, (2, {3})]}}}}", "[[[[[[1]]]]]]", "[(), [], {}, set(), frozenset()]",
    "{'b': 2, 'a': 1, 'c': [3, 2, 1]}", "{(1, 2): [1, 2], (0, 1): 'x'}", "[[1, 2, 3]] * 10", "{1: 'one', 0: 'zero', -1: 'neg'}",
    "L([1, 2])", "[L([1]), S('s')]", "rec_list()", "rec_dict()", "[rec_list(), rec_list()]",
    # commented values
    "comment(1, 'c')", "comment('s', 'a comment')", "comment([1, 2, 3], 'about the list')",
    "[comment(1, 'one'), 2]", "[1, comment(2, 'two')]", "(comment(1, 'c'), comment('x', 'd'))",
    "{comment('k', 'key c'): comment('v', 'value c')}", "{'k': comment([1, 2], 'vc')}",
    "comment([comment(1, 'inner')], 'outer')", "comment(1, 'many words ' * 12)",
    "comment('long ' * 20, 'long comment ' * 10)", "trailing_comment([1, 2], 'more')",
    "trailing_comment({'a': 1}, 'more keys')", "trailing_comment((1,), 't')", "[trailing_comment([1], 'x'), 2]",
    "comment(trailing_comment([1, 2], 'tc'), 'c')", "{comment(1, 'a'), 2}", "comment({'a': 'b' * 60}, 'c ' * 30)",
    "comment(Pt(1, x=2), 'call')", "Pt(comment(1, 'arg c'), y=comment('v', 'kw c'))", "comment(None, 'none')",
    "[comment('a\\nb', 'ml')]", "comment(b'by', 'bytes')", "comment(1.5, '# hash')",
    "Pt(trailing_comment([1, 2], 'in call'))",
    # user types through pretty_call
    "Pt()", "Pt(1)", "Pt(1, 'two', [3])", "Pt(x=1, y='y')", "Pt(1, k=Pt(2, k=Pt(3)))", "Pt('a ' * 40, key='b ' * 40)",
    "[Pt(1), Pt(x=[1, 2, 3])]", "{'p': Pt({'q': Pt()})}", "Hug([1, 2, 3])", "Hug({'a': 'x' * 70})", "Hug((1, 2))", "Hug('s')",
    "Hug(list(range(40)))", "Pt(*range(30))", "Pt(**{'k%d' % i: i for i in range(12)})", "Plain()", "[Plain(), Plain()]",
    # stdlib types with registered printers
    "OrderedDict([('a', 1), ('b', [2])])", "OrderedDict()", "defaultdict(list, {'a': [1]})", "defaultdict(int)",
    "Counter('abracadabra')", "Counter()", "deque([1, 2, 3])", "deque([1, 2], maxlen=5)", "ChainMap({'a': 1}, {'b': 2})",
    "datetime.datetime(2020, 1, 2, 3, 4, 5, 6)", "datetime.date(2020, 1, 2)", "datetime.time(1, 2)",
    "datetime.timedelta(days=1, seconds=2)", "datetime.timedelta(0)", "datetime.timedelta(days=-1, microseconds=5)",
    "datetime.datetime(2020, 1, 2, tzinfo=datetime.timezone.utc)",
    "uuid.UUID('12345678123456781234567812345678')", "Color.RED", "[Color.RED, Color.GREEN]", "{Color.GREEN: Color}",
    "types.SimpleNamespace(a=1, b='x')", "types.SimpleNamespace()", "types.MappingProxyType({'a': 1})",
    "functools.partial(int, '7', base=8)", "functools.partial(Pt, 1)", "int", "Pt", "len", "[str, dict, Color]",
    "Exception('boom', 2)", "KeyError('k')", "(i for i in ())", "lambda: 0", "object", "type",
    "{'d': datetime.date(2020, 1, 1), 'u': [uuid.UUID(int=5)], 'c': Counter('aab')}",
]


def corpus():
    """list of expression strings (evaluated in namespace())"""
    ns = namespace()
    out = []
    seen = set()

    def add(expr):
        if expr not in seen:
            seen.add(expr)
            out.append(expr)

    def add_value(v):
        r = repr(v)
        try:
            back = eval(r, dict(ns))
        except Exception:
            return
        if common.type_exact_equal(back, v):
            add(r)

    for v in common.LEAVES:
        add_value(v)
    for v in common.value_trees(2):
        add_value(v)
    small = [v for v in common.value_trees(3, leaves=[0, 'a', "q'", b'b', None, -1.5])]
    for v in small[::5]:
        add_value(v)
    for e in HAND:
        add(e)
    return out


CONFIGS = [
    ({}, '\n'),
    ({'width': 20, 'ribbon_width': 20, 'indent': 2}, ''),
    ({'width': 5, 'ribbon_width': 5, 'indent': 1, 'sort_dict_keys': True}, 'X'),
    ({'width': 40, 'ribbon_width': 30, 'depth': 2, 'max_seq_len': 2}, '\n'),
]


def check_value(expr, cfg_idx, style_name, acc=None, mode='true'):
    E = env()
    pp = E.pp
    kwargs, end = CONFIGS[cfg_idx]
    case = {'part': 'value', 'expr': expr, 'config': cfg_idx, 'style': style_name, 'mode': mode}
    vs = []

    def ev(key=None):
        if acc is not None:
            acc['evaluations'] += 1
            if key:
                acc['nontrivial'].add(key)

    def bad(kind, observed, expected, tags):
        vs.append({'kind': kind, 'case': case, 'observed': observed, 'expected': expected, 'tags': sorted(tags)})

    style = get_style(style_name)
    value = eval(expr, dict(namespace()))
    try:
        plain = pp.pformat(value, **kwargs)
    except Exception as e:  # noqa: not C16's business
        if acc is not None:
            acc['counters']['pformat_raised'] = acc['counters'].get('pformat_raised', 0) + 1
        return vs
    merged = dict(pp.get_default_config())
    merged.update(kwargs)
    sdocs = list(pp.python_to_sdocs(value, **merged))   # same object: ids / set order appear in the text
    toks = {sd.value for sd in sdocs
            if isinstance(sd, E.sdoctypes.SAnnotationPush) and isinstance(sd.value, E.Token)}
    has_nontoken = any(isinstance(sd, E.sdoctypes.SAnnotationPush) and not isinstance(sd.value, E.Token)
                       for sd in sdocs)
    base_tags = set()
    if has_nontoken:
        base_tags.add('non-token-annotation')
    with forced_color(mode):
        stream = io.StringIO()
        ev()
        try:
            pp.cpprint(value, stream=stream, style=style, end=end, **kwargs)
        except Exception as e:  # noqa
            tags = crash_tags(style_name, style, toks) or {'style:' + style_name, 'other-crash'}
            bad('cpprint-raises', '%s: %s' % (type(e).__name__, str(e)[:100]), 'output', base_tags | tags)
            return vs
        out = stream.getvalue()
        chars, final, nseq = decode(out)
        key = None
        if nseq:
            key = 'b:%s:%d:%s' % (style_name, cfg_idx, nesting_signature(sdocs))
        ev(key)
        if strip_sgr(out) != plain + end:
            bad('strip-equals-plain', common.shrink_repr(strip_sgr(out)), common.shrink_repr(plain + end), base_tags)
        ev()
        if final != RESET_STATE:
            bad('ends-in-reset', 'final state [%s]' % fmt_state(final), 'reset', base_tags)
        ev()
        try:
            expected = expected_chars(sdocs, style) + [(ch, RESET_STATE) for ch in end]
        except Exception:
            expected = None     # style crash on a token cpprint did not need: cannot happen; be safe
        if expected is not None:
            d = compare_chars(chars, expected)
            if d is not None:
                bad('char-style', d[0], d[1], base_tags)
    return vs


def _thin(acc, per_key=2):
    vs = acc['violations']
    acc['counters']['violations_before_thinning'] = acc['counters'].get('violations_before_thinning', 0) + len(vs)
    by = {}
    for v in vs:
        by.setdefault((v['kind'], tuple(v['tags'])), []).append(v)
    out = []
    for lst in by.values():
        lst.sort(key=lambda v: len(str(v['case'])))
        out.extend(lst[:per_key])
    acc['violations'] = out
    return acc


def _shard_b(arg):
    style_name, cfg_idx, exprs = arg
    warnings.simplefilter('ignore')
    acc = common.new_acc()
    with forced_color('true'):
        for k, expr in enumerate(exprs):
            acc['violations'].extend(check_value(expr, cfg_idx, style_name, acc))
        if k == 180 and cfg_idx == 1 and style_name.startswith('bundled:G'):
            acc['samples'].append({'part': 'value', 'expr': expr, 'config': cfg_idx, 'style': style_name})
    return _thin(acc)


# ---------------------------------------------------------------------------------------------
# (c) documents
NONTOKEN_KINDS = ['obj', 'int13', 'str', 'none', 'comment']


def build_doc(spec):
    E = env()
    D = E.doc
    k = spec[0]
    if k == 't':
        return spec[1]
    if k == 'cat':
        return D.concat([build_doc(s) for s in spec[1]])
    if k == 'tok':
        return D.annotate(E.Token[spec[1]], build_doc(spec[2]))
    if k == 'ann':
        kind = spec[1]
        val = {'obj': object(), 'int13': 13, 'str': 'note', 'none': None,
               'comment': E.P.CommentAnnotation('c')}[kind]
        return D.annotate(val, build_doc(spec[2]))
    if k == 'line':
        return D.LINE
    if k == 'soft':
        return D.SOFTLINE
    if k == 'hard':
        return D.HARDLINE
    if k == 'grp':
        return D.group(build_doc(spec[1]))
    if k == 'nest':
        return D.nest(spec[1], build_doc(spec[2]))
    raise ValueError(spec)


def spec_shape(spec, under_tok=False, tokdepth=0):
    """-> set of shape tags, max token depth"""
    k = spec[0]
    tags, depth = set(), tokdepth
    if k == 'tok':
        t, d = spec_shape(spec[2], True, tokdepth + 1)
        return t, d
    if k == 'ann':
        tags.add('non-token-annotation')
        tags.add('non-token-inside-token' if under_tok else 'non-token-outside-token')
        t, d = spec_shape(spec[2], under_tok, tokdepth)
        if under_tok is False and _has_tok(spec[2]):
            tags.add('token-inside-non-token')
        return tags | t, d
    kids = spec[1] if k == 'cat' else [spec[-1]] if k in ('grp', 'nest') else []
    for s in kids:
        t, d = spec_shape(s, under_tok, tokdepth)
        tags |= t
        depth = max(depth, d)
    return tags, depth


def _has_tok(spec):
    k = spec[0]
    if k == 'tok':
        return True
    kids = spec[1] if k == 'cat' else [spec[-1]] if k in ('grp', 'nest', 'ann') else []
    return any(_has_tok(s) for s in kids)


def spec_tokens(spec):
    k = spec[0]
    if k == 'tok':
        return {spec[1]} | spec_tokens(spec[2])
    kids = spec[1] if k == 'cat' else [spec[-1]] if k in ('grp', 'nest', 'ann') else []
    out = set()
    for s in kids:
        out |= spec_tokens(s)
    return out


def enum_docs(toks, kinds, n_tok=3, n_ann=2):
    """all chain-shaped documents: wrappers nested with at most n_tok token and n_ann non-token annotations;
    each body is text | wrapper | 'a' wrapper 'b' | 'a' LINE wrapper ' ' LINE 'b' """
    def bodies(t, a):
        yield ['t', 'x']
        for w in wrappers(t, a):
            yield w
            yield ['cat', [['t', 'a'], w, ['t', 'b']]]
            yield ['cat', [['t', 'a'], ['line'], w, ['t', ' '], ['line'], ['t', 'b']]]

    def wrappers(t, a):
        if t:
            for T in toks:
                for b in bodies(t - 1, a):
                    yield ['tok', T, b]
        if a:
            for K in kinds:
                for b in bodies(t, a - 1):
                    yield ['ann', K, b]

    for b in bodies(n_tok, n_ann):
        yield ['grp', ['nest', 2, b]]


def sibling_docs(toks, kinds):
    """two wrappers side by side (and inside a token): restoration after the first one ends"""
    ws = []
    for T in toks:
        ws.append(['tok', T, ['t', 'x']])
        for K in kinds:
            ws.append(['tok', T, ['cat', [['t', 'p'], ['ann', K, ['t', 'x']], ['t', 'q']]]])
            ws.append(['ann', K, ['tok', T, ['t', 'x']]])
    for K in kinds:
        ws.append(['ann', K, ['t', 'x']])
    for w1, w2 in itertools.product(ws, repeat=2):
        inner = ['cat', [w1, ['t', 'm'], ['hard'], w2, ['t', 'e']]]
        yield ['grp', inner]
        for T in toks[:1]:
            yield ['tok', T, inner]


def random_doc(rng, depth=0, n_tok=3, annotated=False):
    """random document spec; group / nest only directly around an annotation (group('text') and
    nest(i, 'text') are rejected by the constructors: C04's business, not C16's)"""
    r = rng.random()
    if annotated:
        r = 0.45 + r * 0.35 if n_tok else 0.7
    if depth >= 5 or r < 0.2:
        if annotated:
            return ['ann', rng.choice(NONTOKEN_KINDS), ['t', 'z']]
        return ['t', rng.choice(['x', 'ab', ' ', 'a b ', ''])]
    if r < 0.45:
        return ['cat', [random_doc(rng, depth + 1, n_tok) for _ in range(rng.randint(1, 3))]]
    if r < 0.65 and n_tok:
        return ['tok', rng.choice(TOKEN_NAMES), random_doc(rng, depth + 1, n_tok - 1)]
    if r < 0.8:
        return ['ann', rng.choice(NONTOKEN_KINDS), random_doc(rng, depth + 1, n_tok)]
    if r < 0.86:
        return ['grp', random_doc(rng, depth + 1, n_tok, annotated=True)]
    if r < 0.92:
        return ['nest', rng.randint(0, 4), random_doc(rng, depth + 1, n_tok, annotated=True)]
    return [rng.choice(['line', 'soft', 'hard'])]


TOKEN_NAMES = ['KEYWORD_CONSTANT', 'NAME_BUILTIN', 'NAME_ENTITY', 'NAME_FUNCTION', 'NAME_VARIABLE', 'LITERAL_STRING',
               'STRING_AFFIX', 'STRING_ESCAPE', 'NUMBER_BINARY', 'NUMBER_FLOAT', 'NUMBER_INT', 'OPERATOR',
               'PUNCTUATION', 'COMMENT_SINGLE']

DOC_WIDTHS = [79, 3]


def check_doc(spec, width, style_name, acc=None, mode='true'):
    E = env()
    case = {'part': 'doc', 'spec': spec, 'width': width, 'style': style_name, 'mode': mode}
    vs = []

    def ev(key=None):
        if acc is not None:
            acc['evaluations'] += 1
            if key:
                acc['nontrivial'].add(key)

    shape, depth = spec_shape(spec)

    def bad(kind, observed, expected, tags=()):
        vs.append({'kind': kind, 'case': case, 'observed': observed, 'expected': expected,
                   'tags': sorted(set(tags) | shape)})

    style = get_style(style_name)
    try:
        sdocs = list(E.layout.layout_smart(build_doc(spec), width=width))
    except Exception:   # document constructors / layout rejecting the doc: C04's business
        if acc is not None:
            acc['counters']['layout_raised'] = acc['counters'].get('layout_raised', 0) + 1
        return vs
    plain = io.StringIO()
    E.render.default_render_to_stream(plain, list(sdocs))
    plain = plain.getvalue()
    with forced_color(mode):
        stream = io.StringIO()
        ev()
        try:
            E.color.colored_render_to_stream(stream, list(sdocs), style)
        except Exception as e:  # noqa
            tags = crash_tags(style_name, style, [E.Token[t] for t in spec_tokens(spec)]) or \
                {'style:' + style_name, 'other-crash'}
            vs.append({'kind': 'render-raises', 'case': case, 'expected': 'output',
                       'observed': '%s: %s' % (type(e).__name__, str(e)[:100]), 'tags': sorted(tags)})
            return vs
        out = stream.getvalue()
        chars, final, nseq = decode(out)
        ev('c:%s:%d:%s' % (style_name, width, nesting_signature(sdocs)) if nseq else None)
        if strip_sgr(out) != plain:
            bad('strip-equals-plain', common.shrink_repr(strip_sgr(out)), common.shrink_repr(plain))
        ev()
        if final != RESET_STATE:
            bad('ends-in-reset', 'final state [%s] after %r' % (fmt_state(final), out[-40:]), 'reset')
        ev()
        d = compare_chars(chars, expected_chars(sdocs, style))
        if d is not None:
            bad('char-style', d[0], d[1])
    return vs


def doc_specs(tier, seed):
    if tier == 'quick':
        toks, kinds, n_ann = ['LITERAL_STRING', 'KEYWORD_CONSTANT'], ['obj'], 2
    else:
        toks, kinds, n_ann = ['LITERAL_STRING', 'KEYWORD_CONSTANT', 'COMMENT_SINGLE'], ['obj'], 2
    specs = list(enum_docs(toks, kinds, 3, n_ann))
    n_enum = len(specs)
    specs += list(sibling_docs(['LITERAL_STRING', 'KEYWORD_CONSTANT', 'NUMBER_INT'], ['obj', 'int13', 'comment']))
    n_sib = len(specs) - n_enum
    rng = random.Random(seed * 7717 + 5)
    n_rand = 2000 if tier == 'quick' else 20000
    specs += [['cat', [random_doc(rng), random_doc(rng)]] for _ in range(n_rand)]
    return specs, {'enumerated_chain_docs': n_enum, 'sibling_docs': n_sib, 'random_docs': n_rand,
                   'tokens_in_enumeration': toks, 'non_token_kinds_in_enumeration': kinds,
                   'max_token_depth': 3, 'max_non_token_annotations_per_chain': n_ann}


_DOC_SPECS = None


def _shard_c(arg):
    style_name, lo, hi, stride = arg
    warnings.simplefilter('ignore')
    acc = common.new_acc()
    with forced_color('true'):
        for k in range(lo, hi, stride):
            spec = _DOC_SPECS[k]
            for w in DOC_WIDTHS:
                acc['violations'].extend(check_doc(spec, w, style_name, acc))
            if k == 500 and style_name.startswith('bundled:G'):
                acc['samples'].append({'part': 'doc', 'spec': spec, 'width': DOC_WIDTHS[1], 'style': style_name})
    return _thin(acc)


# ---------------------------------------------------------------------------------------------
def run(tier, seed, jobs=16):
    global _DOC_SPECS
    tier, seed = common.tier_of(tier), common.seed_of(seed)
    t0 = time.time()
    warnings.simplefilter('ignore')
    with forced_color('true'):
        pass
    names = all_style_names()
    styles = quick_styles(seed) if tier == 'quick' else names
    # (a)
    res_a = common.pmap(_shard_a, [(n, ['true', '256', '8']) for n in names], jobs)
    ta = time.time()
    # (b)
    exprs = corpus()
    shards = [(s, c, exprs) for s in styles for c in range(len(CONFIGS))]
    res_b = common.pmap(_shard_b, shards, jobs)
    tb = time.time()
    # (c)
    _DOC_SPECS, doc_bounds = doc_specs(tier, seed)
    n = len(_DOC_SPECS)
    n_enum = doc_bounds['enumerated_chain_docs']
    # every document under `full_styles`; under the remaining styles (thorough) every 16th chain document
    # plus all sibling and random documents
    full_styles = styles if tier == 'quick' else quick_styles(seed) + ['algol', 'colorful', 'murphy', 'pastie']
    full_styles = [x for i, x in enumerate(full_styles) if x not in full_styles[:i]]
    chunks = max(1, -(-64 // len(full_styles)))
    step = -(-n // chunks)
    shards = [(s, lo, min(n, lo + step), 1) for s in full_styles for lo in range(0, n, step)]
    for s in styles:
        if s not in full_styles:
            shards.append((s, 0, n_enum, 16))
            shards.append((s, n_enum, n, 1))
    doc_bounds['all_docs_under_styles'] = full_styles
    doc_bounds['other_styles'] = ('%d styles: every 16th chain document + all sibling and random documents'
                                  % (len(styles) - len(full_styles)))
    res_c = common.pmap(_shard_c, shards, jobs)
    tc = time.time()
    acc = common.merge(res_a + res_b + res_c)
    acc['counters'].update({'evaluations_a': sum(r['evaluations'] for r in res_a),
                            'evaluations_b': sum(r['evaluations'] for r in res_b),
                            'evaluations_c': sum(r['evaluations'] for r in res_c),
                            'wall_a_s': round(ta - t0, 1), 'wall_b_s': round(tb - ta, 1),
                            'wall_c_s': round(tc - tb, 1), 'wall_s': round(tc - t0, 1)})
    E = env()
    bounds = {'tier': tier, 'seed': seed, 'color_mode': 'true colors forced ((a) also 256 and 8 colors)',
              'a_styles': len(names), 'a_tokens': len(list(E.Token)), 'a_exhaustive': True,
              'b_values': len(exprs), 'b_configs': len(CONFIGS), 'b_styles': styles if tier == 'quick' else len(styles),
              'c_docs': dict(doc_bounds, widths=DOC_WIDTHS, styles=len(styles))}
    return common.report(acc, RULE, bounds, exhaustive=False)


def replay(case):
    warnings.simplefilter('ignore')
    part = case.get('part')
    mode = case.get('mode', 'true')
    if part == 'style-token':
        vs = check_style_token(case['style'], case['token'], case.get('mode', 'true'))
    elif part == 'value':
        vs = check_value(case['expr'], case['config'], case['style'], mode=mode)
    elif part == 'doc':
        vs = check_doc(case['spec'], case['width'], case['style'], mode=mode)
    else:
        return {'violated': False, 'detail': 'unknown case %r' % (case,)}
    if not vs:
        return {'violated': False, 'detail': 'all postconditions hold'}
    return {'violated': True, 'detail': '; '.join('%s: observed %s, expected %s' % (v['kind'], v['observed'], v['expected'])
                                                  for v in vs[:3])}
