"""C11 - depth cuts off exactly below the requested nesting level (bounded stand-in).

"An element nested inside k containers is printed in full if k < d and is otherwise replaced by an ellipsis
placeholder of its own type; everything above the cut is printed exactly as without a limit; for every d greater than
the nesting height the output is identical to depth=None."  The hugged sole list/dict/tuple argument of a call
(frozenset([..]), OrderedDict([..]), Box([..])) does not consume a level.

Two independent oracles for the nesting level k of an element:
  * from the VALUE (the spec tree the value is built from): used for the leaves, postcondition `leaf-visibility`;
  * from the SYNTAX TREE of the unlimited output (containers = list/tuple/set/dict displays and calls, hug rule as
    above): used to construct the exact expected syntax tree for depth d.

Postconditions on ``pformat(v, depth=d, width=w)`` (U = pformat(v, depth=None, width=w)):
  raises / warning          no exception, no warning
  beyond-height-identical   d > height(v)  =>  output == U
  leaf-visibility           the literal of a uniquely identifiable leaf (distinct ints, strs 's<n>') nested inside k
                            containers occurs in the output  <=>  k < d
  above-cut-identical       every node of ast(U) at nesting < d is present unchanged in ast(output)
  cut-placeholders          every element of ast(U) at nesting == d is replaced by the placeholder of its own type:
                            [...]  (...)  {...}  set(...)  int(...)  str(...)  frozenset(...)  Cls(...)
                            (tuple placeholders are checked on the token stream: '(' '...' ')' )
  atom-placeholder          the same for elements that are not uniquely identifiable (True, False, None, ..., floats,
                            [], (), {}, set(), frozenset()): only probed by the separate `atoms` family

Tags: a violation record covers ONE class of discrepancy of one case (a case with two classes gives two records):
  str-key-at-cut     a str/bytes KEY of a dict, located exactly at the cut (k == d), is printed in full
  atom-below-cut     an atom (see above) at or below the cut is printed in full; with 'atom:<what>'
  anything else      '<class>', 'type:<node type>', 'site:<where>', 'k-d=<n>'
"""
import ast
import io
import random
import re
import time
import tokenize
from collections import OrderedDict

from pvf.bounded import common

pp = common.load_repo()
from prettyprinter import pformat, register_pretty, pretty_call, comment, trailing_comment      # noqa: E402

NSHARDS = 64
WIDTH_CYCLE = [79, 20, 1]


class Box:
    """registered user type, printed with pretty_call(ctx, Box, *args, **kwargs)"""
    __module__ = '__main__'

    def __init__(self, *args, **kwargs):
        self.args, self.kwargs = args, kwargs


@register_pretty(Box)
def _pretty_box(value, ctx):
    return pretty_call(ctx, Box, *value.args, **value.kwargs)


NS = {'Box': Box, 'OrderedDict': OrderedDict}


# ---------------------------------------------------------------------------------------------
# spec trees:  ('int', n) ('str', n) ('atom', expr)
#              ('list'|'tuple'|'set'|'frozenset', [child...])  ('dict'|'odict', [(k, v)...])
#              ('box', [arg...], [(name, child)...])
def is_leaf(s):
    return s[0] in ('int', 'str', 'atom')


HUGGED = ('list', 'dict', 'tuple')


def hashable_spec(s):
    k = s[0]
    if k in ('int', 'str'):
        return True
    if k == 'atom':
        return s[1] not in ('[]', '{}', 'set()')
    if k == 'tuple':
        return all(hashable_spec(c) for c in s[1])
    return k in ('frozenset', 'box')


def expr_of(s):
    k = s[0]
    if k == 'int':
        return str(s[1])
    if k == 'str':
        return repr('s%d' % s[1])
    if k == 'atom':
        return s[1]
    if k == 'list':
        return '[' + ', '.join(map(expr_of, s[1])) + ']'
    if k == 'tuple':
        return '(' + ', '.join(map(expr_of, s[1])) + (',' if len(s[1]) == 1 else '') + ')'
    if k == 'set':
        return '{' + ', '.join(map(expr_of, s[1])) + '}'
    if k == 'frozenset':
        return 'frozenset([' + ', '.join(map(expr_of, s[1])) + '])'
    if k == 'dict':
        return '{' + ', '.join('%s: %s' % (expr_of(a), expr_of(b)) for a, b in s[1]) + '}'
    if k == 'odict':
        return 'OrderedDict([' + ', '.join('(%s, %s)' % (expr_of(a), expr_of(b)) for a, b in s[1]) + '])'
    assert k == 'box'
    parts = [expr_of(a) for a in s[1]] + ['%s=%s' % (n, expr_of(v)) for n, v in s[2]]
    return 'Box(' + ', '.join(parts) + ')'


def leaves_of(s, k=0, site='top', out=None):
    """[(leaf spec, nesting level, site)] by the statement's counting, from the value alone"""
    if out is None:
        out = []
    kind = s[0]
    if is_leaf(s):
        out.append((s, k, site))
    elif kind in ('list', 'tuple', 'set', 'frozenset'):
        for c in s[1]:
            leaves_of(c, k + 1, kind + '-elt', out)
    elif kind == 'dict':
        for a, b in s[1]:
            leaves_of(a, k + 1, 'dict-key', out)
            leaves_of(b, k + 1, 'dict-value', out)
    elif kind == 'odict':
        # printed as OrderedDict([(key, value), ...]): the list is hugged, the item tuples are containers
        for a, b in s[1]:
            leaves_of(a, k + 2, 'odict-key', out)
            leaves_of(b, k + 2, 'odict-value', out)
    else:
        args, kwargs = s[1], s[2]
        if len(args) == 1 and not kwargs and args[0][0] in HUGGED:
            leaves_of(args[0], k, 'hugged-arg', out)            # does not consume a level
        else:
            for a in args:
                leaves_of(a, k + 1, 'call-arg', out)
            for _, v in kwargs:
                leaves_of(v, k + 1, 'call-kwarg', out)
    return out


def height_of(s):
    return max([k for _, k, _ in leaves_of(s)] or [0])


# ---------------------------------------------------------------------------------------------
# domain
SPINE_KINDS = ['list', 'tuple', 'set', 'frozenset', 'dictv', 'dictk', 'odictv', 'odictk', 'boxargs', 'boxkw',
               'boxsole']


class _Fresh:
    def __init__(self, parity):
        self.n = 100
        self.parity = parity

    def leaf(self):
        self.n += 1
        return ('int', self.n) if (self.n + self.parity) % 2 == 0 else ('str', self.n)


def wrap(kind, child, fresh, bushy):
    """container of `kind` around `child` (None if impossible); bushy: with fresh sibling leaves"""
    pre = [fresh.leaf()] if bushy else []
    post = [fresh.leaf()] if bushy else []
    if kind in ('list', 'tuple'):
        return (kind, pre + [child] + post)
    if kind in ('set', 'frozenset'):
        if not hashable_spec(child):
            return None
        return (kind, pre + [child] + post)
    if kind in ('dictv', 'odictv'):
        pairs = [(fresh.leaf(), x) for x in pre + [child] + post]
        return ('dict' if kind == 'dictv' else 'odict', pairs)
    if kind in ('dictk', 'odictk'):
        if not hashable_spec(child):
            return None
        pairs = [(x, fresh.leaf()) for x in pre + [child] + post]
        return ('dict' if kind == 'dictk' else 'odict', pairs)
    if kind == 'boxargs':
        return ('box', [fresh.leaf(), child] + post, [])
    if kind == 'boxkw':
        return ('box', pre, [('x', child)] + [('y', p) for p in post])
    assert kind == 'boxsole'
    return ('box', [child], [])


def spines(max_containers, max_height):
    """all chains of <= max_containers containers around one leaf, two sibling patterns, height <= max_height"""
    out = []
    idx = 0

    def rec(kinds):
        nonlocal idx
        if kinds:
            for bushy in (False, True):
                idx += 1
                fresh = _Fresh(idx % 2)
                s = fresh.leaf()
                ok = True
                for kd in reversed(kinds):
                    s = wrap(kd, s, fresh, bushy)
                    if s is None:
                        ok = False
                        break
                if ok and height_of(s) <= max_height:
                    out.append((s, ['spine']))
        if len(kinds) < max_containers:
            for kd in SPINE_KINDS:
                rec(kinds + [kd])

    rec([])
    return out


def random_tree(rng, fresh, budget, need_hashable=False):
    if budget <= 0 or rng.random() < 0.25:
        return fresh.leaf()
    kinds = ['tuple', 'frozenset', 'box'] if need_hashable else \
        ['list', 'tuple', 'set', 'frozenset', 'dict', 'odict', 'box']
    kind = rng.choice(kinds)
    n = rng.randint(1, 3)
    if kind in ('list',):
        return (kind, [random_tree(rng, fresh, budget - 1) for _ in range(n)])
    if kind == 'tuple':
        return (kind, [random_tree(rng, fresh, budget - 1, need_hashable) for _ in range(n)])
    if kind in ('set', 'frozenset'):
        return (kind, [random_tree(rng, fresh, budget - 1, True) for _ in range(n)])
    if kind in ('dict', 'odict'):
        cost = 1 if kind == 'dict' else 2
        return (kind, [(random_tree(rng, fresh, min(budget - cost, 1), True), random_tree(rng, fresh, budget - cost))
                       for _ in range(n)])
    shape = rng.choice(['sole', 'args', 'kw', 'mixed'])
    if shape == 'sole':
        return ('box', [random_tree(rng, fresh, budget - 1)], [])
    if shape == 'args':
        return ('box', [random_tree(rng, fresh, budget - 1) for _ in range(max(2, n))], [])
    if shape == 'kw':
        return ('box', [], [(nm, random_tree(rng, fresh, budget - 1)) for nm in 'xyz'[:n]])
    return ('box', [random_tree(rng, fresh, budget - 1)], [('x', random_tree(rng, fresh, budget - 1))])


# ('' is left out: at narrow widths the empty str literal is lost altogether, which is C01's finding, not C11's)
ATOMS = ['True', 'False', 'None', '...', '[]', '()', '{}', 'set()', 'frozenset()', '1.5', "b'x'"]


def atom_family():
    out = []
    for a in ATOMS:
        atom = ('atom', a)
        for kind in SPINE_KINDS:
            for bushy in (False, True):
                for outer in (None, 'list', 'dictv', 'boxargs'):
                    fresh = _Fresh(0)
                    s = wrap(kind, atom, fresh, bushy)
                    if s is None:
                        continue
                    if outer:
                        s = wrap(outer, s, fresh, False)
                    out.append((s, ['atoms']))
    return out


def domain(tier, seed):
    thorough = tier == 'thorough'
    H = 5 if thorough else 4
    dom = spines(H, H)
    rng = random.Random(seed)
    n_random = 30000 if thorough else 4000
    tries = 0
    count = 0
    while count < n_random and tries < 50 * n_random:
        tries += 1
        fresh = _Fresh(tries % 2)
        s = random_tree(rng, fresh, H)
        if is_leaf(s) or height_of(s) > H:
            continue
        try:
            eval(expr_of(s), dict(NS))
        except TypeError:
            continue
        dom.append((s, ['random']))
        count += 1
    dom.extend(atom_family())
    # deep trees (heights the enumeration never reaches: a depth threshold in a printer shows only here): chains of lists / tuples
    # with a second leaf at every level, 8, 12 and 70 levels deep
    for H2, kinds in ((8, ('list', 'tuple')), (12, ('list', 'list')), (70, ('list', 'tuple'))):
        n = [500]

        def leaf():
            n[0] += 1
            return ('int', n[0])
        t = leaf()
        for lvl in range(H2):
            t = (kinds[lvl % 2], [leaf(), t])
        dom.append((t, ['deep']))
    return dom


# ---------------------------------------------------------------------------------------------
# syntax trees
def wrap_src(text):
    return '[\n' + text + '\n]'


def parse_out(text):
    return ast.parse(wrap_src(text), mode='eval').body.elts[0]


def paren_ellipses(text):
    """set of (lineno, col) of '...' tokens that are directly enclosed in parentheses which are not call parentheses"""
    toks = [t for t in tokenize.generate_tokens(io.StringIO(wrap_src(text)).readline)
            if t.type not in (tokenize.NL, tokenize.NEWLINE, tokenize.COMMENT, tokenize.INDENT, tokenize.DEDENT)]
    out = set()
    for i, t in enumerate(toks):
        if t.type == tokenize.OP and t.string == '...' and 0 < i < len(toks) - 1:
            if toks[i - 1].string == '(' and toks[i + 1].string == ')':
                before = toks[i - 2] if i >= 2 else None
                is_call = before is not None and (before.type == tokenize.NAME or before.string in (')', ']'))
                if not is_call:
                    out.add(t.start)
    return out


def is_ellipsis(n):
    return isinstance(n, ast.Constant) and n.value is Ellipsis


def same(u, a):
    return ast.dump(u) == ast.dump(a)


def name_dump(name):
    return ast.dump(ast.Name(id=name, ctx=ast.Load()))


def placeholder_of(a, parens):
    """classify node `a` of the limited output as a placeholder, or None.  `parens`: positions of the '...' tokens
    that are parenthesised, i.e. tuple placeholders: '[(...)]' is a list holding a tuple placeholder, not '[...]'"""
    def bare(n):
        return is_ellipsis(n) and (n.lineno, n.col_offset) not in parens

    if isinstance(a, ast.List) and len(a.elts) == 1 and bare(a.elts[0]):
        return ('list', None)
    if isinstance(a, ast.Set) and len(a.elts) == 1 and bare(a.elts[0]):
        return ('dict', None)
    if is_ellipsis(a) and (a.lineno, a.col_offset) in parens:
        return ('tuple', None)
    if isinstance(a, ast.Call) and len(a.args) == 1 and not a.keywords and bare(a.args[0]):
        return ('call', ast.dump(a.func))
    return None


ANY = object()


def expected_placeholder(u):
    if isinstance(u, ast.List):
        return ('list', None)
    if isinstance(u, ast.Tuple):
        return ('tuple', None)
    if isinstance(u, ast.Dict):
        return ('dict', None)
    if isinstance(u, ast.Set):
        return ('call', name_dump('set'))
    if isinstance(u, ast.Call):
        return ('call', ast.dump(u.func))
    if isinstance(u, ast.Constant):
        v = u.value
        if v is None or v is Ellipsis:
            return ('call', ANY)
        return ('call', name_dump(type(v).__name__))
    return ('call', ANY)


def ph_equal(ph, exp):
    return ph is not None and ph[0] == exp[0] and (exp[1] is ANY or ph[1] == exp[1])


def atom_name(u):
    """name of an element that is not uniquely identifiable, else None"""
    if isinstance(u, ast.Constant):
        v = u.value
        if v is True or v is False or v is None:
            return repr(v)
        if v is Ellipsis:
            return 'Ellipsis'
        if isinstance(v, float):
            return 'float'
        return None
    if isinstance(u, (ast.List, ast.Tuple)) and not u.elts:
        return '[]' if isinstance(u, ast.List) else '()'
    if isinstance(u, ast.Dict) and not u.keys:
        return '{}'
    if isinstance(u, ast.Call) and not u.args and not u.keywords:
        return ast.unparse(u)
    return None


def node_type(u):
    if isinstance(u, ast.Constant):
        return type(u.value).__name__
    if isinstance(u, ast.Call):
        return 'call:' + ast.unparse(u.func)
    return type(u).__name__.lower()


def hugs(u):
    return (isinstance(u, ast.Call) and not u.keywords and len(u.args) == 1 and
            isinstance(u.args[0], (ast.List, ast.Dict, ast.Tuple)))


def children(u, a, k):
    """parallel children [(u child, a child, level, site)] or None when the node shapes differ"""
    if type(u) is not type(a):
        return None
    if isinstance(u, (ast.List, ast.Tuple, ast.Set)):
        if len(u.elts) != len(a.elts):
            return None
        site = type(u).__name__.lower() + '-elt'
        return [(x, y, k + 1, site) for x, y in zip(u.elts, a.elts)]
    if isinstance(u, ast.Dict):
        if len(u.keys) != len(a.keys):
            return None
        out = []
        for uk, uv, ak, av in zip(u.keys, u.values, a.keys, a.values):
            out.append((uk, ak, k + 1, 'dict-key'))
            out.append((uv, av, k + 1, 'dict-value'))
        return out
    if isinstance(u, ast.Call):
        if not same(u.func, a.func) or len(u.args) != len(a.args) or \
                [kw.arg for kw in u.keywords] != [kw.arg for kw in a.keywords]:
            return None
        if hugs(u):
            return [(u.args[0], a.args[0], k, 'hugged-arg')]
        return ([(x, y, k + 1, 'call-arg') for x, y in zip(u.args, a.args)] +
                [(x.value, y.value, k + 1, 'call-kwarg') for x, y in zip(u.keywords, a.keywords)])
    return [] if same(u, a) else None


def compare(u, a, d, parens):
    """discrepancies between the limited tree `a` and the tree expected from the unlimited tree `u` at depth d:
    list of (kind, tags, description)"""
    diffs = []

    def diff(cls, un, an, k, site):
        atom = atom_name(un)
        below = k >= d
        if below and cls == 'printed-in-full':
            if site == 'dict-key' and isinstance(un, ast.Constant) and isinstance(un.value, (str, bytes)) and k == d:
                kind, tags = 'cut-placeholders', ['str-key-at-cut']
            elif atom is not None:
                kind, tags = 'atom-placeholder', ['atom-below-cut', 'atom:' + atom]
                if k != d:
                    tags.append('k-d=%d' % (k - d))
            else:
                kind, tags = 'cut-placeholders', [cls, 'type:' + node_type(un), 'site:' + site, 'k-d=%d' % (k - d)]
        else:
            kind = 'cut-placeholders' if below else 'above-cut-identical'
            tags = [cls, 'type:' + node_type(un), 'site:' + site, 'k-d=%d' % (k - d)]
            if atom is not None:
                tags.append('atom:' + atom)
        diffs.append((kind, sorted(tags), '%s at nesting %d (%s): unlimited %s, depth-limited %s'
                      % (cls, k, site, ast.unparse(un), ast.unparse(an))))

    def rec(un, an, k, site):
        ph = placeholder_of(an, parens)
        exp = expected_placeholder(un)
        if k >= d:
            if ph_equal(ph, exp):
                return
            if same(un, an):
                diff('printed-in-full', un, an, k, site)
                return
            if ph is not None:
                diff('wrong-placeholder', un, an, k, site)
                return
            ch = children(un, an, k)
            if ch is None:
                diff('mismatch-below-cut', un, an, k, site)
                return
            diff('container-not-cut', un, an, k, site)
        else:
            u_is_ph_shaped = placeholder_of(un, set()) is not None or (is_ellipsis(un))
            if ph is not None and not u_is_ph_shaped:
                diff('cut-too-early' if ph_equal(ph, exp) else 'cut-too-early-wrong-placeholder', un, an, k, site)
                return
            ch = children(un, an, k)
            if ch is None:
                diff('above-cut-differs', un, an, k, site)
                return
        for x, y, kk, st in ch:
            rec(x, y, kk, st)

    rec(u, a, 0, 'top')
    return diffs


def leaf_regex(s):
    if s[0] == 'int':
        return re.compile(r'(?<![\w.])%d(?![\w.])' % s[1])
    return re.compile(re.escape(repr('s%d' % s[1])))


# ---------------------------------------------------------------------------------------------
def check_spec(spec, kwargs, value=None, unlimited=None):
    """all postconditions for one (value, depth, width); returns list of violations.
    The limited and the unlimited output are taken from the SAME object (the iteration order of a set of Box objects
    depends on their addresses)."""
    expr = expr_of(spec)
    case = {'expr': expr, 'kwargs': kwargs}
    d = kwargs.get('depth')
    if value is None:
        value = eval(expr, dict(NS))
        unlimited = None
    leaves = leaves_of(spec)
    height = max([k for _, k, _ in leaves] or [0])
    with common.caught_warnings() as cw:
        try:
            out = pformat(value, **kwargs)
        except Exception as e:                                   # noqa
            return [dict(kind='raises', case=case, observed='%s: %s' % (type(e).__name__, e), expected='no exception',
                         tags=['exc:' + type(e).__name__])]
    vs = []
    if cw.messages:
        vs.append(dict(kind='warning', case=case, observed=cw.messages[0][:300], expected='no warning', tags=[]))
    if unlimited is None:
        unlimited = pformat(value, **dict(kwargs, depth=None))
    dd = float('inf') if d is None else d
    # (1)
    if dd > height and out != unlimited:
        vs.append(dict(kind='beyond-height-identical', case=case, observed=repr(out),
                       expected='%r (depth=None; height %d)' % (unlimited, height),
                       tags=['d-height=%s' % ('None' if d is None else d - height)]))
    # (2)
    groups = {}
    for s, k, site in leaves:
        if s[0] == 'atom':
            continue
        seen = bool(leaf_regex(s).search(out))
        if seen == (k < dd):
            continue
        if seen:
            if site == 'dict-key' and s[0] == 'str' and k == dd:
                tags = ['str-key-at-cut']
            else:
                tags = ['leaf-below-cut-printed', 'type:' + s[0], 'site:' + site, 'k-d=%d' % (k - dd)]
        else:
            tags = ['leaf-above-cut-missing', 'type:' + s[0], 'site:' + site,
                    'k-d=%s' % ('-inf' if d is None else k - d)]
        groups.setdefault(tuple(sorted(tags)), []).append('%s (nesting %d, %s)' % (expr_of(s), k, site))
    for tags, items in groups.items():
        vs.append(dict(kind='leaf-visibility', case=case, observed='%s in output %r' % ('; '.join(items[:4]), out),
                       expected='a leaf is visible iff its nesting < depth (%s)' % d, tags=list(tags)))
    # (3) (4)
    if d is not None:
        try:
            u_tree = parse_out(unlimited)
        except SyntaxError as e:
            vs.append(dict(kind='above-cut-identical', case=case, observed='unlimited output %r: %s' % (unlimited, e),
                           expected='an expression', tags=['unlimited-unparsable']))
            return vs
        try:
            a_tree = parse_out(out)
            parens = paren_ellipses(out)
        except (SyntaxError, tokenize.TokenError) as e:
            vs.append(dict(kind='cut-placeholders', case=case, observed='output %r: %s' % (out, e),
                           expected='an expression', tags=['unparsable']))
            return vs
        groups = {}
        for kind, tags, desc in compare(u_tree, a_tree, d, parens):
            groups.setdefault((kind, tuple(tags)), []).append(desc)
        for (kind, tags), items in groups.items():
            vs.append(dict(kind=kind, case=case, observed='%s | output %r' % ('; '.join(items[:3]), out),
                           expected='unlimited output %r cut at nesting %d' % (unlimited, d), tags=list(tags)))
    return vs


def parse_spec(expr):
    """rebuild the spec tree from a case expression (replay): inverse of expr_of"""
    tree = ast.parse(expr, mode='eval').body

    def conv(n):
        if isinstance(n, ast.Constant):
            v = n.value
            if type(v) is int:
                return ('int', v)
            if type(v) is str and re.fullmatch(r's\d+', v):
                return ('str', int(v[1:]))
            return ('atom', ast.unparse(n))
        if isinstance(n, (ast.List, ast.Tuple, ast.Set)):
            if not n.elts:
                return ('atom', ast.unparse(n))
            return (type(n).__name__.lower(), [conv(x) for x in n.elts])
        if isinstance(n, ast.Dict):
            if not n.keys:
                return ('atom', '{}')
            return ('dict', [(conv(a), conv(b)) for a, b in zip(n.keys, n.values)])
        if isinstance(n, ast.Call) and isinstance(n.func, ast.Name):
            f = n.func.id
            if not n.args and not n.keywords and f in ('set', 'frozenset'):
                return ('atom', f + '()')
            if f == 'frozenset':
                return ('frozenset', [conv(x) for x in n.args[0].elts])
            if f == 'OrderedDict':
                return ('odict', [(conv(t.elts[0]), conv(t.elts[1])) for t in n.args[0].elts])
            if f == 'Box':
                return ('box', [conv(x) for x in n.args], [(kw.arg, conv(kw.value)) for kw in n.keywords])
        raise ValueError('cannot rebuild a spec from %s' % ast.unparse(n))

    return conv(tree)


# ---------------------------------------------------------------------------------------------
_DOMAIN = {}


# ---------------------------------------------------------------------------------------------
# commented values: "for any printable value - including commented values": a comment must not move the cut
COMMENT_TEXT = 'a remark that is long enough to be moved onto its own line above the value'
COMMENT_WIDTHS = [200, 40, 12]


def decorate(value, rng, p=0.5):
    """the same value with comment() around some list / tuple elements and dict values and trailing_comment() around some
    containers (sets and dict keys are left alone: annotations are not hashable stand-ins)"""
    t = type(value)
    if t in (list, tuple):
        out = t(comment(decorate(x, rng, p), COMMENT_TEXT) if rng.random() < p else decorate(x, rng, p) for x in value)
    elif t is dict:
        out = {k: (comment(decorate(v, rng, p), COMMENT_TEXT) if rng.random() < p else decorate(v, rng, p)) for k, v in value.items()}
    else:
        return value
    if out and rng.random() < 0.2:
        return trailing_comment(out, 'closing remark')
    return out


def _code_dump(text):
    return ast.dump(parse_out(text))


def check_commented(spec, value, depths, rng_seed, widths=None):
    """ast(pformat(commented, depth=d, width=w)) == ast(pformat(plain, depth=d, width=w)) for every d, w"""
    vs = []
    n = 0
    dec = decorate(value, random.Random(rng_seed))
    expr = expr_of(spec)
    for d in depths:
        for w in (widths or COMMENT_WIDTHS):
            n += 1
            kwargs = {'depth': d, 'width': w, 'sort_dict_keys': bool(rng_seed % 2)}
            case = {'expr': expr, 'kwargs': kwargs, 'commented': True, 'rng': rng_seed}
            try:
                with common.caught_warnings() as cw:
                    plain = pformat(value, **kwargs)
                    got = pformat(dec, **kwargs)
                a, b = _code_dump(plain), _code_dump(got)
            except Exception as e:      # noqa
                vs.append(dict(kind='commented-raises', case=case, observed='%s: %s' % (type(e).__name__, str(e)[:200]),
                               expected='a valid expression', tags=['site:commented']))
                continue
            if cw.messages:
                vs.append(dict(kind='commented-warning', case=case, observed=cw.messages[0][:300], expected='no warning', tags=['site:commented']))
            if a != b:
                vs.append(dict(kind='commented-cut-differs', case=case, observed=got[:400], expected=plain[:400], tags=['site:commented']))
    return n, vs


def _domain(tier, seed):
    if (tier, seed) not in _DOMAIN:
        _DOMAIN[(tier, seed)] = domain(tier, seed)
    return _DOMAIN[(tier, seed)]


def _shard(arg):
    tier, seed, shard = arg
    t0 = time.process_time()
    dom = _domain(tier, seed)
    acc = common.new_acc()
    cnt = acc['counters']
    best = {}
    for i, (spec, ftags) in enumerate(dom):
        if i % NSHARDS != shard:
            continue
        height = height_of(spec)
        width = WIDTH_CYCLE[i % 3]
        expr = expr_of(spec)
        value = eval(expr, dict(NS))
        sort = bool(i % 2)          # every second value is printed with sort_dict_keys=True: the cut must not depend on the key order setting
        unlimited = pformat(value, depth=None, width=width, sort_dict_keys=sort)
        if ftags[0] == 'atoms':
            atom_levels = [k for s, k, _ in leaves_of(spec) if s[0] == 'atom']
            depths = sorted(set(atom_levels))                     # exactly at the cut
        else:
            depths = list(range(0, height + 3)) + [None]
        for d in depths:
            kwargs = {'depth': d, 'width': width, 'sort_dict_keys': sort}
            vs = check_spec(spec, kwargs, value, unlimited)
            acc['evaluations'] += 1
            cnt['family:' + ftags[0]] = cnt.get('family:' + ftags[0], 0) + 1
            if d is not None and 0 < d <= height:
                acc['nontrivial'].add('%d:%s' % (i, d))
            if vs:
                cnt['violating_cases'] = cnt.get('violating_cases', 0) + 1
            elif len(acc['samples']) < 1 and d is not None and 0 < d < height and height >= 3:
                acc['samples'].append({'expr': expr, 'kwargs': kwargs, 'output': pformat(value, **kwargs)})
            for v in vs:
                cnt['violations_all'] = cnt.get('violations_all', 0) + 1
                cnt['violations:' + v['kind']] = cnt.get('violations:' + v['kind'], 0) + 1
                key = (v['kind'], tuple(v['tags']))
                size = len(expr)
                if key not in best or size < best[key][0]:
                    best[key] = (size, v)
        # commented variant of the same value (every 3rd value in the quick tier; containers with lists / tuples / dicts only)
        if ftags[0] in ('spine', 'random', 'deep') and (tier == 'thorough' or i % 3 == 0) and height <= 12:
            n, vs = check_commented(spec, value, [0, 1, 2, 3, None] if height <= 5 else [1, 3, None], seed * 1000003 + i)
            acc['evaluations'] += n
            cnt['family:commented'] = cnt.get('family:commented', 0) + n
            for v in vs:
                cnt['violations_all'] = cnt.get('violations_all', 0) + 1
                cnt['violations:' + v['kind']] = cnt.get('violations:' + v['kind'], 0) + 1
                key = (v['kind'], tuple(v['tags']))
                size = len(expr)
                if key not in best or size < best[key][0]:
                    best[key] = (size, v)
    acc['violations'] = [b[1] for b in best.values()]
    cnt['cpu_s'] = time.process_time() - t0
    return acc


def run(tier, seed, jobs=16):
    tier = common.tier_of(tier)
    seed = common.seed_of(seed)
    t0 = time.time()
    dom = _domain(tier, seed)
    results = common.pmap(_shard, [(tier, seed, s) for s in range(NSHARDS)], jobs)
    acc = common.merge(results)
    from . import ctx_contracts as _ctx      # run-time contracts of PrettyContext (exhaustive over field subsets)
    _ctx.check(acc)
    acc['counters']['cpu_s'] = round(acc['counters'].get('cpu_s', 0), 1)
    acc['counters']['wall_s'] = round(time.time() - t0, 1)
    fam = {}
    for _, tags in dom:
        fam[tags[0]] = fam.get(tags[0], 0) + 1
    H = 5 if tier == 'thorough' else 4
    bounds = {
        'values': '%d values %r.  spine: ALL chains of <= %d containers out of %r around one leaf, each alone and with '
                  'fresh sibling leaves at every level, kept when the nesting height is <= %d; random: bushy trees '
                  '(1..3 children per container, random.Random(seed)) with height <= %d; atoms: every atom %r as the '
                  'element of every container kind, alone / with siblings, at nesting 1 and 2, depth exactly at the '
                  'atom' % (len(dom), fam, H, SPINE_KINDS, H, H, ATOMS),
        'depths': '0 .. height + 2 and None (spine, random); the nesting of the atom (atoms)',
        'widths': 'one width per value, cycling through %r' % WIDTH_CYCLE,
        'leaves': 'distinct ints 101.. and strs \'s101\'.. (alternating), searched textually',
        'commented': 'every 3rd value (quick) / every value (thorough) once more with comment() around random list / tuple elements and '
                     'dict values and trailing_comment() around random containers: syntax tree equal to the uncommented print at depths '
                     '0..3 and None, widths %r' % COMMENT_WIDTHS,
        'not_covered': 'height above %d, containers with more than 3 elements, other registered types, '
                       'subclasses of the builtin containers, multi-line strings' % H,
        'seed': seed,
    }
    rule = 'a case is one (value, depth) pair with 0 < depth <= height of the value (the cut is inside the value)'
    rep = common.report(acc, rule, bounds, exhaustive=False, max_violations=200)
    rep['violations_total'] = acc['counters'].get('violations_all', 0)
    return rep


def replay(case):
    if isinstance(case, dict) and case.get('check') == 'ctx':
        from . import ctx_contracts as _ctx
        return _ctx.replay(case)
    try:
        spec = parse_spec(case['expr'])
    except Exception as e:                                       # noqa
        return {'violated': False, 'detail': 'cannot rebuild the input: %s' % e}
    if case.get('commented'):
        kw = dict(case.get('kwargs') or {})
        n, vs = check_commented(spec, eval(expr_of(spec), dict(NS)), [kw.get('depth')], case.get('rng', 0), widths=[kw.get('width', 79)])
    else:
        vs = check_spec(spec, dict(case.get('kwargs') or {}))
    if vs:
        return {'violated': True, 'detail': '; '.join('%s %s: observed %s; expected %s'
                                                      % (v['kind'], v['tags'], v['observed'], v['expected'])
                                                      for v in vs)[:2000]}
    return {'violated': False, 'detail': 'all postconditions hold'}
