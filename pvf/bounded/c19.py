"""C19 bounded stand-in: pformat is a pure function of (value, settings) within an interpreter; inputs are
never mutated.

Corpus: ~70 (value, kwargs) entries (see build_corpus): C01-style trees, strings needing splits, dicts printed
with sort_dict_keys=True (comparable and mutually incomparable keys), stdlib instances, subclass instances,
commented values, objects of lazily (by-name) registered types.  No entry prints an address or depends on the
hash seed, so every output is comparable across interpreters.

  (1) reference[i] = output of entry i printed FIRST in a fresh interpreter (one subprocess per entry).
      fresh-interpreter-nondeterministic  repeated fresh runs of the same entry disagree
      fresh-order-dependent               whole corpus printed in one fresh interpreter in some order
                                          (4 orders quick / 16 thorough): every output == reference[i]
  (2) history-dependent-output            in-process, seeded random sequences over the corpus (every entry at
                                          least once, random repetitions) with garbage allocated and freed in
                                          between: every output == reference[i]
      same-interpreter-outputs-differ     ... and equals the first output of the same entry in the same sequence
                                          (no reference to another interpreter involved)
  (3) input-mutated                       deep snapshot (types, order, contents, identity structure) of every
                                          input before and after a sequence is unchanged

case = {'mode': 'fresh-repeat'|'fresh-order'|'sequence', 'corpus_index': i, 'name': str, 'seed': int}
"""
import json
import os
import random
import subprocess
import sys
import warnings

from pvf import REPO, VERIF
from pvf.bounded import common

pp = common.load_repo()
from prettyprinter import pformat, comment, trailing_comment, register_pretty, pretty_call  # noqa: E402


# ---------------------------------------------------------------------------------------------
# user types of the corpus (module level so that a child interpreter sees the same names)
class C19List(list):
    pass


class C19Dict(dict):
    pass


class C19Str(str):
    pass


class C19Tuple(tuple):
    pass


class C19Set(set):
    pass


class C19Lazy:
    def __init__(self, a, b):
        self.a = a
        self.b = b

    def __repr__(self):
        return 'C19Lazy(%r, %r)' % (self.a, self.b)


class C19LazySub(C19Lazy):
    pass


class C19Other:
    """second lazily registered type, printed with keyword arguments"""
    def __init__(self, **kw):
        self.kw = kw

    def __repr__(self):
        return 'C19Other(**%r)' % (self.kw,)


def _lazy_key(cls):
    return cls.__module__ + '.' + cls.__qualname__


def _register_lazy():
    """by-name (deferred) registration, once per interpreter; the check itself does not promote the printer"""
    from prettyprinter import is_registered
    if not is_registered(C19Lazy, check_deferred=True, register_deferred=False):
        @register_pretty(_lazy_key(C19Lazy))
        def _c19_pretty_lazy(value, ctx):
            return pretty_call(ctx, type(value), value.a, value.b)
    if not is_registered(C19Other, check_deferred=True, register_deferred=False):
        @register_pretty(_lazy_key(C19Other))
        def _c19_pretty_other(value, ctx):
            return pretty_call(ctx, type(value), **value.kw)


_register_lazy()

WORDS = ('lorem ipsum dolor sit amet consectetur adipiscing elit sed do eiusmod tempor incididunt ut labore et '
         'dolore magna aliqua ut enim ad minim veniam quis nostrud exercitation ullamco laboris nisi ut aliquip')
INCOMPARABLE = 'sort-incomparable-keys'


def build_corpus():
    """-> list of (name, value, kwargs, tags); fresh objects on every call"""
    import collections
    import datetime
    import enum
    import fractions
    import functools
    import pathlib
    import time
    import types
    import uuid

    Point = collections.namedtuple('C19Point', 'x y')
    Point.__module__ = __name__
    Color = _color_enum(enum)

    c = []

    def add(name, value, kwargs=None, tags=()):
        c.append((name, value, dict(kwargs or {}), tuple(tags)))

    # C01-style trees
    add('int', 0)
    add('empty-list', [])
    add('empty-dict', {})
    add('small-list', [1, 2, 3])
    add('tuple1', (1,))
    add('nested-mixed', {'a': 1, 'b': [1, 2, {'c': (3, 4)}], 'd': {'e': {'f': [None, True, ...]}}})
    add('deep-list', [[[[[[1, [2, [3]]]]]]]])
    add('int-set', {1, 2, 3, 40, 500})
    add('int-frozenset', frozenset({7, 8, 9}))
    add('leaves', [0, -1, 10 ** 20, True, None, ..., 0.0, -0.0, float('inf'), float('-inf'), float('nan'), 1e300,
                   '', 'a', "'", '"', 'a b', '\\', '\n', '\xe9', b'', b"'", b'\x00'])
    add('tuple-keys', {(1, 2): 'a', (0,): 'b', (): [1]})
    add('wide-list-narrow', list(range(30)), {'width': 20})
    add('five-pairs', {'one': 1, 'two': 2, 'three': 3, 'four': 4, 'five': [5, 5, 5, 5, 5]})
    add('list-of-dicts', [{'id': i, 'tags': ['t%d' % j for j in range(i)]} for i in range(6)], {'width': 40})
    add('indent2', {'a': [1, 2, {'b': (1, 2, 3)}], 'c': list(range(25))}, {'indent': 2, 'width': 30})
    add('ribbon', [list(range(12)), {'k': list(range(12))}], {'width': 60, 'ribbon_width': 20})
    add('depth2', [[[[1]]], {'a': {'b': {'c': 1}}}, ([1, [2]],)], {'depth': 2})
    add('max-seq-len', list(range(50)), {'max_seq_len': 5})
    add('max-seq-len-dict', {i: str(i) for i in range(10)}, {'max_seq_len': 2})
    # strings
    add('long-words', WORDS)
    add('long-words-narrow', WORDS, {'width': 20})
    add('long-nobreak', 'x' * 200)
    add('escapes', 'it\'s a "quoted"\ttab\nnewline \\ backslash \x00 nul \xe9 中 ' * 4)
    add('long-bytes', bytes(range(256)))
    add('long-str-key', {WORDS[:120]: 1, 'v': WORDS[:100]}, {'width': 50})
    add('str-in-nesting', [[[['a fairly long string that will not fit in the remaining space', 'short']]]],
        {'width': 30})
    add('multiline-str-in-call', C19Lazy(WORDS[:90], [WORDS[:90]]), {'width': 50})
    # sort_dict_keys
    add('sort-int-keys', {3: 'c', 1: 'a', 2: 'b'}, {'sort_dict_keys': True})
    add('sort-str-keys', {'pear': 1, 'apple': 2, 'fig': {'z': 1, 'y': 2}}, {'sort_dict_keys': True})
    add('sort-tuple-keys', {(2, 1): 'a', (1, 9): 'b', (1, 2): 'c'}, {'sort_dict_keys': True})
    add('sort-nested', {'b': {'d': 1, 'c': 2}, 'a': [{'z': 1, 'x': 2}]}, {'sort_dict_keys': True, 'width': 20})
    add('incomparable-6', {1: 'a', 'x': 'b', (1,): 'c', None: 'd', 2.5: 'e', b'q': 'f'}, {'sort_dict_keys': True},
        [INCOMPARABLE])
    add('incomparable-2', {'x': 1, 2: 'y'}, {'sort_dict_keys': True}, [INCOMPARABLE])
    add('incomparable-nested', [{None: 1, 'n': 2, 3: 3}], {'sort_dict_keys': True}, [INCOMPARABLE])
    add('incomparable-unsorted', {1: 'a', 'x': 'b', (1,): 'c', None: 'd', 2.5: 'e', b'q': 'f'})
    add('counter-sorted', collections.Counter('abracadabra'), {'sort_dict_keys': True})
    # stdlib
    add('ordereddict', collections.OrderedDict([('b', 1), ('a', [1, 2])]))
    add('counter', collections.Counter('mississippi'))
    add('deque', collections.deque([1, 2, [3]], maxlen=5))
    add('defaultdict', collections.defaultdict(list, {'a': [1], 'b': []}))
    add('chainmap', collections.ChainMap({'a': 1}, {'b': 2}))
    add('datetime', datetime.datetime(2020, 2, 29, 13, 14, 15, 16))
    add('datetime-utc', datetime.datetime(2020, 2, 29, 13, 14, tzinfo=datetime.timezone.utc))
    add('date', datetime.date(1999, 12, 31))
    add('time', datetime.time(23, 59, 58))
    add('timedelta', datetime.timedelta(days=-2, seconds=3, microseconds=4))
    # equal-but-distinguishable values, and one value under different settings: a cache keyed by the value alone
    # (or by equality) makes the output depend on what was printed before
    add('zero-pos', 0.0)
    add('zero-neg', -0.0)
    add('zero-neg-nested', [-0.0, {'k': 0.0}])
    add('one-int', 1)
    add('one-bool', True)
    add('one-float', 1.0)
    add('ones', [1, True, 1.0, (1,), (True,), (1.0,)])
    add('str-vs-bytes', ['a', b'a'])
    _td = datetime.timedelta(days=400, seconds=3725, microseconds=1500)
    add('td', _td)
    add('td-narrow', _td, {'indent': 2, 'width': 10})
    add('td-neg', -_td)
    add('td-at-cut', [_td], {'depth': 1})
    add('td-wide', [_td], {'width': 200})
    _dt = datetime.datetime(2021, 3, 4, 5, 6, 7)
    add('dt-narrow', _dt, {'indent': 1, 'width': 12})
    add('dt-at-cut', [[_dt]], {'depth': 1})
    _od = collections.OrderedDict([('k', [1, 2, 3])])
    add('od-narrow', _od, {'indent': 2, 'width': 8})
    add('od-at-cut', [_od], {'depth': 1})
    add('od-truncated', collections.OrderedDict([(i, i) for i in range(6)]), {'max_seq_len': 2})
    add('namedtuple', Point(1, [2, 3]))
    add('struct-seq', time.gmtime(0))
    add('struct-seq-narrow', [time.gmtime(86400)], {'width': 30})
    add('enum', Color.RED)
    add('enum-list', [Color.GREEN, Color.RED])
    add('simplenamespace', types.SimpleNamespace(b=1, a=[1, 2]))
    add('mappingproxy', types.MappingProxyType({'a': 1}))
    add('uuid', uuid.UUID('12345678-1234-5678-1234-567812345678'))
    add('partial', functools.partial(int, '7', base=8))
    add('exception', ValueError('bad', 3))
    add('purepath', pathlib.PurePosixPath('/usr/lib/python3'))
    add('fraction', fractions.Fraction(3, 7))
    add('types-and-fns', [int, collections.OrderedDict, len, build_corpus, type(None)])
    add('range-slice', [range(3), slice(1, 2)])
    # subclasses
    add('list-subclass', C19List([1, 2]))
    add('dict-subclass', C19Dict(a=1))
    add('str-subclass', C19Str('hello'))
    add('str-subclass-long', [C19Str(WORDS[:100])], {'width': 40})
    add('tuple-subclass', C19Tuple((1, 2)))
    add('set-subclass', C19Set({1}))
    add('empty-subclasses', [C19List(), C19Dict(), C19Tuple(), C19Set()])
    # comments
    add('commented-top', comment([1, 2], 'top'))
    add('commented-elements', [comment(1, 'one'), 2, comment([3], 'three')])
    add('commented-dict-value', {'k': comment('v', 'vc'), 'n': comment({'m': comment(1, 'deep')}, 'nc')})
    add('commented-dict-key', {comment('k', 'kc'): 1})
    add('trailing-comment', trailing_comment([1, 2], 'more'))
    add('trailing-comment-dict', {'a': trailing_comment({'b': 1}, 'rest')})
    add('long-comment', [comment(1, WORDS)], {'width': 40})
    add('commented-call-args', C19Lazy(comment(1, 'first'), trailing_comment([2], 'tc')))
    # lazily registered types
    add('lazy', C19Lazy(1, [2, 3]))
    add('lazy-sub', C19LazySub({'a': 1}, None))
    add('lazy-mixed', [C19LazySub(1, 2), C19Lazy(3, 4), C19Other(x=1, y=[C19Lazy(5, 6)])])
    add('lazy-other-narrow', C19Other(alpha=list(range(10)), beta='b' * 30), {'width': 30})
    return c


_ENUM = []


def _color_enum(enum):
    if not _ENUM:
        class C19Color(enum.Enum):
            RED = 1
            GREEN = 'g'
        C19Color.__module__ = __name__
        C19Color.__qualname__ = 'C19Color'
        _ENUM.append(C19Color)
    return _ENUM[0]


# ---------------------------------------------------------------------------------------------
def show(value, kwargs):
    with warnings.catch_warnings():
        warnings.simplefilter('ignore')
        try:
            return pformat(value, **kwargs)
        except Exception as e:      # noqa
            return 'EXC:%s:%s' % (type(e).__name__, e)


def snapshot(v):
    """canonical string: types, order, contents and identity structure (shared/cyclic objects get a label)"""
    seen = {}
    out = []

    def go(x):
        if x is None or isinstance(x, (bool, int, float, complex, str, bytes)) and type(x) in (
                bool, int, float, complex, str, bytes):
            out.append(common.canon(x))
            return
        k = id(x)
        if k in seen:
            out.append('@%d' % seen[k])
            return
        seen[k] = len(seen)
        t = type(x)
        out.append('#%d<%s.%s>' % (seen[k], t.__module__, t.__qualname__))
        if isinstance(x, (str, bytes, int, float)):
            out.append(repr(x))
        if isinstance(x, dict):
            out.append('{')
            for kk, vv in list(dict.items(x)):
                go(kk)
                out.append(':')
                go(vv)
                out.append(',')
            out.append('}')
            if hasattr(x, 'default_factory'):
                out.append('df=%r' % (x.default_factory,))
        elif isinstance(x, (list, tuple)) or t.__name__ == 'deque':
            out.append('[')
            for e in list(x):
                go(e)
                out.append(',')
            out.append(']')
            if t.__name__ == 'deque':
                out.append('maxlen=%r' % (x.maxlen,))
        elif isinstance(x, (set, frozenset)):
            parts = []
            for e in x:
                sub = snapshot(e)
                parts.append(sub)
            out.append('{' + ','.join(sorted(parts)) + '}')
        elif t.__name__ == 'ChainMap':
            go(x.maps)
        elif t.__name__ in ('mappingproxy',):
            go(dict(x))
        elif t.__name__ == 'partial':
            out.append(repr(x.func))
            go(x.args)
            go(x.keywords)
        elif isinstance(x, BaseException):
            go(x.args)
        elif isinstance(x, type) or callable(x) and not hasattr(x, '__dict__'):
            out.append(repr(x))
        elif t.__module__ == 'ast' or t.__module__ == '_ast':
            import ast as _ast
            out.append(_ast.dump(x))
        elif t.__module__ == __name__ and not _is_enum(x) or t.__name__ in (
                '_CommentedValue', '_TrailingCommentedValue', 'SimpleNamespace'):
            d = getattr(x, '__dict__', None) or {}
            out.append('(')
            for kk in d:
                out.append(kk + '=')
                go(d[kk])
                out.append(',')
            out.append(')')
        else:
            out.append(repr(x))
    go(v)
    return ''.join(out)


def _is_enum(x):
    import enum
    return isinstance(x, enum.Enum)


class _Junk:
    __slots__ = ('value',)

    def __init__(self, value):
        self.value = value


def churn(rng, keep):
    """allocate and free objects (also of the size class of small slotted wrappers) so that addresses shift"""
    n = rng.randint(0, 400)
    tmp = [_Junk(i) for i in range(n)]
    tmp2 = [[i] for i in range(rng.randint(0, 200))]
    tmp3 = [object() for _ in range(rng.randint(0, 200))]
    r = rng.random()
    if r < 0.6 and tmp:
        step = rng.randint(2, 9)
        keep.append(tmp[rng.randrange(step)::step])     # keep a comb alive: fragments the pools
    if r > 0.8 and keep:
        del keep[rng.randrange(len(keep))]
    if len(keep) > 60:
        del keep[:rng.randint(1, 40)]
    del tmp, tmp2, tmp3


def sequence_for(seed, n):
    rng = random.Random(seed)
    order = list(range(n))
    rng.shuffle(order)
    extra = [rng.randrange(n) for _ in range(n)]
    seq = order + extra
    # local repetitions: the same entry twice in a row now and then
    out = []
    for i in seq:
        out.append(i)
        if rng.random() < 0.15:
            out.append(i)
    if rng.random() < 0.5:
        rng.shuffle(out)
    return out


def run_sequence(seed, reference, only=None):
    """-> (evaluations, violations) for one in-process sequence"""
    corpus = build_corpus()
    n = len(corpus)
    before = [snapshot(v) for _n, v, _k, _t in corpus]
    rng = random.Random(seed * 2654435761 % (2 ** 32))
    keep = []
    evals = 0
    vs = []
    reported = set()
    first = {}
    reported_same = set()
    for pos, i in enumerate(sequence_for(seed, n)):
        churn(rng, keep)
        name, value, kwargs, tags = corpus[i]
        out = show(value, kwargs)
        evals += 1
        if i not in first:
            first[i] = (pos, out)
        else:
            evals += 1
            if out != first[i][1] and i not in reported_same and (only is None or only == i):
                reported_same.add(i)
                vs.append({'kind': 'same-interpreter-outputs-differ',
                           'case': {'mode': 'sequence', 'corpus_index': i, 'name': name, 'seed': seed},
                           'observed': 'call %d of the sequence: %s' % (pos, out),
                           'expected': 'as in call %d of the same sequence: %s' % first[i],
                           'tags': sorted(set(tags) | {'entry:' + name})})
        if reference[i] is None:
            continue
        if out != reference[i] and i not in reported and (only is None or only == i):
            reported.add(i)
            vs.append({'kind': 'history-dependent-output',
                       'case': {'mode': 'sequence', 'corpus_index': i, 'name': name, 'seed': seed},
                       'observed': 'call %d of the sequence: %s' % (pos, out), 'expected': reference[i],
                       'tags': sorted(set(tags) | {'entry:' + name})})
    for i, (name, value, kwargs, tags) in enumerate(corpus):
        evals += 1
        after = snapshot(value)
        if after != before[i] and (only is None or only == i):
            vs.append({'kind': 'input-mutated',
                       'case': {'mode': 'sequence', 'corpus_index': i, 'name': name, 'seed': seed},
                       'observed': after[:300], 'expected': before[i][:300],
                       'tags': sorted(set(tags) | {'entry:' + name})})
    return evals, vs


# ---------------------------------------------------------------------------------------------
# fresh interpreters
CHILD = ("import sys, json; sys.path.insert(0, %r); from pvf.bounded import c19; c19.child_main()" % VERIF)


def child_main():
    order = json.loads(sys.argv[1])
    corpus = build_corpus()
    out = []
    for i in order:
        _name, value, kwargs, _tags = corpus[i]
        out.append([i, show(value, kwargs)])
    sys.stdout.write(json.dumps(out))


def fresh(order):
    env = dict(os.environ)
    env['PVF_REPO'] = REPO
    env.pop('PYTHONHASHSEED', None)
    p = subprocess.run([sys.executable, '-c', CHILD, json.dumps(order)], env=env, cwd=VERIF,
                       capture_output=True, text=True, timeout=300)
    if p.returncode != 0:
        raise RuntimeError('child failed: %s' % p.stderr[-2000:])
    return json.loads(p.stdout)


def order_for(seed, n):
    if seed == 0:
        return list(range(n))
    if seed == 1:
        return list(range(n - 1, -1, -1))
    rng = random.Random(seed)
    o = list(range(n))
    rng.shuffle(o)
    return o


def _job(job):
    acc = common.new_acc()
    kind = job['what']
    if kind == 'single':
        acc['_single'] = (job['index'], job['rep'], fresh([job['index']])[0][1])
    elif kind == 'order':
        acc['_order'] = (job['seed'], fresh(order_for(job['seed'], job['n'])))
    elif kind == 'sequence':
        evals, vs = run_sequence(job['seed'], job['reference'])
        acc['evaluations'] += evals
        acc['violations'].extend(vs)
        acc['counters']['sequences'] = 1
    return acc


def references(indices, reps, jobs):
    """-> {index: [outputs of `reps` fresh single-entry interpreters]}"""
    todo = [{'what': 'single', 'index': i, 'rep': r} for i in indices for r in range(reps)]
    res = common.pmap(_job, todo, jobs)
    out = {}
    for r in res:
        i, _rep, text = r['_single']
        out.setdefault(i, []).append(text)
    return out


def run(tier, seed, jobs=16):
    tier = common.tier_of(tier)
    seed = common.seed_of(seed)
    corpus = build_corpus()
    n = len(corpus)
    reps = 2 if tier == 'quick' else 4
    n_orders = 4 if tier == 'quick' else 16
    n_seqs = 48 if tier == 'quick' else 1200
    acc = common.new_acc()

    singles = references(range(n), reps, jobs)
    reference = {}
    for i in range(n):
        name, _v, kwargs, tags = corpus[i]
        outs = singles[i]
        reference[i] = outs[0]
        acc['evaluations'] += 1
        if len(set(outs)) > 1:
            acc['violations'].append({
                'kind': 'fresh-interpreter-nondeterministic',
                'case': {'mode': 'fresh-repeat', 'corpus_index': i, 'name': name, 'seed': 0},
                'observed': '%d different outputs in %d fresh interpreters, e.g. %s' % (
                    len(set(outs)), len(outs), sorted(set(outs))[1]),
                'expected': outs[0], 'tags': sorted(set(tags) | {'entry:' + name})})
        acc['nontrivial'].add(name)

    order_jobs = [{'what': 'order', 'seed': seed * 100 + k, 'n': n} for k in range(n_orders)]
    seq_jobs = [{'what': 'sequence', 'seed': seed * 100000 + k, 'reference': reference} for k in range(n_seqs)]
    res = common.pmap(_job, order_jobs + seq_jobs, jobs)
    for r in res:
        if '_order' in r:
            oseed, outs = r['_order']
            for i, text in outs:
                name, _v, _k, tags = corpus[i]
                acc['evaluations'] += 1
                if text != reference[i]:
                    acc['violations'].append({
                        'kind': 'fresh-order-dependent',
                        'case': {'mode': 'fresh-order', 'corpus_index': i, 'name': name, 'seed': oseed},
                        'observed': text, 'expected': reference[i],
                        'tags': sorted(set(tags) | {'entry:' + name})})
    merged = common.merge([r for r in res] + [acc])
    merged['counters']['fresh_single_interpreters'] = n * reps
    merged['counters']['fresh_order_interpreters'] = n_orders
    merged['samples'] = [{'name': corpus[i][0], 'kwargs': corpus[i][2], 'reference': reference[i][:200]}
                         for i in (5, 20, 32, 47)]
    return common.report(
        merged,
        rule='every corpus entry is a distinct non-trivial case (each has its own printer path or setting)',
        bounds={'tier': tier, 'corpus': n, 'fresh_single_interpreters_per_entry': reps,
                'fresh_whole_corpus_orders': n_orders, 'in_process_sequences': n_seqs,
                'calls_per_sequence': '~%d' % int(2.3 * n), 'garbage_between_calls': True},
        exhaustive=False, max_violations=40)


def replay(case):
    corpus = build_corpus()
    i = case['corpus_index']
    name, _v, kwargs, _t = corpus[i]
    if name != case.get('name', name):
        return {'violated': False, 'detail': 'corpus changed: entry %d is %s, not %s' % (i, name, case.get('name'))}
    mode = case['mode']
    if mode == 'fresh-repeat':
        outs = [fresh([i])[0][1] for _ in range(8)]
        return {'violated': len(set(outs)) > 1,
                'detail': '%d different outputs in 8 fresh interpreters' % len(set(outs))}
    if mode == 'fresh-order':
        # addresses differ from interpreter to interpreter: a handful of attempts
        detail = ''
        for attempt in range(6):
            ref = fresh([i])[0][1]
            outs = dict((k, t) for k, t in fresh(order_for(case['seed'], len(corpus))))
            detail = 'in order: %r / first in a fresh interpreter: %r' % (outs[i][:200], ref[:200])
            if outs[i] != ref:
                return {'violated': True, 'detail': detail}
        return {'violated': False, 'detail': detail + ' (6 attempts)'}
    ref = fresh([i])[0][1]
    reference = {k: None for k in range(len(corpus))}
    reference[i] = ref
    # up to 5 attempts: addresses are not under our control
    detail = ''
    for attempt in range(5):
        _e, vs = run_sequence(case['seed'] + attempt * 7919 * (attempt > 0), reference, only=i)
        if vs:
            return {'violated': True, 'detail': '%s: %s / expected %s' % (vs[0]['kind'], vs[0]['observed'][:300],
                                                                          vs[0]['expected'][:300])}
        detail = 'no difference in %d sequence runs' % (attempt + 1)
    return {'violated': False, 'detail': detail}
