"""C13 bounded stand-in: cycles are cut exactly at back-references, sharing prints in full, no residue.

Domain
  (a) every rooted directed graph with <= 3 (quick) / <= 4 (thorough) nodes, all reachable from the root and
      numbered in DFS preorder (one representative per isomorphism class), every node of kind
        'list'  [leaf, child, child]           'dict'  {'id': leaf, 'a': child, 'b': child}
        'tup'   [leaf, (child, child)]         (the list reaches its children only through a tuple)
      out-degree 0..2, edges to any node including the node itself; `leaf` is the distinct int 1000+i.
  (b) seeded random graphs with up to 10 nodes.
  (c) graphs that also contain nodes of a registered user type `C13Node` whose printer consults a fault plan
      (the i-th printer invocation raises), edges into user nodes optionally wrapped in trailing_comment:
      exhaustive for <= 2 nodes (4 kinds, all trailing-comment flags, every single fault, 3 exception classes) and
      for 3 nodes with exactly one user node (quick: list/user + KeyError; thorough: 4 kinds + KeyError and
      list/user + TypeError/ValueError); seeded random for 3 (quick) / 3..5 (thorough) nodes.
      A faulting user node must print as its repr (C13NODE_<leaf>), everything else as in the reference.

Oracle: a reference DFS from the root (children in element order) carrying the set of nodes on the DFS stack
produces the expected text: a node met while on the stack gives `<Recursion on T with id=N>`, anything else is
printed in full.  The output is compared with it token by token (markers, leaves) and as a whole modulo
whitespace.

case = {'kinds': [...], 'adj': [[...], ...], 'width': int,
        'tc': [[bool, ...], ...] (optional; per edge), 'fault': {'index': i, 'exc': name} (optional)}
"""
import itertools
import random
import re
import sys
import warnings

from pvf.bounded import common

pp = common.load_repo()
from prettyprinter import pformat, register_pretty, pretty_call, trailing_comment, is_registered  # noqa: E402

WIDTHS = (79, 20, 3)
MARKER_RE = re.compile(r'<Recursion on (\w+) with id=(\d+)>|(?<![\w.])(1\d{3})(?![\w.])')
WS_RE = re.compile(r'\s+')
EXCS = {'KeyError': KeyError, 'TypeError': TypeError, 'ValueError': ValueError}


# ---------------------------------------------------------------------------------------------
# instrumented user type
class C13Node:
    def __init__(self, leaf):
        self.leaf = leaf
        self.children = []

    def __repr__(self):
        return 'C13NODE_%d' % self.leaf


PLAN = {'count': 0, 'fault': None, 'exc': None}

if not is_registered(C13Node, check_deferred=False, register_deferred=False):
    @register_pretty(C13Node)
    def _c13_pretty_node(value, ctx):
        i = PLAN['count']
        PLAN['count'] = i + 1
        if PLAN['fault'] is not None and i == PLAN['fault']:
            raise PLAN['exc']('c13 planned fault at invocation %d' % i)
        return pretty_call(ctx, C13Node, value.leaf, *value.children)

USER_NAME = '%s.%s' % (C13Node.__module__, C13Node.__qualname__)


# ---------------------------------------------------------------------------------------------
# graphs
def build_graph(case):
    kinds, adj = case['kinds'], case['adj']
    tc = case.get('tc')
    objs = []
    for i, k in enumerate(kinds):
        leaf = 1000 + i
        if k == 'dict':
            objs.append({'id': leaf})
        elif k == 'user':
            objs.append(C13Node(leaf))
        elif k == 'tnode':
            objs.append((leaf, []))          # the node IS a tuple; its children sit in the list it holds
        else:
            objs.append([leaf])
    for i, k in enumerate(kinds):
        kids = []
        for j, c in enumerate(adj[i]):
            child = objs[c]
            if tc and tc[i][j]:
                child = trailing_comment(child, 'tc')
            kids.append(child)
        if k == 'list':
            objs[i].extend(kids)
        elif k == 'dict':
            for key, child in zip('ab', kids):
                objs[i][key] = child
        elif k == 'tup':
            objs[i].append(tuple(kids))
        elif k == 'tnode':
            objs[i][1].extend(kids)
        else:
            objs[i].children = kids
    return objs


def type_name(kind):
    return {'list': 'list', 'dict': 'dict', 'tup': 'list', 'user': 'C13Node', 'tnode': 'tuple'}[kind]


class TooBig(Exception):
    pass


def expected(case, objs, fault=None, limit=20000):
    """-> (flat text, tokens, stats) of the reference traversal; fault = invocation index whose node prints as repr"""
    kinds, adj = case['kinds'], case['adj']
    tokens = []
    stats = {'markers': 0, 'full': {}, 'user_calls': 0}

    def go(i, path):
        if len(tokens) > limit:
            raise TooBig()
        if i in path:
            tokens.append(('marker', type_name(kinds[i]), i))
            stats['markers'] += 1
            return '<Recursion on %s with id=%d>' % (type_name(kinds[i]), id(objs[i]))
        k = kinds[i]
        if k == 'user':
            n = stats['user_calls']
            stats['user_calls'] = n + 1
            if fault is not None and n == fault:
                tokens.append(('repr', i))
                stats['faulted'] = i
                return repr(objs[i])
        tokens.append(('leaf', i))
        stats['full'][i] = stats['full'].get(i, 0) + 1
        leaf = str(1000 + i)
        path = path | {i}
        kids = [go(c, path) for c in adj[i]]
        if k == 'list':
            return '[' + ', '.join([leaf] + kids) + ']'
        if k == 'dict':
            return '{' + ', '.join(["'id': " + leaf] + ["'%s': %s" % (key, t) for key, t in zip('ab', kids)]) + '}'
        if k == 'tup':
            inner = '(' + ', '.join(kids) + (',' if len(kids) == 1 else '') + ')'
            return '[' + leaf + ', ' + inner + ']'
        if k == 'tnode':
            return '(' + leaf + ', [' + ', '.join(kids) + '])'
        return USER_NAME + '(' + ', '.join([leaf] + kids) + ')'

    text = go(0, frozenset())
    return text, tokens, stats


def observed_tokens(out, objs, kinds):
    by_id = {id(o): i for i, o in enumerate(objs)}
    toks = []
    for m in MARKER_RE.finditer(out):
        if m.group(1) is not None:
            toks.append(('marker', m.group(1), by_id.get(int(m.group(2)), 'unknown-id')))
        else:
            toks.append(('leaf', int(m.group(3)) - 1000))
    return toks


def marker_diff(exp, obs):
    """multiset difference of marker lists -> [(kind, missing/extra, _)]"""
    e, o = list(exp), list(obs)
    for m in list(e):
        if m in o:
            e.remove(m)
            o.remove(m)
    out = []
    if e:
        out.append(('marker-missing', e, None))
    if o:
        out.append(('marker-spurious', o, None))
    return out


def strip_ws(s):
    return WS_RE.sub('', s)


def shape_tags(case, stats, fault_run=False):
    kinds, adj = case['kinds'], case['adj']
    tags = {'nodes:%d' % len(kinds)}
    for k in set(kinds):
        tags.add('kind:' + k)
    if stats['markers']:
        tags.add('has-cycle')
    if any(i in a for i, a in enumerate(adj)):
        tags.add('self-loop')
    if any(v > 1 for v in stats['full'].values()):
        tags.add('has-sharing')
    if case.get('tc') and any(any(r) for r in case['tc']):
        tags.add('under-trailing-comment')
    if fault_run:
        tags = {t for t in tags if not t.startswith(('kind:', 'nodes:')) and t != 'self-loop'}
        tags.add('after-printer-failure')
        tags.add('exc:' + case['fault']['exc'])
    return sorted(tags)


_OTHER = []


def other_graph():
    if not _OTHER:
        a = [1]
        a.append(a)
        d = {'x': a}
        d['self'] = d
        a.append((d,))
        _OTHER.append(d)
    return _OTHER[0]


class NoTermination(BaseException):      # not an Exception: the package swallows those around printers
    pass


def quiet_pformat(value, **kw):
    """pformat under a CPU-time alarm: a print that does not finish is a violation of C13 (termination), and it must not
    hang the check.  The budget is CPU time of this process (ITIMER_VIRTUAL), never wall time: on a loaded machine a
    print of a 4-node graph was once descheduled for longer than a 4 s wall-clock budget and reported as non-terminating
    (false alarm of a thorough run, corrected)."""
    import signal

    def on_alarm(signum, frame):
        raise NoTermination()
    old = signal.signal(signal.SIGVTALRM, on_alarm)
    # repeating timer: at the recursion limit the Python-level handler itself fails with RecursionError (which the
    # package swallows around printers), so one shot is not enough
    signal.setitimer(signal.ITIMER_VIRTUAL, PFORMAT_BUDGET_S, 0.05)
    old_limit = sys.getrecursionlimit()
    sys.setrecursionlimit(min(old_limit, 1500))      # graphs here have <= 10 nodes: a deep recursion is a failure, fail fast
    try:
        with warnings.catch_warnings():
            warnings.simplefilter('ignore')
            return pformat(value, **kw)
    finally:
        signal.setitimer(signal.ITIMER_VIRTUAL, 0)
        signal.signal(signal.SIGVTALRM, old)
        sys.setrecursionlimit(old_limit)


PFORMAT_BUDGET_S = 4


def check_case(case, acc=None):
    """-> list of violations (dicts without 'case')"""
    acc = acc if acc is not None else common.new_acc()
    vs = []
    objs = build_graph(case)
    root = objs[0]
    kinds = case['kinds']
    width = case.get('width', 79)
    PLAN.update(count=0, fault=None, exc=None)
    try:
        exp_text, exp_tokens, stats = expected(case, objs)
    except TooBig:
        return None
    tags = shape_tags(case, stats)

    def add(kind, observed, expected_, t=None):
        vs.append({'kind': kind, 'case': case, 'observed': str(observed)[:400], 'expected': str(expected_)[:400],
                   'tags': t or tags})

    # 1. termination
    acc['evaluations'] += 1
    try:
        out1 = quiet_pformat(root, width=width)
    except BaseException as e:     # noqa
        if isinstance(e, (KeyboardInterrupt, SystemExit)):
            raise
        add('terminates', '%s: %s' % (type(e).__name__, str(e)[:100]), 'pformat returns')
        return vs
    # 2. markers exactly at back edges, right type and id
    acc['evaluations'] += 1
    obs_tokens = observed_tokens(out1, objs, kinds)
    exp_simple = [t for t in exp_tokens if t[0] != 'repr']
    exp_markers = sorted((t[1], str(t[2])) for t in exp_simple if t[0] == 'marker')
    obs_markers = sorted((t[1], str(t[2])) for t in obs_tokens if t[0] == 'marker')
    ok = True
    for kind, a, b in marker_diff(exp_markers, obs_markers):
        ok = False
        add(kind, 'markers (type, node) %s in %s' % (obs_markers, out1), 'markers %s in %s' % (exp_markers, exp_text))
    # 3. shared occurrences printed in full
    acc['evaluations'] += 1
    obs_full = {}
    for t in obs_tokens:
        if t[0] == 'leaf':
            obs_full[t[1]] = obs_full.get(t[1], 0) + 1
    if obs_full != stats['full']:
        ok = False
        add('shared-printed-in-full', 'full prints per node %s' % sorted(obs_full.items()),
            'full prints per node %s' % sorted(stats['full'].items()))
    # 4. order of tokens and everything else
    acc['evaluations'] += 1
    if ok and (obs_tokens != exp_simple or strip_ws(out1) != strip_ws(exp_text)):
        add('structure', out1, exp_text)
    # 5. no residue
    acc['evaluations'] += 1
    try:
        out2 = quiet_pformat(root, width=width)
        if out2 != out1:
            add('reprint-differs', out2, out1)
        acc['evaluations'] += 1
        quiet_pformat(other_graph(), width=width)
        out3 = quiet_pformat(root, width=width)
        if out3 != out1:
            add('residue-after-other', out3, out1)
    except BaseException as e:     # noqa
        if isinstance(e, (KeyboardInterrupt, SystemExit)):
            raise
        add('terminates', 'on re-print: %s: %s' % (type(e).__name__, str(e)[:100]), 'pformat returns')
        return vs
    if stats['markers'] or any(v > 1 for v in stats['full'].values()):
        acc['nontrivial'].add(case_key(case))

    # 6. failure of a user printer while a cycle may be open
    if case.get('fault'):
        f = case['fault']
        ftags = shape_tags(case, stats, fault_run=True)
        fexp_text, fexp_tokens, fstats = expected(case, objs, fault=f['index'])
        if 'faulted' in fstats:
            acc['evaluations'] += 1
            PLAN.update(count=0, fault=f['index'], exc=EXCS[f['exc']])
            try:
                try:
                    outf = quiet_pformat(root, width=width)
                    err = None
                except Exception as e:     # noqa
                    outf, err = None, e
            finally:
                PLAN.update(count=0, fault=None, exc=None)
            if err is not None:
                add('exception-escaped', '%s: %s' % (type(err).__name__, str(err)[:100]),
                    'pformat returns; faulting node printed as its repr', ftags)
            else:
                otoks = observed_tokens(outf, objs, kinds)
                e_markers = sorted((t[1], str(t[2])) for t in fexp_tokens if t[0] == 'marker')
                o_markers = sorted((t[1], str(t[2])) for t in otoks if t[0] == 'marker')
                for kind, a, b in marker_diff(e_markers, o_markers):
                    add(kind, 'markers %s in %s' % (o_markers, outf), 'markers %s in %s' % (e_markers, fexp_text),
                        ftags)
                if e_markers == o_markers and strip_ws(outf) != strip_ws(fexp_text):
                    add('structure', outf, fexp_text, ftags)
            acc['evaluations'] += 1
            try:
                out4 = quiet_pformat(root, width=width)
            except Exception as e:     # noqa
                out4 = '%s: %s' % (type(e).__name__, e)
            if out4 != out1:
                add('residue-after-failure', out4, out1, ftags)
            acc['nontrivial'].add(case_key(case))
    return vs


def case_key(case):
    return '%s|%s|%s|%s' % (','.join(case['kinds']), case['adj'], case.get('tc'), case.get('fault'))


# ---------------------------------------------------------------------------------------------
# enumeration
def canonical_adjacencies(k):
    """adjacency lists (out-degree 0..2) where DFS preorder from 0 numbers the nodes 0..k-1 and reaches all"""
    options = [()] + [(a,) for a in range(k)] + [(a, b) for a in range(k) for b in range(k)]
    out = []
    for adj in itertools.product(options, repeat=k):
        order = []
        seen = set()

        def dfs(i):
            seen.add(i)
            order.append(i)
            for c in adj[i]:
                if c not in seen:
                    dfs(c)
        dfs(0)
        if order == list(range(k)):
            out.append([list(a) for a in adj])
    return out


def user_invocations(case):
    objs = build_graph(case)
    try:
        return expected(case, objs)[2]['user_calls']
    except TooBig:
        return 0


def run_shard(shard):
    acc = common.new_acc()
    what = shard['what']
    if what == 'exhaustive':
        k, kinds = shard['k'], shard['kinds']
        for n, adj in enumerate(shard['adjs']):
            case = {'kinds': list(kinds), 'adj': adj, 'width': WIDTHS[(n + shard['index']) % len(WIDTHS)]}
            _eval(case, acc)
    elif what == 'random':
        rng = random.Random(shard['seed'])
        for _ in range(shard['count']):
            k = rng.randint(shard['min_nodes'], shard['max_nodes'])
            kinds = [rng.choice(['list', 'dict', 'tup', 'tnode']) for _ in range(k)]
            adj = [[rng.randrange(k) for _ in range(rng.choice([0, 1, 1, 2, 2]))] for _ in range(k)]
            case = {'kinds': kinds, 'adj': adj, 'width': rng.choice(WIDTHS)}
            _eval(case, acc)
    elif what == 'user-exhaustive':
        for case in user_exhaustive_cases(shard['k'], shard['kinds'], shard['excs'], shard['part'], shard['parts']):
            _eval(case, acc)
            acc['counters']['user_exhaustive_cases'] = acc['counters'].get('user_exhaustive_cases', 0) + 1
    elif what == 'user-random':
        rng = random.Random(shard['seed'])
        for _ in range(shard['count']):
            k = rng.randint(shard['min_nodes'], shard['max_nodes'])
            kinds = [rng.choice(['list', 'dict', 'tup', 'tnode', 'user', 'user']) for _ in range(k)]
            if 'user' not in kinds:
                kinds[rng.randrange(k)] = 'user'
            adj = [[rng.randrange(k) for _ in range(rng.choice([0, 1, 1, 2, 2]))] for _ in range(k)]
            tc = [[kinds[c] == 'user' and rng.random() < 0.5 for c in a] for a in adj]
            case = {'kinds': kinds, 'adj': adj, 'width': rng.choice(WIDTHS), 'tc': tc}
            m = user_invocations(case)
            if m:
                case['fault'] = {'index': rng.randrange(m), 'exc': rng.choice(sorted(EXCS))}
            _eval(case, acc)
    return acc


def _eval(case, acc):
    # once a shard has seen a few prints that do not terminate, the property is decided: do not spend the alarm
    # budget on every remaining graph of the shard
    if acc['counters'].get('no_termination', 0) >= 2:
        acc['counters']['skipped_after_no_termination'] = acc['counters'].get('skipped_after_no_termination', 0) + 1
        return
    vs = check_case(case, acc)
    if vs and any(v['kind'] == 'terminates' for v in vs):
        acc['counters']['no_termination'] = acc['counters'].get('no_termination', 0) + 1
    if vs is None:
        acc['counters']['skipped_too_big'] = acc['counters'].get('skipped_too_big', 0) + 1
        return
    acc['counters']['graphs'] = acc['counters'].get('graphs', 0) + 1
    acc['violations'].extend(vs)
    if len(acc['samples']) < 2 and len(case['kinds']) >= 2:
        acc['samples'].append({'case': case})


def user_exhaustive_cases(k, kinds, excs, part=0, parts=1):
    """graphs with k nodes of the given kinds (>= 1 user node) x tc flags on edges into user nodes x single faults"""
    n = 0
    for adj in canonical_adjacencies(k)[part::parts]:
        edges = [(i, j) for i, a in enumerate(adj) for j, c in enumerate(a) if kinds[c] == 'user']
        for flags in itertools.product([False, True], repeat=len(edges)):
            tc = [[False] * len(a) for a in adj]
            for (i, j), fl in zip(edges, flags):
                tc[i][j] = fl
            base = {'kinds': list(kinds), 'adj': adj, 'tc': tc}
            m = user_invocations(base)
            for fi in range(m):
                for exc in excs:
                    n += 1
                    yield dict(base, width=WIDTHS[n % len(WIDTHS)], fault={'index': fi, 'exc': exc})


def shards_for(tier, seed):
    tier = common.tier_of(tier)
    seed = common.seed_of(seed)
    max_k = 3 if tier == 'quick' else 4
    shards = []
    idx = 0
    for k in range(max_k, 0, -1):
        adjs = canonical_adjacencies(k)
        for kinds in itertools.product(['list', 'dict', 'tup', 'tnode'], repeat=k):
            idx += 1
            shards.append({'what': 'exhaustive', 'k': k, 'kinds': kinds, 'adjs': adjs, 'index': idx})
    nrand = 16 if tier == 'quick' else 64
    per = 150 if tier == 'quick' else 400
    for i in range(nrand):
        shards.append({'what': 'random', 'seed': seed * 7919 + i, 'count': per, 'min_nodes': 4, 'max_nodes': 10})
    all_excs = sorted(EXCS)
    four = ['list', 'dict', 'tup', 'user']
    plans = [(1, four, all_excs, None, 1), (2, four, all_excs, None, 1)]
    if tier == 'quick':
        plans.append((3, ['list', 'user'], ['KeyError'], 1, 2))            # exactly one user node
    else:
        plans.append((3, four, ['KeyError'], 1, 2))                        # exactly one user node
        plans.append((3, ['list', 'user'], ['TypeError', 'ValueError'], 1, 2))
    for k, kind_set, excs, n_user, parts in plans:
        for kinds in itertools.product(kind_set, repeat=k):
            if 'user' in kinds and (n_user is None or kinds.count('user') == n_user):
                for part in range(parts):
                    shards.append({'what': 'user-exhaustive', 'k': k, 'kinds': kinds, 'excs': excs,
                                   'part': part, 'parts': parts})
    for i in range(nrand):
        shards.append({'what': 'user-random', 'seed': seed * 104729 + i, 'count': per,
                       'min_nodes': 3, 'max_nodes': 3 if tier == 'quick' else 5})
    # big shards first
    shards.sort(key=lambda sh: -(sh.get('k', 0) * 10 + (5 if sh['what'] == 'user-exhaustive' else 0)))
    return shards, {'user_graphs_exhaustive': '<= 2 nodes over list/dict/tup/user x all tc flags x all single faults x '
                    '3 exception classes; ' + ('3 nodes over list/user with exactly one user node, KeyError'
                                            if tier == 'quick' else
                                            '3 nodes with exactly one user node: over the 4 kinds with KeyError, '
                                            'over list/user also TypeError and ValueError')}


def run(tier, seed, jobs=16):
    tier = common.tier_of(tier)
    if sys.getrecursionlimit() < 5000:
        sys.setrecursionlimit(5000)
    shards, info = shards_for(tier, seed)
    acc = common.merge(common.pmap(run_shard, shards, jobs))
    from . import ctx_contracts as _ctx      # run-time contracts of PrettyContext (exhaustive over field subsets)
    _ctx.check(acc)
    max_k = 3 if tier == 'quick' else 4
    return common.report(
        acc,
        rule='a graph is non-trivial when the reference traversal meets a back edge or prints some node twice in '
             'full (sharing), or when a printer fault is injected',
        bounds={'tier': tier, 'exhaustive_nodes': max_k, 'kinds': ['list', 'dict', 'tup', 'tnode (the node is a tuple holding the list of its children)'], 'out_degree': '0..2',
                'canonical_graphs': {k: len(canonical_adjacencies(k)) for k in range(1, max_k + 1)},
                'random_max_nodes': 10, 'widths': list(WIDTHS), **info},
        exhaustive=True, max_violations=40)


def replay(case):
    if isinstance(case, dict) and case.get('check') == 'ctx':
        from . import ctx_contracts as _ctx
        return _ctx.replay(case)
    if sys.getrecursionlimit() < 5000:
        sys.setrecursionlimit(5000)
    vs = check_case(case)
    if vs is None:
        return {'violated': False, 'detail': 'reference traversal too large; skipped'}
    if not vs:
        return {'violated': False, 'detail': 'all postconditions hold'}
    return {'violated': True, 'detail': '; '.join('%s: observed %s / expected %s' % (
        v['kind'], v['observed'][:150], v['expected'][:150]) for v in vs)}
