"""C05 bounded stand-in: a group laid out flat never overflows the page or the ribbon.

Classic algebra (text, concat, nest, group, line, softline, hardline, always_break, align).  The flat/broken
decision of each group is recovered from the engine's output through the reference semantics (layout_ref.match);
for every group decided flat that has text, the whole output line on which that text sits must satisfy
    len(line) <= W   and   len(line) <= indent_of_the_group + R          (R = max(0, min(W, round(frac * W))))
Documents whose output matches no legal assignment are C04's business and are skipped (counted).
"""
import json
import random

from . import common
from . import layout_ref as LR

WIDTHS_Q = [1, 2, 3, 4, 6, 9]
WIDTHS_T = [1, 2, 3, 4, 5, 6, 8, 10, 14, 20, 30]
FRACS = [1.0, 0.7, 0.5, 0.25]


def overflow_of(m, W, R, strategy, counters=None):
    """the first flat group of assignment m whose text sits on a line longer than min(W, indent + R), or None"""
    out = m.out
    lines = LR.lines_of(out)
    for g in m.groups:
        if not g['flat'] or not g.get('decided'):
            continue
        idxs = [j for j in range(g['start'], g['end']) if out[j][0] == 't' and out[j][1]]
        if not idxs:
            continue
        if counters is not None:
            counters['flat_groups_with_text'] = counters.get('flat_groups_with_text', 0) + 1
        for (ind, text, items) in lines:
            if any(j in items for j in idxs):
                n = len(text)
                lim = min(W, g['indent'] + R)
                if n > lim:
                    tags = ['over-page' if n > W else 'over-ribbon', strategy]
                    # shape: the overflowing line starts at a break that a group nested in g - decided again although g
                    # is flat - produced (known finding: under align / a negative nest the inner ribbon is narrower)
                    brk = items[0] if items and out[items[0]][0] == 'l' else None
                    if brk is not None and g['start'] <= brk < g['end'] and any(
                            h is not g and not h['flat'] and g['start'] <= h['start'] and h['end'] <= g['end']
                            and h['start'] <= brk < h['end'] for h in m.groups):
                        tags.append('inner-group-broken-inside-flat-group')
                    return ('flat-group-line-overflows',
                            'line %r has %d columns; group at indent %d laid out flat' % (text, n, g['indent']),
                            'at most min(W=%d, indent+R=%d+%d)' % (W, g['indent'], R), tags)
    return None


def check_one(mods_, spec, W, frac, strategy, counters=None):
    D, T, L, Rm, S = mods_
    doc = LR.build(mods_, spec)
    layout = L.layout_smart if strategy == 'smart' else L.layout_fast
    eng = LR.engine_out(mods_, list(layout(doc, width=W, ribbon_frac=frac)))
    R = LR.ribbon_of(W, frac)
    # Ambiguity: several assignments may give the same output (two soft lines of which one broke).  The decisions the
    # engine took are one of the matching assignments, so a violation is reported only when EVERY matching assignment has
    # a flat group on an overflowing line (no false alarm; possibly incomplete), and only when the enumeration of the
    # matching assignments was complete.
    matches = []
    gen = LR.match_all(mods_, doc, W, R, eng)
    complete = None
    while True:
        try:
            m = next(gen)
        except StopIteration as e:
            complete = e.value
            break
        matches.append(m)
    n_match = len(matches)
    # A group whose decision cannot be seen in the output (no choice of its own is affected) appears flat in one matching
    # assignment and broken in another.  Only assignments whose set of flat groups is minimal are considered: the engine's
    # real decisions R are a matching assignment, some minimal M has flat(M) <= flat(R) with the same output, so a flat group
    # of M on an overflowing line is a flat group of R on the same line (sound; removes phantom explanations).
    flats = [frozenset(i for i, g in enumerate(m.groups) if g['flat'] and g.get('decided')) for m in matches]
    minimal = [m for m, f in zip(matches, flats) if not any(f2 < f for f2 in flats)]
    first = None
    for j, m in enumerate(minimal):
        r = overflow_of(m, W, R, strategy, counters if j == 0 else None)
        if r is None:
            return None
        if first is None:
            first = r
        else:
            # the shape tags must hold for every minimal matching assignment
            first = (first[0], first[1], first[2], [t for t in first[3] if t in r[3]])
    if n_match == 0:
        if counters is not None:
            counters['skipped_no_legal_assignment'] = counters.get('skipped_no_legal_assignment', 0) + 1
        return None
    if not complete:
        if counters is not None:
            counters['undetermined_search_budget'] = counters.get('undetermined_search_budget', 0) + 1
        return None
    # classification: the output is also explained by the known C04 finding - a group laid out flat across a literal hard
    # line (the predicates answer True at the first hard line) - when an assignment that allows such groups to be flat
    # matches and uses one; the flat group then spans lines, and what the legal reading takes for an overflowing flat
    # group is text after that hard line
    for m in LR.match_all(mods_, doc, W, R, eng, trust_forced=False):
        if any(g.get('illegal') and g.get('forced') == 'HL' for g in m.groups):
            first = (first[0], first[1], first[2], first[3] + ['flathl'])
            break
    return first


# witnesses of the two known findings (known_findings.json): part of every run, so that the findings are reported at
# every tier and a repair of the engine is noticed
PINNED = [
    (["group", ["nest", 1, ["ab", ["group", ["cat", [["align", ["group", ["nest", 4, ["cat", [["t", "a"], ["softline"], ["line"]]]]]],
                                                  ["line"], ["t", "b"]]]]]]], 4, 0.7),
    (["ab", ["group", ["group", ["cat", [["cat", [["softline"], ["hardline"]]],
                                         ["group", ["cat", [["softline"], ["cat", [["t", "a"], ["t", "bbb"], ["t", "a"]]]]]]]]]]], 5, 0.7),
]


def shard(args):
    tier, seed, idx, n = args
    mods_ = LR.mods()
    acc = common.new_acc()
    if idx == 0:
        for spec, W, frac in PINNED:
            for strategy in ('smart', 'fast'):
                acc['evaluations'] += 1
                r = check_one(mods_, spec, W, frac, strategy, acc['counters'])
                if r is not None:
                    kind, obs, exp, tags = r
                    acc['violations'].append({'kind': kind, 'case': {'spec': spec, 'W': W, 'frac': frac, 'strategy': strategy},
                                              'observed': obs, 'expected': exp, 'tags': sorted(tags)})
    widths = WIDTHS_Q if tier == 'quick' else WIDTHS_T
    maxn = 5 if tier == 'quick' else 6
    cases = [spec for j, spec in enumerate(LR.specs(maxn, classic=True)) if j % n == idx]
    if idx == 1 % n:
        # large documents (sizes no enumeration reaches): long concats, many pending stack entries, deep groups, wide pages
        for spec, Ws, fracs in LR.large_specs():
            for W in Ws:
                for frac in fracs:
                    for strategy in ('smart', 'fast'):
                        acc['evaluations'] += 1
                        r = check_one(mods_, spec, W, frac, strategy, acc['counters'])
                        if r is not None:
                            acc['violations'].append({'kind': r[0], 'case': {'spec': spec, 'W': W, 'frac': frac, 'strategy': strategy},
                                                      'observed': r[1], 'expected': r[2], 'tags': sorted(r[3])})
    rng = random.Random(seed * 1000 + idx)
    for _ in range(150 if tier == 'quick' else 3000):
        cases.append(LR.random_spec(rng, rng.randint(6, 18), classic=True))
    for spec in cases:
        if not LR.has_kind(spec, ('group',)):
            continue
        for W in widths:
            for frac in FRACS:
                for strategy in ('smart', 'fast'):
                    acc['evaluations'] += 1
                    r = check_one(mods_, spec, W, frac, strategy, acc['counters'])
                    if r is not None:
                        kind, obs, exp, tags = r
                        acc['violations'].append({'kind': kind, 'case': {'spec': spec, 'W': W, 'frac': frac, 'strategy': strategy},
                                                  'observed': obs, 'expected': exp, 'tags': sorted(tags)})
        acc['nontrivial'].add(json.dumps(spec))
        if len(acc['samples']) < 2:
            acc['samples'].append({'spec': spec})
    return acc


def run(tier, seed, jobs=16):
    tier, seed = common.tier_of(tier), common.seed_of(seed)
    n = 64
    acc = common.merge(common.pmap(shard, [(tier, seed, i, n) for i in range(n)], jobs))
    widths = WIDTHS_Q if tier == 'quick' else WIDTHS_T
    rule = ('all classic-algebra document specs with <= %d nodes that contain a group + seeded random ones of 6-18 nodes x widths %s x '
            'ribbon fractions %s x {smart, fast}; decisions recovered by matching the output against the reference semantics; '
            'non-trivial = distinct specs with a group' % (5 if tier == 'quick' else 6, widths, FRACS))
    return common.report(acc, rule, {'max_nodes': 5 if tier == 'quick' else 6, 'widths': widths, 'fracs': FRACS})


def replay(case):
    r = check_one(LR.mods(), case['spec'], case['W'], case['frac'], case['strategy'])
    if r is None:
        return {'violated': False, 'detail': 'holds'}
    return {'violated': True, 'detail': '%s: observed %s ; expected %s' % (r[0], r[1], r[2])}
