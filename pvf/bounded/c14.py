"""C14 bounded stand-in: a failing printer is contained at the value it was printing.

Inputs: trees of instrumented user objects.  A tree node is

    {'cls': 'K'|'P', 'embed': 'direct'|'list'|'dict', 'wrap': 'plain'|'tc'|'list-tc', 'kids': [...]}

  cls    K: printer `(value, ctx, trailing_comment=None)`;  P: printer `(value, ctx)` (no trailing_comment)
  wrap   how the node value is handed to its parent: as is / trailing_comment(node, 'tc') /
         trailing_comment([node], 'tc')
  embed  then: directly / [v] / {'k': v}       (the root is handed to pformat the same way)
  uid    = preorder index = index of the node's printer invocation in a fault-free run; repr(node) = 'NODE_<uid>'

Both printers print `pretty_call(ctx, cls, *children)` and consult a global fault plan
{invocation index: ['raise', exception name, 'entry'|'late'] | ['return', '42']}.

Postconditions per (tree, plan):
  returns                      pformat returns, nothing escapes
  one-warning                  one UserWarning '... raised an exception' per fired fault, naming the class and the
                               printer's qualified name; nothing else except the documented 'does not support
                               rendering trailing comments'
  only-faulting-node-degraded  the output parses to the same AST as the reference expression in which exactly the
                               faulting nodes are replaced by NODE_<uid> (layout may differ, ASTs may not)
  later-calls-unaffected       a following fault-free pformat returns the original text
  bad-return-valueerror        a printer returning 42 makes pformat raise ValueError naming the printer
  fault-free-reference         sanity: the fault-free output parses to the reference expression, no warnings about
                               failing printers

case = {'tree': node, 'plan': {str(i): [...]}, 'width': int}
"""
import ast
import itertools
import json
import random
import warnings

from pvf.bounded import common

pp = common.load_repo()
from prettyprinter import pformat, register_pretty, pretty_call, trailing_comment, is_registered  # noqa: E402


class C14CustomError(Exception):
    pass


EXCS = {'ValueError': ValueError, 'TypeError': TypeError, 'KeyError': KeyError, 'RuntimeError': RuntimeError,
        'AssertionError': AssertionError, 'C14CustomError': C14CustomError}
WIDTHS = (79, 30, 8)


class _C14Base:
    def __init__(self, uid, children):
        self.uid = uid
        self.children = children

    def __repr__(self):
        return 'NODE_%d' % self.uid


class C14NodeK(_C14Base):
    pass


class C14NodeP(_C14Base):
    pass


CLASSES = {'K': C14NodeK, 'P': C14NodeP}
PLAN = {'count': 0, 'faults': {}, 'fired': []}


def _body(value, ctx, cls):
    i = PLAN['count']
    PLAN['count'] = i + 1
    act = PLAN['faults'].get(i)
    if act is not None:
        if act[0] == 'return':
            PLAN['fired'].append((i, value.uid))
            return 42
        if act[2] == 'entry':
            PLAN['fired'].append((i, value.uid))
            raise EXCS[act[1]]('planned fault at invocation %d (uid %d)' % (i, value.uid))
    doc = pretty_call(ctx, cls, *value.children)
    if act is not None:
        PLAN['fired'].append((i, value.uid))
        raise EXCS[act[1]]('planned late fault at invocation %d (uid %d)' % (i, value.uid))
    return doc


if not is_registered(C14NodeK, check_deferred=False, register_deferred=False):
    @register_pretty(C14NodeK)
    def c14_printer_k(value, ctx, trailing_comment=None):
        return _body(value, ctx, C14NodeK)

    @register_pretty(C14NodeP)
    def c14_printer_p(value, ctx):
        return _body(value, ctx, C14NodeP)

PRINTER_NAME = {'K': '%s.c14_printer_k' % __name__, 'P': '%s.c14_printer_p' % __name__}
CLASS_EXPR = {k: '%s.%s' % (c.__module__, c.__qualname__) for k, c in CLASSES.items()}


# ---------------------------------------------------------------------------------------------
# trees
def preorder(tree):
    out = []

    def go(n):
        out.append(n)
        for k in n['kids']:
            go(k)
    go(tree)
    return out


def build_value(tree):
    counter = [0]

    def slot(n):
        uid = counter[0]
        counter[0] += 1
        kids = [slot(k) for k in n['kids']]
        v = CLASSES[n['cls']](uid, kids)
        if n['wrap'] == 'tc':
            v = trailing_comment(v, 'tc')
        elif n['wrap'] == 'list-tc':
            v = trailing_comment([v], 'tc')
        if n['embed'] == 'list':
            v = [v]
        elif n['embed'] == 'dict':
            v = {'k': v}
        return v
    return slot(tree)


def reference(tree, plan):
    """simulate the specified behaviour -> (expression text, fired [(invocation, uid)], escapes_valueerror)"""
    counter = [0]
    uidc = [0]
    fired = []
    bad_return = []

    def slot(n, live):
        uid = uidc[0]
        uidc[0] += 1
        act = None
        if live:
            i = counter[0]
            counter[0] += 1
            act = plan.get(i)
        kids_live = live and not (act is not None and (act[0] == 'return' or act[2] == 'entry'))
        kids = [slot(k, kids_live) for k in n['kids']]
        if act is not None:
            fired.append((i, uid))
            if act[0] == 'return':
                bad_return.append(uid)
            text = 'NODE_%d' % uid
        else:
            text = '%s(%s)' % (CLASS_EXPR[n['cls']], ', '.join(kids))
        if n['wrap'] == 'list-tc':
            text = '[' + text + ']'
        if n['embed'] == 'list':
            text = '[' + text + ']'
        elif n['embed'] == 'dict':
            text = "{'k': " + text + '}'
        return text
    text = slot(tree, True)
    fired.sort()
    return text, fired, bool(bad_return)


def dump(text):
    try:
        return ast.dump(ast.parse('(' + text + '\n)', mode='eval'))
    except (SyntaxError, ValueError) as e:
        return 'unparsable: %s' % e


def norm_plan(plan):
    return {int(k): list(v) for k, v in (plan or {}).items()}


def tags_of(tree, plan):
    nodes = preorder(tree)
    tags = set()
    for i, uid in reference(tree, plan)[1]:     # fired faults of the specified behaviour: (invocation, uid)
        act = plan[i]
        n = nodes[uid]
        if act[0] == 'return':
            tags.add('bad-return')
            tags.add('bad-return-top' if (i == 0 and n['embed'] == 'direct' and n['wrap'] != 'list-tc')
                     else 'bad-return-nested')
        else:
            tags.add('exc:' + act[1])
        if n['wrap'] == 'tc':
            tags.add('under-trailing-comment')
        elif n['wrap'] == 'list-tc':
            tags.add('in-trailing-commented-list')
        else:
            tags.add('plain')
        tags.add('printer:accepts-tc' if n['cls'] == 'K' else 'printer:no-tc-param')
    if len(plan) > 1:
        # sampled pairs: coarse tags only
        tags = {t for t in tags if t in ('under-trailing-comment', 'bad-return')}
        tags.add('faults:%d' % len(plan))
    return sorted(tags)


def run_plan(value, plan, width):
    """-> (output or None, exception or None, warning messages, fired)"""
    PLAN['count'] = 0
    PLAN['faults'] = plan
    PLAN['fired'] = []
    out = err = None
    with common.caught_warnings() as cw:
        try:
            out = pformat(value, width=width)
        except Exception as e:     # noqa
            err = e
        finally:
            PLAN['faults'] = {}
    msgs = [(w.category.__name__, str(w.message)) for w in cw.log]
    return out, err, msgs, sorted(PLAN['fired'])


_FREE_CACHE = {}


def check_case(case, acc=None):
    acc = acc if acc is not None else common.new_acc()
    tree = case['tree']
    plan = norm_plan(case.get('plan'))
    width = case.get('width', 79)
    vs = []
    tags = tags_of(tree, plan)

    def add(kind, observed, expected_):
        vs.append({'kind': kind, 'case': case, 'observed': str(observed)[:500], 'expected': str(expected_)[:500],
                   'tags': tags})

    value = build_value(tree)
    nodes = preorder(tree)
    # fault-free reference
    ref_text, _f, _b = reference(tree, {})
    out0, err0, msgs0, _ = run_plan(value, {}, width)
    key = (json.dumps(tree, sort_keys=True), width)
    if key not in _FREE_CACHE:
        if len(_FREE_CACHE) > 5000:
            _FREE_CACHE.clear()
        _FREE_CACHE[key] = True
        acc['evaluations'] += 1
        bad0 = [m for _c, m in msgs0 if 'raised an exception' in m]
        if err0 is not None or bad0 or dump(out0) != dump(ref_text):
            vs.append({'kind': 'fault-free-reference', 'case': dict(case, plan={}),
                       'observed': '%r %r %s' % (out0, err0, bad0[:1]), 'expected': ref_text, 'tags': ['fault-free']})
    if err0 is not None or not plan:
        return vs

    exp_text, exp_fired, exp_bad_return = reference(tree, plan)
    out, err, msgs, fired = run_plan(value, plan, width)

    if exp_bad_return:
        acc['evaluations'] += 1
        names = [PRINTER_NAME[nodes[uid]['cls']] for _i, uid in exp_fired]
        if not isinstance(err, ValueError) or not any(n in str(err) for n in names) \
                or 'must return' not in str(err):
            add('bad-return-valueerror',
                'returned %r' % out if err is None else '%s: %s' % (type(err).__name__, str(err)[:200]),
                'ValueError naming %s' % names)
    else:
        # returns
        acc['evaluations'] += 1
        if err is not None:
            add('returns', '%s escaped pformat: %s' % (type(err).__name__, str(err)[:200]), 'pformat returns ' + exp_text)
        else:
            # only-faulting-node-degraded
            acc['evaluations'] += 1
            if dump(out) != dump(exp_text):
                add('only-faulting-node-degraded', out, exp_text)
        # one-warning
        acc['evaluations'] += 1
        bad = [m for _c, m in msgs if 'raised an exception' in m]
        other = [(c, m) for c, m in msgs if 'raised an exception' not in m
                 and 'does not support rendering trailing comments' not in m]
        want = []
        for _i, uid in exp_fired:
            n = nodes[uid]
            want.append((CLASSES[n['cls']].__name__, PRINTER_NAME[n['cls']]))
        ok = len(bad) == len(want) and not other and all(c == 'UserWarning' for c, _m in msgs)
        if ok:
            remaining = list(bad)
            for cname, pname in want:
                hit = [m for m in remaining if m.startswith('The pretty printer for %s, %s, raised an exception'
                                                            % (cname, pname))]
                if not hit:
                    ok = False
                    break
                remaining.remove(hit[0])
        if not ok:
            add('one-warning', '%d failing-printer warnings %s; other %s' % (
                len(bad), [m.split('.\n')[0][:120] for m in bad], [m[:80] for _c, m in other]),
                'exactly %s' % (want,))
    # later-calls-unaffected
    acc['evaluations'] += 1
    out2, err2, msgs2, _ = run_plan(value, {}, width)
    if err2 is not None or out2 != out0 or any('raised an exception' in m for _c, m in msgs2):
        add('later-calls-unaffected', '%r %r' % (out2, err2), out0)
    acc['nontrivial'].add(json.dumps([tree, sorted(plan.items()), width], sort_keys=True))
    return vs


# ---------------------------------------------------------------------------------------------
# enumeration
def shapes(n):
    """ordered rooted trees with n nodes as nested lists of children"""
    if n == 1:
        return [[]]
    out = []
    for parts in common.compositions(n - 1, n - 1):
        for kids in itertools.product(*[shapes(p) for p in parts]):
            out.append(list(kids))
    return out


CLS_PATTERNS = ('K', 'P', 'KP', 'PK')
EMBEDS = ('direct', 'list', 'dict')
WRAPS = ('plain', 'tc', 'list-tc')


def make_tree(shape, pattern, embeds, wraps):
    counter = [0]

    def go(kids):
        i = counter[0]
        counter[0] += 1
        node = {'cls': pattern[i % len(pattern)], 'embed': embeds[i], 'wrap': wraps[i], 'kids': []}
        node['kids'] = [go(k) for k in kids]
        return node
    return go(shape)


def size(shape):
    return 1 + sum(size(k) for k in shape)


def embed_choices(n, tier, rng):
    allc = list(itertools.product(EMBEDS, repeat=n))
    limit = {'quick': {4: 6}, 'thorough': {5: 27}}[tier].get(n)
    if limit is None or len(allc) <= limit:
        return allc
    keep = [tuple(['direct'] * n), tuple(['list'] * n), tuple(['dict'] * n)]
    rest = [e for e in allc if e not in keep]
    rng.shuffle(rest)
    return keep + rest[:limit - len(keep)]


def run_shard(shard):
    acc = common.new_acc()
    what = shard['what']
    if what == 'single':
        shape, pattern, tier = shard['shape'], shard['pattern'], shard['tier']
        n = size(shape)
        rng = random.Random(shard['seed'])
        c = 0
        for embeds in embed_choices(n, tier, rng):
            for i in range(n):
                for wrap in WRAPS:
                    wraps = ['plain'] * n
                    wraps[i] = wrap
                    tree = make_tree(shape, pattern, embeds, wraps)
                    for exc in sorted(EXCS):
                        for when in ('entry', 'late'):
                            c += 1
                            _eval({'tree': tree, 'plan': {str(i): ['raise', exc, when]},
                                   'width': WIDTHS[c % len(WIDTHS)]}, acc)
                    c += 1
                    _eval({'tree': tree, 'plan': {str(i): ['return', '42']}, 'width': WIDTHS[c % len(WIDTHS)]}, acc)
    elif what == 'pairs':
        rng = random.Random(shard['seed'])
        all_shapes = [s for n in range(2, shard['max_nodes'] + 1) for s in shapes(n)]
        for _ in range(shard['count']):
            shape = rng.choice(all_shapes)
            n = size(shape)
            pattern = ''.join(rng.choice('KP') for _ in range(n))
            embeds = [rng.choice(EMBEDS) for _ in range(n)]
            wraps = [rng.choice(WRAPS) for _ in range(n)]
            tree = make_tree(shape, pattern, embeds, wraps)
            i, j = sorted(rng.sample(range(n), 2))
            plan = {str(i): ['raise', rng.choice(sorted(EXCS)), rng.choice(['entry', 'late'])],
                    str(j): ['raise', rng.choice(sorted(EXCS)), rng.choice(['entry', 'late'])]}
            _eval({'tree': tree, 'plan': plan, 'width': rng.choice(WIDTHS)}, acc)
    elif what == 'many':
        # many failures in ONE pformat call and long chains (sizes the single / pair enumeration never reaches: a cap on warnings,
        # a counter, a depth threshold shows only here): a root with 11 children, and a chain 10 deep; 6, 8 or all nodes fail
        rng = random.Random(shard['seed'])
        wide = [[] for _ in range(11)]
        chain = []
        for _ in range(9):
            chain = [chain]
        for shape in (wide, chain):
            n = size(shape)
            for pattern in ('K', 'KP'):
                for embed in EMBEDS:
                    tree = make_tree(shape, pattern, [embed] * n, ['plain'] * n)
                    for k in (6, 8, n - 1):
                        idx = sorted(rng.sample(range(1, n), k))
                        plan = {str(i): ['raise', rng.choice(sorted(EXCS)), rng.choice(['entry', 'late'])] for i in idx}
                        _eval({'tree': tree, 'plan': plan, 'width': rng.choice(WIDTHS)}, acc)
    return acc


def _eval(case, acc):
    vs = check_case(case, acc)
    acc['counters']['cases'] = acc['counters'].get('cases', 0) + 1
    acc['violations'].extend(vs)
    if len(acc['samples']) < 1 and len(preorder(case['tree'])) >= 3:
        acc['samples'].append({'case': case})


def shards_for(tier, seed):
    tier = common.tier_of(tier)
    seed = common.seed_of(seed)
    max_n = 4 if tier == 'quick' else 5
    shards = []
    for n in range(max_n, 0, -1):
        for si, shape in enumerate(shapes(n)):
            for pattern in CLS_PATTERNS:
                if n == 1 and len(pattern) > 1:
                    continue
                shards.append({'what': 'single', 'shape': shape, 'pattern': pattern, 'tier': tier,
                               'seed': seed * 1009 + n * 101 + si})
    shards.append({'what': 'many', 'seed': seed * 7907 + 3})
    npairs, per = (16, 200) if tier == 'quick' else (64, 500)
    for i in range(npairs):
        shards.append({'what': 'pairs', 'seed': seed * 15485863 + i, 'count': per, 'max_nodes': max_n})
    return shards


def run(tier, seed, jobs=16):
    tier = common.tier_of(tier)
    shards = shards_for(tier, seed)
    acc = common.merge(common.pmap(run_shard, shards, jobs))
    max_n = 4 if tier == 'quick' else 5
    return common.report(
        acc,
        rule='every evaluated (tree, non-empty fault plan, width) counts: a fault fires in each of them',
        bounds={'tier': tier, 'max_printer_invocations': max_n,
                'tree_shapes': {n: len(shapes(n)) for n in range(1, max_n + 1)},
                'class_patterns': list(CLS_PATTERNS), 'embeds': list(EMBEDS), 'wraps_of_faulting_node': list(WRAPS),
                'exceptions': sorted(EXCS), 'when': ['entry', 'late'],
                'embeddings': 'all 3^n up to n=%d, sampled above' % (3 if tier == 'quick' else 4),
                'single_faults': 'all invocation indices', 'fault_pairs': 'sampled', 'widths': list(WIDTHS)},
        exhaustive=True, max_violations=80)


def replay(case):
    _FREE_CACHE.clear()
    vs = check_case(case)
    if not vs:
        return {'violated': False, 'detail': 'all postconditions hold'}
    return {'violated': True, 'detail': '; '.join('%s: observed %s / expected %s' % (
        v['kind'], v['observed'][:200], v['expected'][:200]) for v in vs)}
