"""C09 - comments are inert and preserved (bounded stand-in).

Postconditions on the real ``prettyprinter.pformat`` for a value some of whose nodes are wrapped with
``comment(node, text)`` / ``trailing_comment(container, text)``:

  raises            no exception escapes pformat
  repr-fallback     no warning containing "raised an exception" (a printer crashed and repr() was used instead)
  ast-differs       ast.dump(output) == ast.dump(pformat(uncommented value, same kwargs)); set displays are compared
                    modulo the order of their elements (a commented member hashes differently, so the iteration order
                    of the set itself changes, which is not under the printer's control)
  words-missing     for every attached text: its whitespace separated words are, in order, a subsequence of the words
                    of all '#' comment tokens of the output (tokenize)
  (nothing of a comment outside a comment follows from ast-differs)

Texts without any word ('', ' ', '\\n') are outside the quantifier (commentdoc refuses the empty text by contract);
texts with words and blank lines ('a\\n\\nb') are inside.

Domain (the full product placements x texts is ~10^8, so it is decomposed; see `bounds`):
  part A  ALL placements of <= 2 wrappers on ALL value trees with <= 4 nodes  x  a few representative texts x widths
  part B  ~45 representative placements (one per attach site of the printers, incl. calls)  x  ALL texts over the
          alphabet up to length 3 (quick) / 4 (thorough) plus the specific texts  x widths
"""
import ast
import itertools
import time
from collections import namedtuple

from pvf.bounded import common

pp = common.load_repo()
from prettyprinter import pformat, comment, trailing_comment, register_pretty, pretty_call   # noqa: E402
from prettyprinter.prettyprinter import build_fncall, pretty_python_value                     # noqa: E402

WIDTHS = [1, 10, 30, 79]
WIDTHS_A_QUICK = [1, 10, 30]       # part A, quick tier: trees of <= 4 nodes with short texts fit in 30 columns
ALPHABET = ['a', ' ', '\n', '#', "'", '"', ')', ']', '\\', '\xe9']
LONG_TEXT = ' '.join(['lorem', 'ipsum', 'dolor', 'sit', 'amet', 'consectetur', 'adipiscing', 'elit', 'sed', 'do',
                      'eiusmod', 'tempor', 'incididunt', 'ut', 'labore', 'et'])[:100]
assert len(LONG_TEXT) == 100
# very long comments (sizes the alphabet enumeration never reaches): 40 words / 280 characters, three 70-character words, seven lines
VERY_LONG_TEXTS = [' '.join('word%02d' % i for i in range(40)), ' '.join(['x' * 70, 'y' * 70, 'z' * 70]),
                   '\n'.join('line %d of a long note' % i for i in range(7))]
SPECIFIC_TEXTS = ['a\n\nb', '\n', ' a', 'a ', 'a  b', 'a\nb', LONG_TEXT] + VERY_LONG_TEXTS
TEXTS_A_QUICK = ['a', 'a\n\nb', ' \xe9)] \'"\\\n#c d ']
TEXTS_A_THOROUGH = TEXTS_A_QUICK + ['a\nb', ' a', 'a  b ', '\na', 'a\n \nb', LONG_TEXT]
LEAVES = [1, 'a', None]
NSHARDS = 64
PROBE_TEXT = 'zz'          # a text that cannot be the problem (used to tell text-independent losses)


# ---------------------------------------------------------------------------------------------
# user types that print as calls (for the build_fncall attach sites)
class P:
    """printed with pretty_call(ctx, P, *args, **kwargs); no trailing comment support"""
    __module__ = '__main__'

    def __init__(self, *args, **kwargs):
        self.args, self.kwargs = args, kwargs


class Q:
    """printed with build_fncall(..., trailing_comment=...): the documented way to support trailing comments"""
    __module__ = '__main__'

    def __init__(self, *args, **kwargs):
        self.args, self.kwargs = args, kwargs


NT = namedtuple('NT', ['x', 'y'])
NT.__module__ = '__main__'


@register_pretty(P)
def _pretty_p(value, ctx):
    return pretty_call(ctx, P, *value.args, **value.kwargs)


@register_pretty(Q)
def _pretty_q(value, ctx, trailing_comment=None):
    nested = ctx.nested_call()
    return build_fncall(
        ctx, Q,
        argdocs=[pretty_python_value(a, nested) for a in value.args],
        kwargdocs=[(k, pretty_python_value(v, nested)) for k, v in value.kwargs.items()],
        trailing_comment=trailing_comment)


def _strip(v, t):
    return v


NS_REAL = {'comment': comment, 'trailing_comment': trailing_comment, 'P': P, 'Q': Q, 'NT': NT}
NS_PLAIN = {'comment': _strip, 'trailing_comment': _strip, 'P': P, 'Q': Q, 'NT': NT}


# ---------------------------------------------------------------------------------------------
# value trees as specs: ('leaf', v) | ('list'|'tuple'|'set', (child, ...)) | ('dict', ((k, v), ...))
def hashable_spec(s):
    if s[0] == 'leaf':
        return True
    if s[0] == 'tuple':
        return all(hashable_spec(c) for c in s[1])
    return False


def all_trees(max_nodes):
    memo = {}

    def trees(n):
        if n in memo:
            return memo[n]
        out = []
        if n == 1:
            out.extend(('leaf', v) for v in LEAVES)
            out.extend([('list', ()), ('tuple', ()), ('set', ()), ('dict', ())])
        else:
            for parts in common.compositions(n - 1, n - 1):
                for kids in itertools.product(*[trees(k) for k in parts]):
                    out.append(('list', kids))
                    out.append(('tuple', kids))
                    if all(hashable_spec(k) for k in kids):
                        keys = [repr(k) for k in kids]
                        if all(a < b for a, b in zip(keys, keys[1:])):     # distinct, one order per set
                            out.append(('set', kids))
                if len(parts) % 2 == 0:
                    for kids in itertools.product(*[trees(k) for k in parts]):
                        ks, vs = kids[0::2], kids[1::2]
                        if all(hashable_spec(k) for k in ks) and len(set(map(repr, ks))) == len(ks):
                            out.append(('dict', tuple(zip(ks, vs))))
        memo[n] = out
        return out

    res = []
    for n in range(1, max_nodes + 1):
        res.extend(trees(n))
    return res


def nodes_of(spec, path=(), site='top'):
    """pre-order list of (path, spec, site)"""
    out = [(path, spec, site)]
    kind = spec[0]
    if kind in ('list', 'tuple', 'set'):
        n = len(spec[1])
        for i, c in enumerate(spec[1]):
            if n == 1:
                s = kind + '-sole'
            elif i == n - 1 and kind != 'set':
                s = kind + '-last'
            else:
                s = kind + '-elt'
            out.extend(nodes_of(c, path + (i,), s))
    elif kind == 'dict':
        n = len(spec[1])
        for i, (k, v) in enumerate(spec[1]):
            last = '-last' if i == n - 1 else ''
            out.extend(nodes_of(k, path + (i, 0), 'dict-key' + last))
            out.extend(nodes_of(v, path + (i, 1), 'dict-value' + last))
    return out


def target_of(spec):
    if spec[0] == 'leaf':
        return 'leaf'
    return 'container' if spec[1] else 'empty-container'


def placements(spec, max_wrappers=2):
    """all dicts path -> 'C' | 'T' | 'CT' using 1..max_wrappers wrappers; with the tags of each"""
    nodes = nodes_of(spec)
    opts = []
    for path, s, site in nodes:
        o = [('C', 1)]
        if s[0] != 'leaf':
            o.append(('T', 1))
            o.append(('CT', 2))
        opts.append(o)
    out = []
    for i in range(len(nodes)):
        for o, cost in opts[i]:
            if cost <= max_wrappers:
                out.append({nodes[i][0]: o})
    for i, j in itertools.combinations(range(len(nodes)), 2):
        for (o1, c1), (o2, c2) in itertools.product(opts[i], opts[j]):
            if c1 + c2 <= max_wrappers:
                out.append({nodes[i][0]: o1, nodes[j][0]: o2})
    return out


def alt_text(t):
    return t.replace('a', 'b')


def build_expr(spec, placement, texts):
    """(python expression of the commented value, wrappers) ; wrappers = [(tag, kind, text)] in pre-order (a node's
    comment before its trailing comment); the i-th wrapper gets texts[i]"""
    wrappers = []
    sites = {path: (s, site) for path, s, site in nodes_of(spec)}

    def nxt(kind, path):
        s, site = sites[path]
        t = texts[len(wrappers)]
        wrappers.append(('%s@%s:%s' % (kind, site, target_of(s)), kind, t))
        return repr(t)

    def go(s, path):
        opt = placement.get(path)
        pre = []
        if opt in ('C', 'CT'):
            pre.append(('comment', nxt('comment', path)))
        if opt in ('T', 'CT'):
            pre.append(('trailing_comment', nxt('trailing', path)))
        kind = s[0]
        if kind == 'leaf':
            base = repr(s[1])
        elif kind == 'list':
            base = '[' + ', '.join(go(c, path + (i,)) for i, c in enumerate(s[1])) + ']'
        elif kind == 'tuple':
            inner = [go(c, path + (i,)) for i, c in enumerate(s[1])]
            base = '(' + ', '.join(inner) + (',' if len(inner) == 1 else '') + ')'
        elif kind == 'set':
            base = ('{' + ', '.join(go(c, path + (i,)) for i, c in enumerate(s[1])) + '}') if s[1] else 'set()'
        else:
            base = '{' + ', '.join(go(k, path + (i, 0)) + ': ' + go(v, path + (i, 1))
                                   for i, (k, v) in enumerate(s[1])) + '}'
        for fn, t in reversed(pre):
            base = '%s(%s, %s)' % (fn, base, t)
        return base

    return go(spec, ()), wrappers


def sub_placements(placement):
    """the single-wrapper placements contained in a placement, in pre-order (== lexicographic order of paths)"""
    out = []
    for path in sorted(placement):
        opt = placement[path]
        for o in (('C', 'T') if opt == 'CT' else (opt,)):
            out.append({path: o})
    return out


# part B: one template per attach site; T1/T2 are replaced by the reprs of the texts; tags = [tag of T1, tag of T2]
TEMPLATES_B = [
    ('comment(1, T1)', ['comment@top:leaf']),
    ('comment([1, "a"], T1)', ['comment@top:container']),
    ('[comment(1, T1)]', ['comment@list-sole:leaf']),
    ('[comment(1, T1), "a"]', ['comment@list-elt:leaf']),
    ('[1, comment("a", T1)]', ['comment@list-last:leaf']),
    ('[comment([1, "a"], T1), None]', ['comment@list-elt:container']),
    ('[None, comment([1, "a"], T1)]', ['comment@list-last:container']),
    ('(comment(1, T1),)', ['comment@tuple-sole:leaf']),
    ('(comment(1, T1), "a")', ['comment@tuple-elt:leaf']),
    ('(1, comment("a", T1))', ['comment@tuple-last:leaf']),
    ('(comment((1,), T1),)', ['comment@tuple-sole:container']),
    ('{comment(1, T1)}', ['comment@set-sole:leaf']),
    ('{comment(1, T1), "a"}', ['comment@set-elt:leaf']),
    ('{comment(1, T1): "a"}', ['comment@dict-key-last:leaf']),
    ('{comment(1, T1): "a", None: 1}', ['comment@dict-key:leaf']),
    ('{comment("a", T1): 1}', ['comment@dict-key-last:str-leaf']),
    ('{1: comment("a", T1)}', ['comment@dict-value-last:leaf']),
    ('{1: comment("a", T1), None: 1}', ['comment@dict-value:leaf']),
    ('{1: comment([1, "a"], T1)}', ['comment@dict-value-last:container']),
    ('{1: comment([1, "a"], T1), None: 1}', ['comment@dict-value:container']),
    ('{comment((1, "a"), T1): None}', ['comment@dict-key-last:container']),
    ('trailing_comment([1], T1)', ['trailing@top:container']),
    ('trailing_comment([1, "a"], T1)', ['trailing@top:container']),
    ('trailing_comment((1,), T1)', ['trailing@top:container']),
    ('trailing_comment((1, "a"), T1)', ['trailing@top:container']),
    ('trailing_comment({1}, T1)', ['trailing@top:container']),
    ('trailing_comment({1: "a"}, T1)', ['trailing@top:container']),
    ('trailing_comment([], T1)', ['trailing@top:empty-container']),
    ('trailing_comment((), T1)', ['trailing@top:empty-container']),
    ('trailing_comment(set(), T1)', ['trailing@top:empty-container']),
    ('trailing_comment({}, T1)', ['trailing@top:empty-container']),
    ('[trailing_comment([1], T1)]', ['trailing@list-sole:container']),
    ('[trailing_comment((1,), T1), None]', ['trailing@list-elt:container']),
    ('{1: trailing_comment(("a",), T1)}', ['trailing@dict-value-last:container']),
    ('{1: trailing_comment({"a": None}, T1), None: 1}', ['trailing@dict-value:container']),
    ('[comment(1, T1), comment("a", T2)]', ['comment@list-elt:leaf', 'comment@list-last:leaf']),
    ('(comment(1, T1), comment("a", T2))', ['comment@tuple-elt:leaf', 'comment@tuple-last:leaf']),
    ('{comment(1, T1): comment("a", T2)}', ['comment@dict-key-last:leaf', 'comment@dict-value-last:leaf']),
    ('comment(trailing_comment([1], T2), T1)', ['comment@top:container', 'trailing@top:container']),
    ('[comment(trailing_comment([1, "a"], T2), T1), None]', ['comment@list-elt:container',
                                                             'trailing@list-elt:container']),
    ('trailing_comment([comment(1, T1)], T2)', ['comment@list-sole:leaf', 'trailing@top:container']),
    # calls
    ('P(comment(1, T1))', ['comment@call-sole-arg:leaf']),
    ('P(comment(1, T1), "a")', ['comment@call-arg:leaf']),
    ('P(1, comment("a", T1))', ['comment@call-last-arg:leaf']),
    ('P(x=comment(1, T1))', ['comment@call-last-kwarg:leaf']),
    ('P(x=comment(1, T1), y="a")', ['comment@call-kwarg:leaf']),
    ('P(1, y=comment("a", T1))', ['comment@call-last-kwarg:leaf']),
    ('P(comment([1, "a"], T1))', ['comment@call-hugged-arg:container']),
    ('P(trailing_comment([1, "a"], T1))', ['trailing@call-hugged-arg:container']),
    ('P(comment(1, T1), comment("a", T2))', ['comment@call-arg:leaf', 'comment@call-last-arg:leaf']),
    ('comment(P(1), T1)', ['comment@top:call']),
    ('[comment(P(1, "a"), T1)]', ['comment@list-sole:call']),
    ('trailing_comment(Q(1), T1)', ['trailing@top:call-build_fncall']),
    ('trailing_comment(Q(1, x="a"), T1)', ['trailing@top:call-build_fncall']),
    ('trailing_comment(Q(comment(1, T2)), T1)', ['trailing@top:call-build_fncall', 'comment@call-sole-arg:leaf']),
    ('[trailing_comment(Q(1), T1)]', ['trailing@list-sole:call-build_fncall']),
    ('comment(NT(1, "a"), T1)', ['comment@top:namedtuple']),
    ('NT(comment(1, T1), "a")', ['comment@namedtuple-field:leaf']),
    ('trailing_comment(NT(1, "a"), T1)', ['trailing@top:namedtuple']),
]


def template_expr(tpl, text):
    return tpl.replace('T1', repr(text)).replace('T2', repr(alt_text(text)))


def all_texts(maxlen):
    seen = set()
    out = []
    for t in SPECIFIC_TEXTS:
        if t not in seen:
            seen.add(t)
            out.append(t)
    for n in range(1, maxlen + 1):
        for tup in itertools.product(ALPHABET, repeat=n):
            t = ''.join(tup)
            if t not in seen:
                seen.add(t)
                out.append(t)
    return out


def text_tags(texts):
    tags = set()
    for t in texts:
        lines = t.splitlines()
        if len(lines) > 1:
            tags.add('text:multiline')
        if any(l == '' for l in lines):
            tags.add('text:empty-line')
        if any(l != '' and not l.split() for l in lines):
            tags.add('text:ws-only-line')
    return sorted(tags)




# ---------------------------------------------------------------------------------------------
# the check
class _SortSets(ast.NodeTransformer):
    def visit_Set(self, node):
        self.generic_visit(node)
        node.elts = sorted(node.elts, key=ast.dump)
        return node


def norm_ast_dump(text):
    tree = ast.parse('(' + text + '\n)', mode='eval')
    return ast.dump(_SortSets().visit(tree))


def is_subsequence(words, pool):
    it = iter(pool)
    return all(any(w == p for p in it) for w in words)


_REF_CACHE = {}


def recorded_texts(expr):
    """(plain value, [(kind, text), ...] in evaluation order)"""
    rec = []

    def c(v, t):
        rec.append(('comment', t))
        return v

    def tc(v, t):
        rec.append(('trailing', t))
        return v

    ns = dict(NS_PLAIN, comment=c, trailing_comment=tc)
    plain = eval(expr, ns)
    return plain, rec


def _has_user_types(v):
    if isinstance(v, (P, Q)):
        return True
    if isinstance(v, dict):
        return any(_has_user_types(k) or _has_user_types(x) for k, x in v.items())
    if isinstance(v, (list, tuple, set, frozenset)):
        return any(_has_user_types(x) for x in v)
    return False


def check_case(expr, kwargs, wrappers=None):
    """Evaluate all postconditions on one case.

    wrappers: [(placement tag, kind, text)] when the caller knows the shape (run), None in replay.
    Returns (status, violations); status 'skip' when some text has no word (outside the quantifier)."""
    plain, rec = recorded_texts(expr)
    if wrappers is None:
        wrappers = [('placement:unknown', k, t) for k, t in rec]
    texts = [t for _, t in rec]
    if any(not t.split() for t in texts):
        return 'skip', []
    ptags = sorted({w[0] for w in wrappers})
    if len(wrappers) > 1:
        ptags.append('two-comments')
    ttags = text_tags(texts)
    case = {'expr': expr, 'kwargs': kwargs}
    value = eval(expr, dict(NS_REAL))
    out = None
    with common.caught_warnings() as cw:
        try:
            out = pformat(value, **kwargs)
        except Exception as e:                                   # noqa
            # the placement matters only if the text is not the known trigger (a text with an empty line)
            tags = ttags + ['exc:' + type(e).__name__] + ([] if 'text:empty-line' in ttags else ptags)
            return 'ok', [dict(kind='raises', case=case, observed='%s: %s' % (type(e).__name__, e),
                               expected='no exception', tags=sorted(set(tags)))]
    if cw.bad:
        msg = [m for m in cw.messages if 'raised an exception' in m][0]
        last = msg.strip().splitlines()[-1]
        exc = last.split(':')[0].strip()
        tags = ttags + ['exc:' + exc] + ([] if 'text:empty-line' in ttags else ptags)
        # the other postconditions fail as a consequence of the repr fallback: report the cause only
        return 'ok', [dict(kind='repr-fallback', case=case,
                           observed='warning: %s | %s | output %r' % (cw.bad[0], last, out),
                           expected='no "raised an exception" warning', tags=sorted(set(tags)))]
    vs = []
    if cw.messages:
        vs.append(dict(kind='warning', case=case, observed=cw.messages[0][:300], expected='no warning',
                       tags=sorted(set(ptags))))
    key = (expr if _has_user_types(plain) else common.canon(plain), tuple(sorted(kwargs.items())))
    ref = _REF_CACHE.get(key)
    if ref is None:
        ref_out = pformat(plain, **kwargs)
        ref = (norm_ast_dump(ref_out), ref_out)
        if len(_REF_CACHE) < 200000:
            _REF_CACHE[key] = ref
    try:
        got = norm_ast_dump(out)
    except SyntaxError as e:
        got = 'SyntaxError: %s' % e
    if got != ref[0]:
        vs.append(dict(kind='ast-differs', case=case, observed='%r parses to %s' % (out, got[:300]),
                       expected='%r parses to %s' % (ref[1], ref[0][:300]),
                       tags=sorted(set(ptags + (['unparsable'] if got.startswith('SyntaxError') else [])))))
    toks = common.comments_of(out)
    if toks is None:
        vs.append(dict(kind='words-missing', case=case, observed='%r cannot be tokenized' % out,
                       expected='comment tokens', tags=sorted(set(ptags + ttags + ['untokenizable']))))
    else:
        pool = ' '.join(toks).split()
        for wi, (tag, kind, t) in enumerate(wrappers):
            words = t.split()
            if not is_subsequence(words, pool):
                missing = [w for w in words if w not in pool]
                vs.append(dict(kind='words-missing' if missing else 'words-out-of-order', case=case,
                               observed='%s text %r: comment tokens %r of output %r' % (kind, t, toks, out),
                               expected='words %r in order inside the comment tokens' % words,
                               tags=sorted(set([tag] + text_tags([t]))), _wrapper=wi))
    return 'ok', vs


# ---------------------------------------------------------------------------------------------
_PLAN = {}


def _plan(tier):
    if tier not in _PLAN:
        thorough = tier == 'thorough'
        trees = all_trees(4)
        texts_a = TEXTS_A_THOROUGH if thorough else TEXTS_A_QUICK
        texts_b = all_texts(4 if thorough else 3)
        _PLAN[tier] = (trees, texts_a, texts_b, WIDTHS if thorough else WIDTHS_A_QUICK)
    return _PLAN[tier]


class _Collector:
    """keeps the smallest witness per (kind, tags) and counts the rest (a shard may see 10^4 violations)"""

    def __init__(self):
        self.acc = common.new_acc()
        self.best = {}

    def bump(self, k, n=1):
        c = self.acc['counters']
        c[k] = c.get(k, 0) + n

    def add(self, vs):
        for v in vs:
            self.bump('violations_all')
            self.bump('violations:' + v['kind'])
            key = (v['kind'], tuple(v['tags']))
            size = len(v['case']['expr'])
            if key not in self.best or size < self.best[key][0]:
                self.best[key] = (size, v)

    def done(self):
        self.acc['violations'] = [b[1] for b in self.best.values()]
        return self.acc


def _shard(arg):
    tier, shard = arg
    t0 = time.process_time()
    trees, texts_a, texts_b, widths_a = _plan(tier)
    col = _Collector()
    acc = col.acc

    probe_cache = {}

    def one(expr, kwargs, wrappers, ntkey, ablate=None, rebuild=None):
        status, vs = check_case(expr, kwargs, wrappers)
        if status == 'skip':
            col.bump('skipped_no_word_text')
            return
        acc['evaluations'] += 1
        acc['nontrivial'].add(ntkey)
        if vs:
            col.bump('violating_cases')
            out = []
            seen = set()
            for v in vs:
                if v['kind'] == 'ast-differs' and ablate and len(wrappers) > 1:
                    v['tags'] = ablate(kwargs, v['tags'])
                wi = v.pop('_wrapper', None)
                if wi is not None and rebuild is not None:
                    # does the comment also get lost with the plainest text?  then the text does not matter
                    key = (ntkey.rsplit(':', 1)[0], wi, kwargs['width'])
                    if key not in probe_cache:
                        texts = [w[2] for w in wrappers]
                        texts[wi] = PROBE_TEXT
                        e1 = rebuild(texts)
                        w1 = [(w[0], w[1], t) for w, t in zip(wrappers, texts)]
                        _, vs1 = check_case(e1, kwargs, w1)
                        probe_cache[key] = any(x.get('_wrapper') == wi for x in vs1)
                    if probe_cache[key]:
                        v['kind'] = 'words-missing'
                        v['tags'] = sorted([wrappers[wi][0], 'any-text'])
                k = (v['kind'], tuple(v['tags']))
                if k not in seen:
                    seen.add(k)
                    out.append(v)
            vs = out
        elif len(acc['samples']) < 1:
            acc['samples'].append({'expr': expr, 'kwargs': kwargs})
        col.add(vs)

    # part A: all placements on all trees x few texts
    for ti, spec in enumerate(trees):
        if ti % NSHARDS != shard:
            continue
        for pi, pl in enumerate(placements(spec)):
            for xi, text in enumerate(texts_a):
                texts = [text, alt_text(text)]
                expr, wrappers = build_expr(spec, pl, texts)
                try:
                    eval(expr, dict(NS_REAL))
                except TypeError:
                    col.bump('unbuildable')
                    continue

                def ablate(kwargs, tags, spec=spec, pl=pl, texts=texts):
                    """which single wrapper already breaks the syntax tree?  (tags of those; else the pair)"""
                    guilty = []
                    for i, sub in enumerate(sub_placements(pl)):
                        e1, w1 = build_expr(spec, sub, [texts[i]])
                        _, vs1 = check_case(e1, kwargs, w1)
                        if any(v['kind'] in ('ast-differs', 'raises', 'repr-fallback') for v in vs1):
                            guilty.append(w1[0][0])
                    extra = [t for t in tags if t == 'unparsable']
                    return sorted(set(guilty + extra)) if guilty else tags

                def rebuild(txts, spec=spec, pl=pl):
                    return build_expr(spec, pl, txts)[0]

                for w in widths_a:
                    col.bump('part_a')
                    one(expr, {'width': w}, wrappers, 'A:%d:%d:%d' % (ti, pi, xi), ablate, rebuild)
    # part B: representative placements x all texts
    for xi, text in enumerate(texts_b):
        if xi % NSHARDS != shard:
            continue
        for bi, (tpl, tags) in enumerate(TEMPLATES_B):
            expr = template_expr(tpl, text)
            wrappers = [(tags[0], tags[0].split('@')[0], text)]
            if len(tags) > 1:
                wrappers.append((tags[1], tags[1].split('@')[0], alt_text(text)))
            def rebuild(txts, tpl=tpl):
                return tpl.replace('T1', repr(txts[0])).replace('T2', repr(txts[-1]))

            for w in WIDTHS:
                col.bump('part_b')
                one(expr, {'width': w}, wrappers, 'B:%d:%d' % (bi, xi), None, rebuild)
    col.bump('cpu_s', time.process_time() - t0)
    return col.done()


def run(tier, seed, jobs=16):
    tier = common.tier_of(tier)
    seed = common.seed_of(seed)
    t0 = time.time()
    trees, texts_a, texts_b, widths_a = _plan(tier)
    n_place = sum(len(placements(s)) for s in trees)
    results = common.pmap(_shard, [(tier, s) for s in range(NSHARDS)], jobs)
    acc = common.merge(results)
    acc['counters']['cpu_s'] = round(acc['counters'].get('cpu_s', 0), 1)
    acc['counters']['wall_s'] = round(time.time() - t0, 1)
    bounds = {
        'part_A': 'ALL %d value trees with <= 4 nodes over list/tuple/set/dict and leaves 1, \'a\', None x ALL %d '
                  'placements of <= 2 wrappers (comment on any node, trailing_comment on containers, both on one '
                  'container) x %d texts %r x widths %r' % (len(trees), n_place, len(texts_a), texts_a, widths_a),
        'part_B': '%d representative placements (every attach site of sequence_of_docs, pretty_dict, build_fncall, '
                  'python_to_sdocs, trailing comments; calls through pretty_call / build_fncall / namedtuple) x ALL %d '
                  'texts over the alphabet %r up to length %d plus the specific texts x widths %r'
                  % (len(TEMPLATES_B), len(texts_b), ''.join(ALPHABET), 4 if tier == 'thorough' else 3, WIDTHS),
        'not_covered': 'the full product (all placements x all texts); trees with more than 4 nodes; more than 2 '
                       'comments; indent/ribbon_width other than the defaults',
        'seed': seed,
    }
    rule = ('a case is one (placement of wrappers on a tree, text) pair whose texts all contain a word; widths do '
            'not count as distinct')
    rep = common.report(acc, rule, bounds, exhaustive=False, max_violations=400)
    # the shards keep one witness per (kind, tags); the true number of violating evaluations is in the counters
    rep['violations_total'] = acc['counters'].get('violations_all', 0)
    return rep


def replay(case):
    status, vs = check_case(case['expr'], dict(case.get('kwargs') or {}), None)
    if status == 'skip':
        return {'violated': False, 'detail': 'text without a word: outside the quantifier'}
    if vs:
        return {'violated': True, 'detail': '; '.join('%s: observed %s; expected %s'
                                                      % (v['kind'], v['observed'], v['expected']) for v in vs)[:2000]}
    return {'violated': False, 'detail': 'all postconditions hold'}
