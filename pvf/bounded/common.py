"""Shared helpers of the bounded stand-ins.

A bounded stand-in is a module pvf/bounded/cNN.py with

    def run(tier, seed, jobs=16) -> dict          # see `report()` below for the keys
    def replay(case) -> dict                      # re-runs ONE recorded case on the real code: {'violated': bool, 'detail': str}

Everything found here is *bounded*: it is never counted as proved.  A violation is a dict

    {'kind':   stable short id of the postcondition that failed, e.g. 'eval-roundtrip',
     'case':   JSON-able description from which replay() can rebuild the input,
     'observed': str, 'expected': str,
     'tags':   sorted list of shape tags of the input (used to match known findings)}
"""
import ast
import io
import itertools
import json
import math
import multiprocessing
import os
import random
import sys
import time
import tokenize
import warnings

from pvf import REPO


def load_repo():
    """Import prettyprinter from the tree under check (PVF_REPO, default /repo)."""
    if REPO not in sys.path or sys.path[0] != REPO:
        sys.path.insert(0, REPO)
    for k in list(sys.modules):
        if k == 'prettyprinter' or k.startswith('prettyprinter.'):
            m = sys.modules[k]
            f = getattr(m, '__file__', '') or ''
            if not f.startswith(REPO):
                del sys.modules[k]
    import prettyprinter
    assert prettyprinter.__file__.startswith(REPO), prettyprinter.__file__
    return prettyprinter


def tier_of(tier):
    return os.environ.get('VERIF_TIER') or tier or 'quick'


def seed_of(seed):
    s = os.environ.get('VERIF_SEED')
    return int(s) if s not in (None, '') else (seed or 0)


# ---------------------------------------------------------------------------------------------
# parallel map over shards (fork; results must be picklable)
class ShardError(Exception):
    pass


class _Guard:
    """A worker that dies from a BaseException (an alarm exception, SystemExit) makes Pool.map wait forever:
    catch everything in the worker and hand the failure to the parent as data."""

    def __init__(self, fn):
        self.fn = fn

    def __call__(self, shard):
        try:
            return ('ok', self.fn(shard))
        except KeyboardInterrupt:
            raise
        except BaseException:      # noqa
            import traceback
            return ('error', traceback.format_exc()[-3000:])


def pmap(fn, shards, jobs=16):
    shards = list(shards)
    g = _Guard(fn)
    if jobs <= 1 or len(shards) <= 1:
        res = [g(s) for s in shards]
    else:
        ctx = multiprocessing.get_context('fork')
        with ctx.Pool(min(jobs, len(shards))) as pool:
            res = pool.map(g, shards, chunksize=1)
    errs = [r[1] for r in res if r[0] == 'error']
    if errs:
        raise ShardError('%d shard(s) failed; first:\n%s' % (len(errs), errs[0]))
    return [r[1] for r in res]


def merge(results):
    """Merge per-shard dicts produced with new_acc()."""
    acc = new_acc()
    for r in results:
        acc['evaluations'] += r['evaluations']
        acc['nontrivial'] |= set(r['nontrivial'])
        acc['violations'].extend(r['violations'])
        for s in r['samples']:
            if len(acc['samples']) < 12:
                acc['samples'].append(s)
        for k, v in r.get('counters', {}).items():
            acc['counters'][k] = acc['counters'].get(k, 0) + v
    return acc


def new_acc():
    return {'evaluations': 0, 'nontrivial': set(), 'violations': [], 'samples': [], 'counters': {}}


def report(acc, rule, bounds, exhaustive=False, max_violations=25):
    """Final dict of run()."""
    vs = acc['violations']
    # keep the smallest witness per (kind, tags)
    best = {}
    for v in vs:
        key = (v['kind'], tuple(v.get('tags', [])))
        size = len(json.dumps(v['case'], default=str))
        if key not in best or size < best[key][0]:
            best[key] = (size, v)
    uniq = [b[1] for b in sorted(best.values(), key=lambda b: b[0])]
    return {
        'evaluations': acc['evaluations'],
        'distinct_nontrivial': len(acc['nontrivial']),
        'rule': rule,
        'samples': acc['samples'][:12],
        'exhaustive': exhaustive,
        'bounds': bounds,
        'counters': acc['counters'],
        'violations_total': len(vs),
        'violations': uniq[:max_violations],
    }


# ---------------------------------------------------------------------------------------------
# configurations
def config_grid(tier):
    """(width, ribbon_width, indent) triples: small adversarial grid."""
    widths = [1, 2, 5, 13, 40, 79] if tier == 'quick' else [1, 2, 3, 5, 8, 13, 20, 40, 79, 200]
    out = []
    for w in widths:
        for r in sorted({1, w}):
            for ind in ((1, 4) if tier == 'quick' else (1, 2, 4, 8)):
                out.append((w, r, ind))
    return out


def random_config(rng):
    return (rng.randint(1, 200), rng.randint(1, 200), rng.randint(1, 8))


# ---------------------------------------------------------------------------------------------
# values
LEAVES = [0, -1, 10 ** 20, True, None, ..., 0.0, -0.0, float('inf'), float('nan'), 1e300,
          '', 'a', "'", '"', 'a b', '\\', '\n', '\xe9', b'', b"'", b'\x00']


def type_exact_equal(a, b):
    """structural equality with the same type at every position; nan == nan; -0.0 != 0.0; dict order matters"""
    if type(a) is not type(b):
        return False
    if isinstance(a, float):
        if math.isnan(a) or math.isnan(b):
            return math.isnan(a) and math.isnan(b)
        return a == b and math.copysign(1, a) == math.copysign(1, b)
    if isinstance(a, (list, tuple)):
        return len(a) == len(b) and all(type_exact_equal(x, y) for x, y in zip(a, b))
    if isinstance(a, dict):
        return len(a) == len(b) and all(type_exact_equal(k1, k2) and type_exact_equal(v1, v2)
                                        for (k1, v1), (k2, v2) in zip(a.items(), b.items()))
    if isinstance(a, (set, frozenset)):
        if len(a) != len(b):
            return False
        return sorted(map(canon, a)) == sorted(map(canon, b))
    return a == b


def canon(v):
    """a total, type-exact canonical string of a value (for set comparison and snapshots)"""
    if isinstance(v, float):
        if math.isnan(v):
            return 'float:nan'
        return 'float:%r' % v
    if isinstance(v, (list, tuple)):
        return '%s[%s]' % (type(v).__name__, ','.join(canon(x) for x in v))
    if isinstance(v, dict):
        return '%s{%s}' % (type(v).__name__, ','.join(canon(k) + ':' + canon(x) for k, x in v.items()))
    if isinstance(v, (set, frozenset)):
        return '%s{%s}' % (type(v).__name__, ','.join(sorted(canon(x) for x in v)))
    return '%s:%r' % (type(v).__name__, v)


def hashable(v):
    try:
        hash(v)
        return True
    except TypeError:
        return False


def value_trees(max_nodes, leaves=None):
    """All value trees with <= max_nodes nodes over list/tuple/set/frozenset/dict containers (generator).
    Sets/dict keys only take hashable members; duplicates collapse naturally."""
    leaves = LEAVES if leaves is None else leaves
    memo = {}

    def trees(n):
        if n in memo:
            return memo[n]
        out = []
        if n == 1:
            out.extend(leaves)
            out.extend([[], (), set(), frozenset(), {}])
        else:
            # container with children summing to n-1 nodes
            for parts in compositions(n - 1, 3):
                for kids in itertools.product(*[trees(k) for k in parts]):
                    out.append(list(kids))
                    out.append(tuple(kids))
                    if all(hashable(k) for k in kids):
                        try:
                            out.append(set(kids))
                            out.append(frozenset(kids))
                        except TypeError:
                            pass
            # dict: pairs (key leaf/hashable, value)
            for parts in compositions(n - 1, 4):
                if len(parts) % 2:
                    continue
                for kids in itertools.product(*[trees(k) for k in parts]):
                    keys, vals = kids[0::2], kids[1::2]
                    if all(hashable(k) for k in keys):
                        try:
                            d = {}
                            for k, v in zip(keys, vals):
                                d[k] = v
                            out.append(d)
                        except TypeError:
                            pass
        memo[n] = out
        return out

    for n in range(1, max_nodes + 1):
        for t in trees(n):
            yield t


def compositions(n, max_parts):
    """ordered partitions of n into 1..max_parts positive parts"""
    if n == 0:
        return
    for k in range(1, min(n, max_parts) + 1):
        for cuts in itertools.combinations(range(1, n), k - 1):
            b = (0,) + cuts + (n,)
            yield tuple(b[i + 1] - b[i] for i in range(k))


def random_value(rng, depth=0, max_depth=4, leaves=None):
    leaves = LEAVES if leaves is None else leaves
    if depth >= max_depth or rng.random() < 0.3:
        r = rng.random()
        if r < 0.5:
            return rng.choice(leaves)
        if r < 0.7:
            return rng.randint(-10 ** 6, 10 ** 6)
        if r < 0.85:
            return ''.join(rng.choice('ab \'"\\\n\xe9中-_/.') for _ in range(rng.randint(0, 60)))
        if r < 0.95:
            return bytes(rng.randrange(256) for _ in range(rng.randint(0, 40)))
        return rng.uniform(-1e6, 1e6)
    kind = rng.choice(['list', 'tuple', 'set', 'frozenset', 'dict'])
    n = rng.randint(0, 5)
    if kind in ('list', 'tuple'):
        xs = [random_value(rng, depth + 1, max_depth, leaves) for _ in range(n)]
        return xs if kind == 'list' else tuple(xs)
    if kind in ('set', 'frozenset'):
        xs = [x for x in (random_value(rng, max_depth, max_depth, leaves) for _ in range(n)) if hashable(x)]
        return set(xs) if kind == 'set' else frozenset(xs)
    d = {}
    for _ in range(n):
        k = random_value(rng, max_depth, max_depth, leaves)
        if hashable(k):
            d[k] = random_value(rng, depth + 1, max_depth, leaves)
    return d


# ---------------------------------------------------------------------------------------------
# output inspection
def safe_eval(text, ns=None):
    return eval('(' + text + '\n)', dict(ns or {}))


def ast_dump(text):
    return ast.dump(ast.parse('(' + text + '\n)', mode='eval'))


def comments_of(text):
    """list of comment strings (without '#') found by the tokenizer, in order"""
    out = []
    try:
        for tok in tokenize.generate_tokens(io.StringIO('(' + text + '\n)').readline):
            if tok.type == tokenize.COMMENT:
                out.append(tok.string[1:])
    except (tokenize.TokenError, IndentationError, SyntaxError):
        return None
    return out


class caught_warnings:
    """context manager: records warnings; .bad lists 'raised an exception' fallbacks"""

    def __enter__(self):
        self._cm = warnings.catch_warnings(record=True)
        self.log = self._cm.__enter__()
        warnings.simplefilter('always')
        return self

    def __exit__(self, *a):
        self._cm.__exit__(*a)

    @property
    def bad(self):
        return [str(w.message).splitlines()[0] for w in self.log if 'raised an exception' in str(w.message)]

    @property
    def messages(self):
        return [str(w.message) for w in self.log]


def shrink_repr(v, n=160):
    s = repr(v)
    return s if len(s) <= n else s[:n - 3] + '...'


# ---------------------------------------------------------------------------------------------
# bounded memory for violations (c01-c03): keep only the `keep` smallest witnesses per (kind, tags) in a
# shard, count all of them in counters['viol:<kind>']; report_counted() restores the true total.
def add_violation(acc, kind, case, observed, expected, tags, keep=2):
    acc['counters']['viol:' + kind] = acc['counters'].get('viol:' + kind, 0) + 1
    tags = sorted(tags)
    size = len(json.dumps(case, default=str))
    group = [(i, v) for i, v in enumerate(acc['violations']) if v['kind'] == kind and v['tags'] == tags]
    v = {'kind': kind, 'case': case, 'observed': observed, 'expected': expected, 'tags': tags}
    if len(group) < keep:
        acc['violations'].append(v)
        return
    worst_i, worst = max(group, key=lambda iv: len(json.dumps(iv[1]['case'], default=str)))
    if size < len(json.dumps(worst['case'], default=str)):
        acc['violations'][worst_i] = v


def report_counted(acc, rule, bounds, exhaustive=False, max_violations=25):
    """report() for accumulators filled with add_violation(): violations_total counts every violation"""
    rep = report(acc, rule, bounds, exhaustive, max_violations)
    rep['violations_total'] = sum(n for k, n in acc['counters'].items() if k.startswith('viol:'))
    rep['violation_groups'] = len({(v['kind'], tuple(v['tags'])) for v in acc['violations']})
    return rep


def large_values():
    """Values of sizes no enumeration reaches (long containers, long strings, wide and deep mixtures): a fault guarded by a
    size threshold shows only here."""
    out = [
        list(range(60)), tuple(range(45)), set(range(40)), frozenset(range(35)),
        {i: str(i) for i in range(40)}, {'key%02d' % i: list(range(i % 7)) for i in range(24)},
        [[i, [i, [i]]] for i in range(25)], [(i, i) for i in range(40)],
        'word ' * 60, 'x' * 250, "it's \"quoted\" " * 20, b'ab ' * 80, 'line one\nline two ' * 15,
        [('name%d' % i, {'a': i, 'b': [i] * 5, 'c': 'text ' * 6}) for i in range(12)],
        {('k', i): frozenset({i, i + 1}) for i in range(20)},
        [1.5, -0.0, float('inf'), None, True, ...] * 8,
        # equal-but-distinguishable scalars (1 == 1.0 == True, 0 == 0.0 == -0.0 == False) in long sequences: type-exact round trip
        [1, 1.0, True, 0, 0.0, -0.0, False, 2, 2.0] + list(range(100, 140)),
        tuple(list(range(100, 135)) + [0.0, -0.0, 0, False, 1.0, 1, True]),
        [True, 1, 1.0] * 15, [0.0, 0, -0.0, False] * 10,
        ['a', b'a', 'a', b'a'] * 10,
    ]
    deep = 0
    for _ in range(14):
        deep = [deep]
    out.append(deep)
    d = 'leaf'
    for i in range(10):
        d = {'level%d' % i: d, 'n': i}
    out.append(d)
    return out
