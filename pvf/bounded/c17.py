"""C17 bounded stand-in: call-style printers show exactly the constructor call.

Part (a) ``call``: user classes whose registered printer calls ``pretty_call(ctx, Callee, *args, **kwargs)`` or
``pretty_call_alt(ctx, Callee, args=..., kwargs=<pairs | OrderedDict | dict>)``.
Part (b) ``class``: the ``dataclasses`` and ``attrs`` extras on programmatically generated class definitions
(``dataclasses.make_dataclass`` / ``attr.make_class``).

Postconditions on the real ``prettyprinter.pformat`` output, for the node printed for the instance
(top level, or second element of a list):

  printer-raised          no "raised an exception" fallback warning
  not-parsable            the output parses (``ast``)
  not-a-call / wrong-callee   the node is a call whose dotted callee is the qualified name of the callable
                          (module.qualname; bare qualname for ``__main__``)
  wrong-positional        the positional arguments are as many as given, none starred
  wrong-keywords          the keyword names are exactly the expected ones, in the given / declaration order;
                          for (b): the fields with repr enabled and (no default or value != default [factory()])
  argument-differs        ``ast.dump`` of every argument sub-tree == ``ast.dump`` of the stand-alone
                          ``pformat(argument, width=10000)``
  not-evaluable/not-equal ``eval`` (namespace: this module under its dotted path, ``__main__``-style classes under
                          their bare name, ``collections``) reconstructs an equal instance.  (a): same class, same
                          args (type-exact), same kwargs in the same order.  (b): the class's own ``__eq__``
                          against the instance whose repr=False fields are reset to their defaults (those cannot be
                          shown by construction).

Bound (a): all argument lists with <= 1 argument over ``ATOMS`` x ``KWNAMES``, plus seeded random lists for every
shape 0..4 positional x 0..3 keyword; x 8 printer classes x 2 contexts x configurations.
Bound (b): all definitions with <= 1 field over names x default kinds x repr x variants x instance values, plus
seeded random definitions with 2..3 (thorough: 2..4) fields; x 2 contexts x configurations.
"""
import ast
import collections
import dataclasses
import json
import random
import sys
import typing

import attr

import pvf
from pvf.bounded import common

pp = common.load_repo()
MODPATH = __name__
_THIS = sys.modules[__name__]

_SETUP_DONE = False


def ensure_setup():
    """once per process: install the two extras and register the printers of part (a).  Done lazily (first
    check) so that merely importing this module leaves the printer registries of the tree under check untouched."""
    global _SETUP_DONE
    if _SETUP_DONE:
        return
    _SETUP_DONE = True
    with common.caught_warnings():
        pp.install_extras(include=['dataclasses', 'attrs'], raise_on_error=True)
    _register()


# ---------------------------------------------------------------------------------------------
# part (a): classes printed through pretty_call / pretty_call_alt
class _Rec:
    """records its constructor call; equality on (class, args type-exact, kwargs in order)"""
    __hash__ = None

    def __init__(*args, **kwargs):
        self, *args = args
        self.args = tuple(args)
        self.kwargs = dict(kwargs)

    def __eq__(self, other):
        return (type(other) is type(self) and common.type_exact_equal(self.args, other.args)
                and list(self.kwargs) == list(other.kwargs)
                and common.type_exact_equal(list(self.kwargs.values()), list(other.kwargs.values())))

    def __repr__(self):
        parts = [repr(a) for a in self.args] + ['%s=%r' % kv for kv in self.kwargs.items()]
        return '<%s %s>' % (type(self).__name__, ', '.join(parts))


class KC(_Rec):
    """pretty_call(ctx, KC, *args, **kwargs)"""


class KA(_Rec):
    """pretty_call_alt(ctx, KA, args=tuple, kwargs=[(k, v), ...])"""


class KO(_Rec):
    """pretty_call_alt(ctx, KO, args=tuple, kwargs=OrderedDict)"""


class KD(_Rec):
    """pretty_call_alt(ctx, KD, args=list, kwargs=dict)"""


class KT(_Rec):
    """pretty_call_alt(ctx, KT, args=tuple, kwargs=generator of pairs)"""


class M(_Rec):
    """__main__-style class, pretty_call"""


M.__module__ = '__main__'


class Outer:
    class Inner(_Rec):
        """nested qualified name, pretty_call_alt"""


class KF(_Rec):
    """printed as a call of the module-level *function* mk: pretty_call(ctx, mk, ...)"""


def mk(*args, **kwargs):
    return KF(*args, **kwargs)


CALL_CLASSES = {
    'KC': (KC, 'pretty_call', MODPATH + '.KC'),
    'KA': (KA, 'pretty_call_alt', MODPATH + '.KA'),
    'KO': (KO, 'pretty_call_alt', MODPATH + '.KO'),
    'KD': (KD, 'pretty_call_alt', MODPATH + '.KD'),
    'KT': (KT, 'pretty_call_alt', MODPATH + '.KT'),
    'M': (M, 'pretty_call', 'M'),
    'Outer.Inner': (Outer.Inner, 'pretty_call_alt', MODPATH + '.Outer.Inner'),
    'KF': (KF, 'pretty_call', MODPATH + '.mk'),
}


def _register():
    @pp.register_pretty(KC)
    def _kc(v, ctx):
        return pp.pretty_call(ctx, KC, *v.args, **v.kwargs)

    @pp.register_pretty(M)
    def _m(v, ctx):
        return pp.pretty_call(ctx, M, *v.args, **v.kwargs)

    @pp.register_pretty(KF)
    def _kf(v, ctx):
        return pp.pretty_call(ctx, mk, *v.args, **v.kwargs)

    @pp.register_pretty(KA)
    def _ka(v, ctx):
        return pp.pretty_call_alt(ctx, KA, args=tuple(v.args), kwargs=list(v.kwargs.items()))

    @pp.register_pretty(KO)
    def _ko(v, ctx):
        return pp.pretty_call_alt(ctx, KO, args=tuple(v.args), kwargs=collections.OrderedDict(v.kwargs.items()))

    @pp.register_pretty(KD)
    def _kd(v, ctx):
        return pp.pretty_call_alt(ctx, KD, args=list(v.args), kwargs=dict(v.kwargs))

    @pp.register_pretty(KT)
    def _kt(v, ctx):
        return pp.pretty_call_alt(ctx, KT, args=tuple(v.args), kwargs=((k, x) for k, x in v.kwargs.items()))

    @pp.register_pretty(Outer.Inner)
    def _oi(v, ctx):
        return pp.pretty_call_alt(ctx, Outer.Inner, args=v.args, kwargs=list(v.kwargs.items()))


ATOMS = ['0', '-1', "'a'", "'a b'", 'None', '1.5', 'True', '[]', '[1, 2]', '{}', "{'k': 1}", '()', '(1,)', '{1}',
         "'the quick brown fox jumps over the lazy dog'", "[[1, 2], {'a': [3]}]", 'KC()', 'KA(1, x=[1])', "M('m')",
         'Outer.Inner(k=KC(0))', "[KC(1), {'d': KA()}]", 'KO([1])', 'mk(2, b=3)']
KWNAMES = ['a', 'b', 'x', 'fn', 'ctx', 'args', 'kwargs', 'self', 'value']

PRETTY_CALL_CLASSES = {n for n, v in CALL_CLASSES.items() if v[1] == 'pretty_call'}
EXPR_NS = {'KC': KC, 'KA': KA, 'KO': KO, 'KD': KD, 'KT': KT, 'M': M, 'Outer': Outer, 'KF': KF, 'mk': mk}


# ---------------------------------------------------------------------------------------------
# part (b): generated dataclasses / attrs classes
@dataclasses.dataclass
class Pt:
    """a fixed dataclass used as a nested field value"""
    x: int = 0


def self_factory(self):
    return []


EXPR_NS['Pt'] = Pt

FIELD_NAMES = ['a', 'b', 'fn', 'ctx', 'args', 'kwargs', 'value', '_p']
DEFAULT_KINDS = ['none', 'value', 'list', 'dict']          # attrs additionally 'self' (Factory(takes_self=True))
DEFAULT_VALUES = ['0', "'a'", 'None', '(1,)']
FIELD_VALUES = ['0', '1', "'a'", 'None', '[]', '[1]', '{}', "{'k': 1}", '(1,)', 'Pt(1)', 'True',
                "'a long value that needs some room to print'"]
VARIANTS = [  # (frozen, slots, kw_only)
    (False, False, False), (True, False, False), (False, True, False), (True, True, False), (False, False, True)]

_CLASS_CACHE = {}


def build_class(spec):
    key = json.dumps(spec, sort_keys=True)
    if key in _CLASS_CACHE:
        return _CLASS_CACHE[key]
    name = spec['name']
    module = '__main__' if spec['main'] else MODPATH
    if spec['lib'] == 'dc':
        fields = []
        for f in spec['fields']:
            kw = {'repr': f['repr']}
            if f['default'] == 'value':
                kw['default'] = eval(f['dv'], dict(EXPR_NS))
            elif f['default'] == 'list':
                kw['default_factory'] = list
            elif f['default'] == 'dict':
                kw['default_factory'] = dict
            elif f['default'] != 'none':
                raise ValueError(f['default'])
            fields.append((f['name'], typing.Any, dataclasses.field(**kw)))
        cls = dataclasses.make_dataclass(name, fields, frozen=spec['frozen'], slots=spec['slots'],
                                         kw_only=spec['kw_only'], module=module)
    else:
        attrs_ = collections.OrderedDict()
        for f in spec['fields']:
            kw = {'repr': f['repr']}
            if f['default'] == 'value':
                kw['default'] = eval(f['dv'], dict(EXPR_NS))
            elif f['default'] == 'list':
                kw['factory'] = list
            elif f['default'] == 'dict':
                kw['factory'] = dict
            elif f['default'] == 'self':
                kw['default'] = attr.Factory(self_factory, takes_self=True)
            elif f['default'] != 'none':
                raise ValueError(f['default'])
            attrs_[f['name']] = attr.ib(**kw)
        cls = attr.make_class(name, attrs_, frozen=spec['frozen'], slots=spec['slots'], kw_only=spec['kw_only'])
    cls.__module__ = module
    cls.__qualname__ = name
    _CLASS_CACHE[key] = cls
    return cls


def default_value(f):
    """(has_default, fresh default value)"""
    if f['default'] == 'none':
        return False, None
    if f['default'] == 'value':
        return True, eval(f['dv'], dict(EXPR_NS))
    if f['default'] in ('list', 'self'):
        return True, []
    if f['default'] == 'dict':
        return True, {}
    raise ValueError(f['default'])


def init_name(spec, fname):
    if spec['lib'] == 'attrs':
        return fname.lstrip('_')          # attrs strips leading underscores for the __init__ argument (alias)
    return fname


def make_instances(spec, inst):
    """-> (cls, instance, expected rebuilt instance, [(shown field name, value)])"""
    cls = build_class(spec)
    kw, kw_expected, shown = {}, {}, []
    for f, vexpr in zip(spec['fields'], inst):
        has_default, dv = default_value(f)
        if vexpr is None:
            assert has_default
            value = dv
        else:
            value = eval(vexpr, dict(EXPR_NS))
            kw[init_name(spec, f['name'])] = value
        if not f['repr']:
            assert has_default
            continue
        if vexpr is not None:
            kw_expected[init_name(spec, f['name'])] = value
        if not has_default or value != dv:
            # the keyword that rebuilds the instance is the __init__ argument name (attrs: the alias)
            shown.append((init_name(spec, f['name']), value))
    return cls, cls(**kw), cls(**kw_expected), shown


# ---------------------------------------------------------------------------------------------
CONTEXTS = ['top', 'list']


def configs_of(tier):
    if tier == 'quick':
        return [(79, 71, 4), (1, 1, 4), (2, 2, 1), (5, 5, 2), (13, 13, 4), (20, 10, 4), (40, 40, 8), (200, 200, 4)]
    out = []
    for w in [1, 2, 3, 5, 8, 13, 20, 30, 40, 60, 79, 200]:
        for r, ind in ((w, 4), (max(1, w // 2), 1)):
            out.append((w, r, ind))
    return out


def dotted(node):
    parts = []
    while isinstance(node, ast.Attribute):
        parts.append(node.attr)
        node = node.value
    if not isinstance(node, ast.Name):
        return None
    parts.append(node.id)
    return '.'.join(reversed(parts))


_STANDALONE = {}


def standalone_dump(value, key=None, sort=False):
    if key is not None and (key, sort) in _STANDALONE:
        return _STANDALONE[(key, sort)]
    with common.caught_warnings():
        d = ast.dump(ast.parse('(' + pp.pformat(value, width=10000, sort_dict_keys=sort) + '\n)', mode='eval').body)
    if key is not None:
        _STANDALONE[(key, sort)] = d
    return d


def check_output(v, ctx, cfg, callee, pos, kws, expected_obj, ns, equal):
    """pos: [(value, cache key)], kws: [(name, value, cache key)] -> (kind or None, observed, expected, out)"""
    w = v if ctx == 'top' else [0, v]
    width, ribbon, indent = cfg
    with common.caught_warnings() as cw:
        try:
            # max_seq_len is passed with a non-default value (it truncates nothing in this domain) so that the run-time contract of the
            # context family can see a printer that loses it; sort_dict_keys is ON for the odd widths: the keyword arguments of a call
            # keep the order given whatever the setting says about dict keys (each argument is compared with its stand-alone print
            # under the same setting)
            sort = bool(width % 2)
            out = pp.pformat(w, width=width, ribbon_width=ribbon, indent=indent, max_seq_len=997, sort_dict_keys=sort)
        except Exception as e:
            return ('pformat-raised', '%s: %s' % (type(e).__name__, e), 'pformat returns a str', '')
    exp_text = '%s(%s)' % (callee, ', '.join(['<arg>'] * len(pos) + ['%s=<arg>' % k for k, _v, _c in kws]))
    if cw.bad:
        return ('printer-raised', out + '   # warning: ' + cw.bad[0], 'no "raised an exception" warning', out)
    try:
        tree = ast.parse('(' + out + '\n)', mode='eval').body
    except SyntaxError as e:
        return ('not-parsable', '%s -> %s' % (out, e), exp_text, out)
    node = tree
    if ctx == 'list':
        if not (isinstance(tree, ast.List) and len(tree.elts) == 2):
            return ('context-changed', out, '[0, %s]' % exp_text, out)
        node = tree.elts[1]
    if not isinstance(node, ast.Call):
        return ('not-a-call', out, exp_text, out)
    if dotted(node.func) != callee:
        return ('wrong-callee', '%s (callee %s)' % (out, dotted(node.func)), exp_text, out)
    if len(node.args) != len(pos) or any(isinstance(a, ast.Starred) for a in node.args):
        return ('wrong-positional', out, exp_text, out)
    if [k.arg for k in node.keywords] != [k for k, _v, _c in kws]:
        return ('wrong-keywords', '%s (keywords %s)' % (out, [k.arg for k in node.keywords]), exp_text, out)
    for i, (sub, (val, ck)) in enumerate(zip(node.args, pos)):
        if ast.dump(sub) != standalone_dump(val, ck, sort):
            return ('argument-differs', '%s (positional %d: %s)' % (out, i, ast.unparse(sub)),
                    'argument printed as on its own: ' + pp.pformat(val, width=10000), out)
    for kwn, (name, val, ck) in zip(node.keywords, kws):
        if ast.dump(kwn.value) != standalone_dump(val, ck, sort):
            return ('argument-differs', '%s (keyword %s: %s)' % (out, name, ast.unparse(kwn.value)),
                    'argument printed as on its own: ' + pp.pformat(val, width=10000), out)
    exp_eval = 'evaluates to ' + common.shrink_repr(expected_obj, 200)
    try:
        r = common.safe_eval(out, ns)
    except Exception as e:
        return ('not-evaluable', '%s -> %s: %s' % (out, type(e).__name__, e), exp_eval, out)
    x = r if ctx == 'top' else r[1]
    if not equal(x, expected_obj):
        return ('not-equal', '%s -> %s' % (out, common.shrink_repr(x, 200)), exp_eval, out)
    return (None, out, exp_text, out)


CALL_EVAL_NS = {'pvf': pvf, 'M': M, 'collections': collections}


def _code_dump(text):
    return ast.dump(ast.parse('(' + text + '\n)', mode='eval').body)


def check_commented_call(cls, args, kwargs, plain, ctx, cfg):
    """the same call with comment() around ONE argument value (each keyword value in turn, then the first positional): a comment is
    inert, so the text must still be an expression with the syntax tree of the uncommented print - "each argument printed exactly as it
    would be on its own" includes an argument that carries a comment"""
    width, ribbon, indent = cfg
    sort = bool(width % 2)
    kw = dict(width=width, ribbon_width=ribbon, indent=indent, max_seq_len=997, sort_dict_keys=sort)

    def show(x):
        return x if ctx == 'top' else [0, x]
    with common.caught_warnings():
        want = _code_dump(pp.pformat(show(plain), **kw))
    variants = []
    for i, (k, val) in enumerate(kwargs):
        variants.append(('keyword %s' % k, list(args), [(k2, pp.comment(v2, 'remark on %s' % k2) if j == i else v2) for j, (k2, v2) in enumerate(kwargs)]))
    if args:
        variants.append(('positional 0', [pp.comment(args[0], 'remark on the first')] + list(args[1:]), list(kwargs)))
    for what, a2, k2 in variants:
        try:
            vc = cls(*a2, **dict(k2))
            with common.caught_warnings() as cw:
                out = pp.pformat(show(vc), **kw)
        except Exception as e:      # noqa
            return ('commented-argument-raised', '%s: %s' % (type(e).__name__, e), 'pformat returns a str', '')
        if cw.bad:
            return ('printer-raised', out + '   # warning: ' + cw.bad[0], 'no "raised an exception" warning (comment on %s)' % what, out)
        try:
            got = _code_dump(out)
        except SyntaxError as e:
            return ('commented-argument-not-parsable', '%s -> %s' % (out, e), 'the call, with a comment on %s' % what, out)
        if got != want:
            return ('commented-argument-differs', out, 'the same syntax tree as without the comment on %s' % what, out)
    return None


def check(case):
    ensure_setup()
    cfg = tuple(case['cfg'])
    if case['part'] == 'call':
        cls, api, callee = CALL_CLASSES[case['cls']]
        args = [eval(e, dict(EXPR_NS)) for e in case['args']]
        kwargs = [(k, eval(e, dict(EXPR_NS))) for k, e in case['kwargs']]
        v = cls(*args, **dict(kwargs))
        pos = [(a, e) for a, e in zip(args, case['args'])]
        kws = [(k, val, e) for (k, val), (_k, e) in zip(kwargs, case['kwargs'])]
        res = check_output(v, case['ctx'], cfg, callee, pos, kws, v, CALL_EVAL_NS,
                           lambda x, y: type(x) is type(y) and x == y)
        if res[0] is None and (args or kwargs):
            bad = check_commented_call(cls, args, kwargs, v, case['ctx'], cfg)
            if bad is not None:
                return bad
        return res
    spec = case['spec']
    cls, inst, expected, shown = make_instances(spec, case['inst'])
    callee = spec['name'] if spec['main'] else MODPATH + '.' + spec['name']
    ns = {'pvf': pvf, 'collections': collections}
    if spec['main']:
        ns[spec['name']] = cls
    else:
        setattr(_THIS, spec['name'], cls)
    kws = [(n, val, None) for n, val in shown]
    return check_output(inst, case['ctx'], cfg, callee, [], kws, expected, ns,
                        lambda x, y: type(x) is type(y) and x == y)


def replay(case):
    if isinstance(case, dict) and case.get('check') == 'ctx-invariant':
        from pvf import monitor as _monitor
        return _monitor.replay_ctx_invariant(case)
    kind, observed, expected, _out = check(case)
    if kind is None:
        return {'violated': False, 'detail': observed}
    return {'violated': True, 'detail': '%s: observed %s ; expected %s' % (kind, observed, expected)}


# ---------------------------------------------------------------------------------------------
# domains
def call_inputs(tier, rng):
    """[(cls name, [arg exprs], [[kw, expr], ...])]"""
    lists = [([], [])]
    for a in ATOMS:
        lists.append(([a], []))
        for k in KWNAMES:
            lists.append(([], [[k, a]]))
    per_shape = 10 if tier == 'quick' else 60
    for npos in range(0, 5):
        for nkw in range(0, 4):
            if npos + nkw <= 1:
                continue
            for _ in range(per_shape):
                pos = [rng.choice(ATOMS) for _ in range(npos)]
                names = rng.sample(KWNAMES, nkw)
                lists.append((pos, [[k, rng.choice(ATOMS)] for k in names]))
    # long argument lists (sizes the shapes above never reach: a threshold on the number of arguments shows only here)
    long_kw = [k for k in KWNAMES if k not in ('fn', 'ctx')]
    for npos, nkw in ((9, 0), (13, 0), (19, 0), (0, 7), (5, 7), (10, 7), (17, 2)):
        pos = [ATOMS[i % len(ATOMS)] for i in range(npos)]
        lists.append((pos, [[k, ATOMS[(i + 3) % len(ATOMS)]] for i, k in enumerate(long_kw[:nkw])]))
    out = []
    for name in CALL_CLASSES:
        for pos, kws in lists:
            # pretty_call(ctx, fn, *args, **kwargs) cannot be *called* with a keyword named 'fn' or 'ctx': Python
            # raises TypeError in the user's printer before the package is entered.  Such argument lists are outside
            # the quantifier for the pretty_call classes (they stay in for pretty_call_alt).  Corrected after triage.
            if name in PRETTY_CALL_CLASSES and any(k in ('fn', 'ctx') for k, _ in kws):
                continue
            out.append({'part': 'call', 'cls': name, 'args': pos, 'kwargs': kws})
    return out


def _field_options(lib):
    kinds = DEFAULT_KINDS + (['self'] if lib == 'attrs' else [])
    opts = []
    for kind in kinds:
        dvs = DEFAULT_VALUES if kind == 'value' else [None]
        for dv in dvs:
            for rp in (True, False):
                if not rp and kind == 'none':
                    continue
                opts.append((kind, dv, rp))
    return opts


def _instance_options(f, rng=None, k=None):
    """value expressions for one field: default omitted, explicit == default, explicit != default"""
    has_default, dv = default_value(f)
    out = []
    if has_default:
        out.append(None)
        eq = [e for e in FIELD_VALUES if eval(e, dict(EXPR_NS)) == dv]
        out.extend(eq[:2])
    ne = [e for e in FIELD_VALUES if not has_default or eval(e, dict(EXPR_NS)) != dv]
    if rng is None:
        out.extend(ne)
    else:
        out.extend(rng.sample(ne, min(k, len(ne))))
    return out


def class_inputs(tier, rng):
    out = []
    # exhaustive: 0 and 1 field
    for lib in ('dc', 'attrs'):
        for frozen, slots, kw_only in VARIANTS:
            for main in (True, False):
                base = {'lib': lib, 'name': 'G', 'main': main, 'frozen': frozen, 'slots': slots, 'kw_only': kw_only}
                out.append({'part': 'class', 'spec': dict(base, fields=[]), 'inst': []})
                for fname in FIELD_NAMES:
                    for kind, dv, rp in _field_options(lib):
                        f = {'name': fname, 'default': kind, 'dv': dv, 'repr': rp}
                        if (frozen, slots, kw_only) != VARIANTS[0] and fname not in ('a', 'fn', '_p'):
                            continue
                        vals = _instance_options(f) if (fname == 'a' and not main) else _instance_options(f, rng, 2)
                        for vexpr in vals:
                            out.append({'part': 'class', 'spec': dict(base, fields=[f]), 'inst': [vexpr]})
    # wide classes: 9..14 fields (a threshold on the number of fields shows only here)
    for lib in ('dc', 'attrs'):
        for nf in (9, 12, 14):
            fields = [{'name': 'f%02d' % i, 'default': 'none' if i < nf // 2 else 'value', 'dv': '0', 'repr': True} for i in range(nf)]
            spec = {'lib': lib, 'name': 'Wide', 'main': False, 'frozen': False, 'slots': False, 'kw_only': False, 'fields': fields}
            out.append({'part': 'class', 'spec': spec, 'inst': [str(i + 1) for i in range(nf)]})
            out.append({'part': 'class', 'spec': spec, 'inst': [str(i + 1) if i % 3 else '0' for i in range(nf)]})
    # random: 2..n fields
    nclasses = 500 if tier == 'quick' else 3000
    maxf = 3 if tier == 'quick' else 4
    for i in range(nclasses):
        lib = rng.choice(['dc', 'attrs'])
        frozen, slots, kw_only = rng.choice(VARIANTS)
        nf = rng.randint(2, maxf)
        names = rng.sample(FIELD_NAMES, nf)
        opts = _field_options(lib)
        fields = []
        for n in names:
            kind, dv, rp = rng.choice(opts)
            if rng.random() < 0.35:
                kind, dv, rp = 'none', None, True
            fields.append({'name': n, 'default': kind, 'dv': dv, 'repr': rp})
        if not kw_only:
            fields.sort(key=lambda f: f['default'] != 'none')       # mandatory fields first (stable)
        spec = {'lib': lib, 'name': rng.choice(['G', 'Generated']), 'main': rng.random() < 0.3, 'frozen': frozen,
                'slots': slots, 'kw_only': kw_only, 'fields': fields}
        for _ in range(3):
            inst = [rng.choice(_instance_options(f, rng, 3)) for f in fields]
            out.append({'part': 'class', 'spec': spec, 'inst': inst})
    return out


def shape_tags(inp):
    if inp['part'] == 'call':
        _cls, api, _callee = CALL_CLASSES[inp['cls']]
        tags = [api]
        for k, _e in inp['kwargs']:
            if k in ('fn', 'ctx'):
                tags.append('kwarg-named-' + k)
        return tags
    spec = inp['spec']
    tags = ['dataclass' if spec['lib'] == 'dc' else 'attrs']
    _cls, _inst, _exp, shown = make_instances(spec, inp['inst'])
    for n, _v in shown:
        if n in ('fn', 'ctx') and spec['lib'] == 'dc':      # pretty_call's own parameter names
            tags.append('field-named-' + n)
        if n.startswith('_') and spec['lib'] == 'attrs':
            tags.append('attrs-private-field')
    return tags


def _shard(arg):
    inputs, tier = arg
    acc = common.new_acc()
    from pvf import monitor as _monitor
    _sink = _monitor.install_ctx_invariant()
    cfgs = configs_of(tier)
    cnt = acc['counters']
    for inp in inputs:
        cnt[inp['part'] + '_inputs'] = cnt.get(inp['part'] + '_inputs', 0) + 1
        raw = []
        ikey = json.dumps(inp, sort_keys=True)
        for ctx in CONTEXTS:
            for cfg in cfgs:
                case = dict(inp, ctx=ctx, cfg=list(cfg))
                kind, observed, expected, out = check(case)
                acc['evaluations'] += 1
                if '\n' in out:
                    acc['nontrivial'].add(ikey)
                if kind is None and len(acc['samples']) < 1 and '\n' in out and cfg[0] >= 13:
                    acc['samples'].append({'case': case, 'output': out})
                if kind is not None:
                    raw.append((kind, case, observed, expected))
        if not raw:
            continue
        tags = shape_tags(inp)
        by_kind = {}
        for kind, case, observed, expected in raw:
            by_kind.setdefault(kind, []).append(case)
        kept = {}
        for kind, case, observed, expected in raw:
            cnt['violating_evaluations'] = cnt.get('violating_evaluations', 0) + 1
            kept[kind] = kept.get(kind, 0) + 1
            if kept[kind] > 3:
                continue
            t = list(tags)
            if len(by_kind[kind]) != len(CONTEXTS) * len(cfgs):
                t.append('width-dependent')
            acc['violations'].append({'kind': kind, 'case': case, 'observed': observed, 'expected': expected,
                                      'tags': sorted(set(t))})
    _monitor.drain(_sink, acc)
    acc = dict(acc)
    acc['nontrivial'] = sorted(acc['nontrivial'])
    return acc


def run(tier, seed, jobs=16):
    tier = common.tier_of(tier)
    seed = common.seed_of(seed)
    rng = random.Random(seed)
    calls = call_inputs(tier, rng)
    classes = class_inputs(tier, rng)
    inputs = calls + classes
    nshards = max(1, min(len(inputs), jobs * 6))
    shards = [(inputs[i::nshards], tier) for i in range(nshards)]
    acc = common.merge(common.pmap(_shard, shards, jobs))
    bounds = {'call_inputs': len(calls), 'call_classes': list(CALL_CLASSES), 'atoms': len(ATOMS), 'kwnames': KWNAMES,
              'class_inputs': len(classes),
              'class_definitions': len({json.dumps(c['spec'], sort_keys=True) for c in classes}),
              'field_names': FIELD_NAMES, 'contexts': CONTEXTS, 'configs': len(configs_of(tier)), 'seed': seed}
    rule = ('an input (argument list, or class definition + instance) is non-trivial when at least one '
            'configuration forces a multi-line output of the call')
    return common.report(acc, rule, bounds, exhaustive=False, max_violations=40)
