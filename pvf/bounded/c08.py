"""C08 bounded stand-in: instances of subclasses of built-in types keep their class.

Postcondition on the real ``prettyprinter.pformat`` for every case

    (subclass, base value, nesting context, width, indent)

  * no "raised an exception" fallback warning,
  * the output evaluates (namespace: this module under its dotted path, ``types``, and the
    ``__main__``-style classes under their bare names),
  * the object found at the position of the instance has ``type(x) is subclass``,
  * its base value equals the input's base value (compared through the base type's own methods,
    never through the possibly overridden ``__repr__``/``__str__``),
  * the rest of the context is unchanged.

Bound: a fixed family of subclasses (see ``FAMILY``) of the nine bases x the base values of ``VALUES``
x 7 contexts x widths (quick: 1,2,4,8,13,20,40,79; thorough: 1..60,79,120) x indents (quick: 4;
thorough: 1,2,4).  Exhaustive over that grid, nothing random: the seed is unused.
"""
import enum
import math
import sys
import types

import pvf
from pvf.bounded import common

pp = common.load_repo()

_THIS = sys.modules[__name__]
MODPATH = __name__          # 'pvf.bounded.c08'

BASES = {'L': list, 'T': tuple, 'Se': set, 'Fs': frozenset, 'D': dict, 'S': str, 'B': bytes, 'I': int, 'F': float}
BASE_WORD = {'L': 'list', 'T': 'tuple', 'Se': 'set', 'Fs': 'frozenset', 'D': 'dict', 'S': 'str', 'B': 'bytes',
             'I': 'int', 'F': 'float'}

# name -> (class, base key, variant)
FAMILY = {}


def _make(name, basekey, variant, main_style, qualname=None):
    base = BASES[basekey]
    body = {}
    if variant == 'repr-override':
        body['__repr__'] = lambda self, _n=name: _n + '!'
    elif variant == 'str-override':
        body['__str__'] = lambda self, _n=name: _n + '!'
    cls = type(name, (base,), body)
    cls.__module__ = '__main__' if main_style else MODPATH
    cls.__qualname__ = qualname or name
    FAMILY[qualname or name] = (cls, basekey, variant + ('' if main_style else '+qualified'))
    return cls


for _k in BASES:
    setattr(_THIS, _k, _make(_k, _k, 'plain', True))                    # class L(list): pass   (printed as L(...))
    setattr(_THIS, _k + 'q', _make(_k + 'q', _k, 'plain', False))      # printed as pvf.bounded.c08.Lq(...)
    setattr(_THIS, _k + 'r', _make(_k + 'r', _k, 'repr-override', True))
    setattr(_THIS, _k + 's', _make(_k + 's', _k, 'str-override', True))
    setattr(_THIS, _k + 'b', _make(_k + 'b', _k, 'repr-override', False))   # qualified + __repr__


class Outer:
    """holder of nested classes: qualified name pvf.bounded.c08.Outer.Ln"""


Outer.Ln = _make('Ln', 'L', 'plain', False, qualname='Outer.Ln')
Outer.Sn = _make('Sn', 'S', 'plain', False, qualname='Outer.Sn')


class Ie(enum.IntEnum):
    Z = 0
    N = -5
    BIG = 10 ** 20
    ONE = 1


Ie.__module__ = '__main__'
FAMILY['Ie'] = (Ie, 'I', 'intenum')


class Iq(enum.IntEnum):      # module-qualified IntEnum
    Z = 0
    N = -5
    BIG = 10 ** 20
    ONE = 1


FAMILY['Iq'] = (Iq, 'I', 'intenum+qualified')


class Sen(enum.StrEnum):
    E = ''
    A = 'a'
    HW = 'hello world'


Sen.__module__ = '__main__'
FAMILY['Sen'] = (Sen, 'S', 'strenum')

LONG_SP = 'the quick brown fox jumps over the lazy dog and runs far away'      # 61 chars, spaces
LONG_NOSP = 'x' * 40

# base values as python expressions; CLS is bound to the subclass (nested same-class instances)
VALUES = {
    'L': [('empty', '[]'), ('one', '[1]'), ('several', '[1, 2, 3]'), ('nested', '[CLS([1]), CLS()]'),
          ('strs', "['abc def ghi jkl mno', 'b']")],
    'T': [('empty', '()'), ('one', '(1,)'), ('several', '(1, 2, 3)'), ('nested', '(CLS((1,)), CLS())'),
          ('strs', "('abc def ghi jkl mno', 'b')")],
    'Se': [('empty', 'set()'), ('one', '{1}'), ('several', '{1, 2, 3}')],
    'Fs': [('empty', 'frozenset()'), ('one', 'frozenset({1})'), ('several', 'frozenset({1, 2, 3})')],
    'D': [('empty', '{}'), ('one', '{1: 2}'), ('several', "{'a': 1, 'b': 2, 'c': 3}"),
          ('nested', "{'k': CLS({1: CLS()})}"), ('strs', "{'abc def ghi jkl': 'mno pqr stu vwx'}")],
    'S': [('empty', "''"), ('short', "'a'"), ('short', "'hello world'"), ('long-spaces', repr(LONG_SP)),
          ('long-nospaces', repr(LONG_NOSP)), ('quotes', '"it\'s \\"q\\""'), ('newline', "'a\\nb'")],
    'B': [('empty', "b''"), ('short', "b'a'"), ('short', "b'hello world'"), ('long-spaces', repr(LONG_SP.encode())),
          ('long-nospaces', repr(LONG_NOSP.encode())), ('quotes', 'b"\\x00\'"')],
    'I': [('zero', '0'), ('negative', '-5'), ('big', '10 ** 20'), ('one', '1')],
    'F': [('plain', '1.5'), ('inf', "float('inf')"), ('-inf', "float('-inf')"), ('nan', "float('nan')"),
          ('-0.0', '-0.0'), ('plain', '0.0'), ('plain', '1e300')],
}
ENUM_VALUES = {'Ie': VALUES['I'], 'Iq': VALUES['I'],
               'Sen': [('empty', "''"), ('short', "'a'"), ('short', "'hello world'")]}

CONTEXTS = ['top', 'list1', 'listmany', 'tuple1', 'dictval', 'dictkey', 'kwarg']


def wrap(ctx, v):
    if ctx == 'top':
        return v
    if ctx == 'list1':
        return [v]
    if ctx == 'listmany':
        return [1, v, 'z']
    if ctx == 'tuple1':
        return (v,)
    if ctx == 'dictval':
        return {'k': v}
    if ctx == 'dictkey':
        return {v: 1}
    if ctx == 'kwarg':
        return types.SimpleNamespace(x=v)
    raise ValueError(ctx)


def extract(ctx, r):
    if ctx == 'top':
        return r
    if ctx == 'list1':
        assert type(r) is list and len(r) == 1
        return r[0]
    if ctx == 'listmany':
        assert type(r) is list and len(r) == 3
        return r[1]
    if ctx == 'tuple1':
        assert type(r) is tuple and len(r) == 1
        return r[0]
    if ctx == 'dictval':
        assert type(r) is dict and list(r) == ['k']
        return r['k']
    if ctx == 'dictkey':
        assert type(r) is dict and len(r) == 1
        return next(iter(r))
    if ctx == 'kwarg':
        assert type(r) is types.SimpleNamespace and list(r.__dict__) == ['x']
        return r.x
    raise ValueError(ctx)


def _base_of(x):
    for b in (list, tuple, set, frozenset, dict, str, bytes, bool, int, float):
        if isinstance(x, b):
            return b
    return None


def same(a, b):
    """type-exact structural equality through the base types' own methods"""
    if type(a) is not type(b):
        return False
    base = _base_of(a)
    if base in (list, tuple):
        xs, ys = list(base.__iter__(a)), list(base.__iter__(b))
        return len(xs) == len(ys) and all(same(x, y) for x, y in zip(xs, ys))
    if base in (set, frozenset):
        xs, ys = list(base.__iter__(a)), list(base.__iter__(b))
        if len(xs) != len(ys):
            return False
        return all(any(same(x, y) for y in ys) for x in xs)
    if base is dict:
        xs, ys = list(dict.items(a)), list(dict.items(b))
        return len(xs) == len(ys) and all(same(k1, k2) and same(v1, v2) for (k1, v1), (k2, v2) in zip(xs, ys))
    if base is str:
        return str.__eq__(a, b) is True
    if base is bytes:
        return bytes.__eq__(a, b) is True
    if base in (int, bool):
        return int.__eq__(a, b) is True
    if base is float:
        x, y = float.__float__(a), float.__float__(b)
        if math.isnan(x) or math.isnan(y):
            return math.isnan(x) and math.isnan(y)
        return x == y and math.copysign(1, x) == math.copysign(1, y)
    if isinstance(a, types.SimpleNamespace):
        return same(a.__dict__, b.__dict__)
    return a == b


def base_text(x):
    b = _base_of(x)
    if b is None:
        return common.shrink_repr(x)
    try:
        if b in (list, tuple):
            return '%s(%s%s%s)' % (type(x).__name__, '[' if b is list else '(',
                                   ', '.join(base_text(e) for e in b.__iter__(x)), ']' if b is list else ')')
        if b in (set, frozenset):
            return '%s({%s})' % (type(x).__name__, ', '.join(base_text(e) for e in b.__iter__(x)))
        if b is dict:
            return '%s({%s})' % (type(x).__name__,
                                 ', '.join(base_text(k) + ': ' + base_text(v) for k, v in dict.items(x)))
        return '%s(%s)' % (type(x).__name__, b.__repr__(x)) if type(x) is not b else b.__repr__(x)
    except Exception as e:       # pragma: no cover
        return '<%s: %s>' % (type(x).__name__, e)


def namespace():
    ns = {'pvf': pvf, 'types': types}
    for name, (cls, _b, _v) in FAMILY.items():
        if cls.__module__ == '__main__':
            ns[name] = cls
    return ns


NS = namespace()


def build(case):
    cls, basekey, variant = FAMILY[case['cls']]
    basev = eval(case['val'], {'CLS': cls})
    v = cls(basev)
    assert type(v) is cls
    return cls, v


def check(case):
    """-> (kind or None, observed, expected, output)"""
    cls, v = build(case)
    ctx = case['ctx']
    if ctx == 'dictkey' and not common.hashable(v):
        return ('skip', '', '', '')
    w = wrap(ctx, v)
    with common.caught_warnings() as cw:
        # sort_dict_keys ON for the odd widths: a subclass instance keeps its class and its value whatever the key-order setting is
        out = pp.pformat(w, width=case['width'], indent=case.get('indent', 4), sort_dict_keys=bool(case['width'] % 2))
    expected = 'evaluates to ' + base_text(w)
    if cw.bad:
        return ('fallback-warning', out + '   # ' + cw.bad[0], 'no "raised an exception" warning', out)
    try:
        r = common.safe_eval(out, NS)
    except Exception as e:
        return ('not-evaluable', '%s -> %s: %s' % (out, type(e).__name__, e), expected, out)
    try:
        x = extract(ctx, r)
    except Exception:
        return ('context-changed', out, expected, out)
    if type(x) is not cls:
        return ('class-lost', '%s -> type %s' % (out, type(x).__name__), expected, out)
    if not same(x, v):
        return ('value-changed', '%s -> %s' % (out, base_text(x)), expected, out)
    if not same(r, w):
        return ('context-changed', '%s -> %s' % (out, base_text(r)), expected, out)
    return (None, out, expected, out)


def replay(case):
    kind, observed, expected, _out = check(case)
    if kind == 'skip':
        return {'violated': False, 'detail': 'not applicable (unhashable dict key)'}
    if kind is None:
        return {'violated': False, 'detail': observed}
    return {'violated': True, 'detail': '%s: observed %s ; expected %s' % (kind, observed, expected)}


def widths_of(tier):
    if tier == 'quick':
        return [1, 2, 4, 8, 13, 20, 40, 79], [4]
    return list(range(1, 61)) + [79, 120], [1, 2, 4]


def shape_tags(clsname, label):
    cls, basekey, variant = FAMILY[clsname]
    tags = [BASE_WORD[basekey] + '-subclass']
    v = variant.replace('+qualified', '')
    if v != 'plain':
        tags.append(v)
    if basekey in ('S', 'B') and label == 'empty':
        tags.append('empty-' + BASE_WORD[basekey])
    return tags


def _shard(arg):
    clsname, tier = arg
    acc = common.new_acc()
    cls, basekey, variant = FAMILY[clsname]
    widths, indents = widths_of(tier)
    values = ENUM_VALUES.get(clsname, VALUES[basekey])
    raw = []
    for label, val in values:
        for ctx in CONTEXTS:
            for ind in indents:
                for w in widths:
                    case = {'cls': clsname, 'val': val, 'ctx': ctx, 'width': w, 'indent': ind}
                    kind, observed, expected, out = check(case)
                    if kind == 'skip':
                        break
                    acc['evaluations'] += 1
                    acc['counters']['cases'] = acc['counters'].get('cases', 0) + 1
                    if '\n' in out:
                        acc['nontrivial'].add('%s|%s|%s' % (clsname, val, ctx))
                    if len(acc['samples']) < 1 and kind is None and '\n' in out and w >= 8:
                        acc['samples'].append({'case': case, 'output': out})
                    if kind is not None:
                        raw.append((kind, label, case, observed, expected))
    # refine tags with the width profile of each (kind, class, value, ctx, indent) group
    groups = {}
    for kind, label, case, observed, expected in raw:
        groups.setdefault((kind, case['val'], case['ctx'], case['indent']), []).append(case['width'])
    for kind, label, case, observed, expected in raw:
        failing = set(groups[(kind, case['val'], case['ctx'], case['indent'])])
        tags = shape_tags(clsname, label)
        if failing != set(widths):
            tags.append('width-dependent')
        acc['violations'].append({'kind': kind, 'case': case, 'observed': observed, 'expected': expected,
                                  'tags': sorted(tags)})
    return _plain(acc)


def _plain(acc):
    acc = dict(acc)
    acc['nontrivial'] = sorted(acc['nontrivial'])
    return acc


def run(tier, seed, jobs=16):
    tier = common.tier_of(tier)
    common.seed_of(seed)
    shards = [(name, tier) for name in FAMILY]
    acc = common.merge(common.pmap(_shard, shards, jobs))
    widths, indents = widths_of(tier)
    bounds = {'classes': len(FAMILY), 'bases': len(BASES),
              'values_per_base': {BASE_WORD[k]: len(v) for k, v in VALUES.items()},
              'contexts': CONTEXTS, 'widths': widths, 'indents': indents}
    rule = ('a case (class, base value, context) is non-trivial when at least one width forces a multi-line '
            'output, i.e. the layout engine had to break around or inside the subclass call')
    return common.report(acc, rule, bounds, exhaustive=True, max_violations=40)
