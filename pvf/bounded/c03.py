"""C03 (bounded): width, ribbon_width and indent change only the layout, never the content.

For a value ``v`` and a list of (width, ribbon_width, indent) configurations, with the first one as the
reference (the defaults 79 / 71 / 4):

  pformat-raised        pformat returns for every configuration;
  not-parseable         '(' + text + '\\n)' parses as an expression (otherwise there is no syntax tree to compare);
  ast-differs           ast.dump(ast.parse('(' + text + '\\n)')) equals the dump of the reference configuration
                        (adjacent string literals are folded by the parser, redundant parentheses and
                        comments are not part of the tree);
  indent-not-multiple   on every output line the number of leading blanks is a multiple of ``indent``
                        (all lines count, continuation lines of split string literals included).

One evaluation = one (value, configuration) with both the tree comparison and the indentation check.

Corpus: the C01 value trees (category 'builtin'), and hand-written expressions (evaluated in NS) of the
categories 'commented', 'stdlib', 'subclass', 'user-type', each also as ``[0, X]`` and ``{'k': X}``.

Tags: the category; for builtin values the C01 tags that do not depend on sorting
('contains-empty-str', 'contains-empty-bytes', 'no-room-at-empty', 'depth>=10'); per-entry tags of the
hand-written corpus ('empty-str', 'one-tuple', 'int-enum', 'str-subclass', ...); 'wrapped' for the
``[0, X]`` / ``{'k': X}`` forms; 'width<=3' when min(width, ribbon_width) <= 3 in the non-reference
configuration.
"""
import collections
import datetime
import enum
import functools
import hashlib
import random
import time
import types
import uuid

from . import common
from . import c01

DEFAULT_CFG = (79, 71, 4)

_pp = None


def pp():
    global _pp
    if _pp is None:
        _pp = common.load_repo()
    return _pp


# ---------------------------------------------------------------------------------------------
# user types
class MyList(list):
    pass


class MyTuple(tuple):
    pass


class MySet(set):
    pass


class MyDict(dict):
    pass


class MyStr(str):
    pass


class MyBytes(bytes):
    pass


class MyInt(int):
    pass


class MyFloat(float):
    pass


class Color(enum.Enum):
    RED = 1
    GREEN = 'green'


class Level(enum.IntEnum):
    LOW = 1


Point = collections.namedtuple('Point', 'x y')


class Pair:
    """user type printed by a registered printer through pretty_call"""

    def __init__(self, a, b=None):
        self.a = a
        self.b = b

    def __repr__(self):
        return 'Pair(%r, b=%r)' % (self.a, self.b)


def _pretty_pair(value, ctx):
    return pp().pretty_call(ctx, Pair, value.a, b=value.b)


def _register():
    """register the printer of Pair once per loaded prettyprinter"""
    from prettyprinter.prettyprinter import is_registered, register_pretty
    if not is_registered(Pair, check_superclasses=False, check_deferred=False, register_deferred=False):
        register_pretty(Pair)(_pretty_pair)


pp()
_register()

NS = dict(c01.NS)
NS.update(datetime=datetime, collections=collections, uuid=uuid, enum=enum, types=types, functools=functools,
          comment=pp().comment, trailing_comment=pp().trailing_comment,
          MyList=MyList, MyTuple=MyTuple, MySet=MySet, MyDict=MyDict, MyStr=MyStr, MyBytes=MyBytes, MyInt=MyInt,
          MyFloat=MyFloat, Color=Color, Level=Level, Point=Point, Pair=Pair)

LONG = "'the quick brown fox jumps over the lazy dog and keeps running'"

# (expression, category, extra tags)
EXTRA = [
    # commented values
    ("comment([1, 2], 'c')", 'commented', []),
    ("comment(1, 'c')", 'commented', []),
    ("comment(%s, 'c')" % LONG, 'commented', []),
    ("comment([1, 2], 'first line\\nsecond line')", 'commented', ['multi-line-comment']),
    ("[comment(1, 'one'), 2]", 'commented', []),
    ("[1, comment(2, 'last')]", 'commented', []),
    ("[comment(%s, 'c'), 2]" % LONG, 'commented', []),
    ("[comment([1, 2], 'inner'), comment([3], 'inner2')]", 'commented', []),
    ("(comment(1, 'c'),)", 'commented', ['one-tuple']),
    ("(comment(1, 'c'), 2)", 'commented', []),
    ("{comment(1, 'c')}", 'commented', []),
    ("frozenset([comment(1, 'c')])", 'commented', []),
    ("trailing_comment([1, 2], 'more')", 'commented', ['trailing']),
    ("trailing_comment((1,), 'more')", 'commented', ['trailing', 'one-tuple']),
    ("trailing_comment({'a': 1}, 'more')", 'commented', ['trailing']),
    ("trailing_comment({1, 2}, 'more')", 'commented', ['trailing']),
    ("trailing_comment([], 'more')", 'commented', ['trailing', 'empty-container']),
    ("comment(trailing_comment([1, 2], 'more'), 'c')", 'commented', ['trailing']),
    ("{'a': comment(1, 'x')}", 'commented', []),
    ("{'a': comment(1, 'x'), 'b': 2}", 'commented', []),
    ("{'a': 1, 'b': comment(2, 'x')}", 'commented', []),
    ("{comment('k', 'kc'): 1}", 'commented', []),
    ("{comment('k', 'kc'): comment(1, 'vc')}", 'commented', []),
    ("{'a': comment(%s, 'x')}" % LONG, 'commented', []),
    ("{'a': comment([1, 2, 3], 'x'), 'b': [4]}", 'commented', []),
    ("{'k': comment({'n': comment([1, 2], 'in')}, 'out')}", 'commented', []),
    ("Pair(comment(1, 'c'), b=comment([2], 'd'))", 'commented', ['user-type']),
    ("comment(Pair(1, b=2), 'c')", 'commented', ['user-type']),
    ("trailing_comment(MyList([1]), 't')", 'commented', ['trailing', 'subclass']),
    ("comment(datetime.date(2020, 1, 2), 'a day')", 'commented', ['stdlib']),
    ("[comment('', 'empty')]", 'commented', ['empty-str']),
    # standard library
    ("datetime.datetime(2020, 1, 2, 3, 4, 5)", 'stdlib', []),
    ("datetime.datetime(2020, 1, 2, 3, 4, 5, 678, tzinfo=datetime.timezone.utc)", 'stdlib', []),
    ("datetime.date(2020, 1, 2)", 'stdlib', []),
    ("datetime.time(1, 2, 3)", 'stdlib', []),
    ("datetime.timedelta(days=1, seconds=5)", 'stdlib', []),
    ("datetime.timedelta(0)", 'stdlib', []),
    ("collections.OrderedDict([('a', 1), ('b', [1, 2])])", 'stdlib', []),
    ("collections.OrderedDict()", 'stdlib', ['empty-container']),
    ("collections.deque([1, 2, 3])", 'stdlib', []),
    ("collections.deque([1, 2], maxlen=5)", 'stdlib', []),
    ("collections.deque()", 'stdlib', ['empty-container']),
    ("collections.Counter('aab')", 'stdlib', []),
    ("collections.Counter()", 'stdlib', ['empty-container']),
    ("collections.defaultdict(list, {'a': [1]})", 'stdlib', []),
    ("collections.defaultdict(int)", 'stdlib', ['empty-container']),
    ("collections.ChainMap({'a': 1}, {'b': 2})", 'stdlib', []),
    ("uuid.UUID(int=5)", 'stdlib', []),
    ("Color.RED", 'stdlib', ['enum']),
    ("Color.GREEN", 'stdlib', ['enum']),
    ("Level.LOW", 'stdlib', ['int-enum']),
    ("Point(1, 'two')", 'stdlib', ['namedtuple']),
    ("Point(%s, [1, 2])" % LONG, 'stdlib', ['namedtuple']),
    ("types.SimpleNamespace(a=1, b='x')", 'stdlib', []),
    ("types.SimpleNamespace()", 'stdlib', ['empty-container']),
    ("functools.partial(int, '10', base=2)", 'stdlib', []),
    ("functools.partial(sorted, key=len)", 'stdlib', []),
    ("[datetime.date(2020, 1, 2), uuid.UUID(int=5), Color.RED]", 'stdlib', []),
    ("{'when': datetime.datetime(2020, 1, 2), 'p': Point(1, 2), 'ns': types.SimpleNamespace(a=[1])}", 'stdlib', []),
    ("collections.OrderedDict([('', '')])", 'stdlib', ['empty-str']),
    ("collections.Counter({'': 2})", 'stdlib', ['empty-str']),
    # subclasses of built-in types
    ("MyList([1, 2])", 'subclass', []),
    ("MyList()", 'subclass', ['empty-container']),
    ("MyList([MyList([1]), MyDict(a=MyStr('s'))])", 'subclass', ['str-subclass']),
    ("MyTuple((1,))", 'subclass', ['one-tuple']),
    ("MyTuple((1, 2))", 'subclass', []),
    ("MySet({1})", 'subclass', []),
    ("MyDict(a=1)", 'subclass', []),
    ("MyDict(a=1, b=2, c=3)", 'subclass', []),
    ("MyDict()", 'subclass', ['empty-container']),
    ("MyStr('a')", 'subclass', ['str-subclass']),
    ("MyStr('abc def ghi jkl mno pqr')", 'subclass', ['str-subclass']),
    ("MyStr(%s)" % LONG, 'subclass', ['str-subclass']),
    ("MyStr('')", 'subclass', ['str-subclass', 'empty-str']),
    ("MyBytes(b'ab cd ef gh ij kl mn')", 'subclass', ['str-subclass']),
    ("MyBytes(b'')", 'subclass', ['str-subclass', 'empty-str']),
    ("MyInt(5)", 'subclass', []),
    ("MyFloat(1.5)", 'subclass', []),
    ("[1, MyStr('a')]", 'subclass', ['str-subclass']),
    ("{MyStr('key'): MyInt(1)}", 'subclass', ['str-subclass']),
    # user type printed through pretty_call
    ("Pair(1, b=2)", 'user-type', []),
    ("Pair(%s, b=[1, 2, 3])" % LONG, 'user-type', []),
    ("Pair(Pair(1, b=2), b=Pair('x', b={'k': (1,)}))", 'user-type', []),
    ("Pair([], b={})", 'user-type', []),
    ("Pair('', b=b'')", 'user-type', ['empty-str']),
    ("[Pair(1, b=2), Pair(3, b=4)]", 'user-type', []),
    ("{'p': Pair(1, b=%s)}" % LONG, 'user-type', []),
]


def extra_corpus():
    out = []
    for expr, cat, tags in EXTRA:
        out.append((expr, cat, tags))
        out.append(('[0, %s]' % expr, cat, tags + ['wrapped']))
        out.append(("{'k': %s}" % expr, cat, tags + ['wrapped']))
    return out


# ---------------------------------------------------------------------------------------------
def outputs(v, cfg, cache=None):
    """-> (text | None, dump | None, problem | None); `cache` maps a text to its (dump, problem)"""
    try:
        text = pp().pformat(v, width=cfg[0], ribbon_width=cfg[1], indent=cfg[2])
    except BaseException as e:
        return None, None, ('pformat-raised', '%s: %s' % (type(e).__name__, e))
    if cache is not None and text in cache:
        return (text,) + cache[text]
    try:
        res = (common.ast_dump(text), None)
    except (SyntaxError, ValueError, MemoryError, RecursionError) as e:
        res = (None, ('not-parseable', '%s: %s; output %s' % (type(e).__name__, e, common.shrink_repr(text, 200))))
    if cache is not None:
        cache[text] = res
    return (text,) + res


def indent_problem(text, indent):
    for n, line in enumerate(text.split('\n')):
        lead = len(line) - len(line.lstrip(' '))
        if lead % indent:
            return 'line %d has %d leading blanks, indent=%d: %r; output %s' % (
                n + 1, lead, indent, line[:60], common.shrink_repr(text, 200))
    return None


def check_pair(v, ref_cfg, cfg, ref=None, dump_cache=None):
    """-> (text, [(kind, observed)]) for configuration `cfg` against the reference configuration"""
    if ref is None:
        ref = outputs(v, ref_cfg)
    out = outputs(v, cfg, dump_cache)
    text, dump, problem = out
    fails = []
    if problem:
        fails.append(problem)
    elif ref[1] is not None and dump != ref[1]:
        fails.append(('ast-differs', 'under %r the output %s parses to another tree than under %r: %s' % (
            tuple(cfg), common.shrink_repr(text, 120), tuple(ref_cfg), common.shrink_repr(ref[0], 120))))
    if text is not None:
        p = indent_problem(text, cfg[2])
        if p:
            fails.append(('indent-not-multiple', p))
    return text, fails


def tags_for(v, cat, extra, cfg, ref_cfg=DEFAULT_CFG):
    tags = {cat} | set(extra)
    if cat == 'builtin':
        for c in (cfg, ref_cfg):    # the reference output may be the one that lost something
            kwargs = {'width': c[0], 'ribbon_width': c[1], 'indent': c[2], 'sort_dict_keys': False}
            tags |= {t for t in c01.tags_of(v, kwargs) if t != 'width<=3'}
    if min(cfg[0], cfg[1]) <= 3:
        tags.add('width<=3')
    return sorted(tags)


def run_value(acc, expr, v, cat, extra, configs):
    ref_cfg = configs[0]
    ref = outputs(v, ref_cfg)
    texts = set()
    cache = {}
    for cfg in configs:
        if cfg is ref_cfg:
            text, dump, problem = ref
            fails = [problem] if problem else []
            if text is not None:
                p = indent_problem(text, cfg[2])
                if p:
                    fails.append(('indent-not-multiple', p))
        else:
            text, fails = check_pair(v, ref_cfg, cfg, ref, cache)
        acc['evaluations'] += 1
        texts.add(text)
        if fails:
            tags = tags_for(v, cat, extra, cfg, ref_cfg)
            if cat == 'builtin' and 'no-room-at-empty' not in tags:
                acc['counters']['viol-builtin-not-tagged-no-room-at-empty'] = \
                    acc['counters'].get('viol-builtin-not-tagged-no-room-at-empty', 0) + len(fails)
        for kind, observed in fails:
            common.add_violation(
                acc, kind, {'value': expr, 'configs': [list(ref_cfg), list(cfg)]}, observed,
                'same ast.dump under both configurations; leading blanks of every line a multiple of indent', tags)
    if len(texts) >= 2:
        acc['nontrivial'].add(hashlib.md5(expr.encode('utf-8', 'backslashreplace')).hexdigest()[:12])
        if len(acc['samples']) < 1 and cat != 'builtin' and len(expr) < 70:
            acc['samples'].append({'value': expr, 'distinct_outputs': len(texts),
                                   'narrowest': pp().pformat(v, width=1, ribbon_width=1, indent=2)})


def random_configs(seed, n):
    rng = random.Random('c03:%d' % seed)
    return [common.random_config(rng) for _ in range(n)]


_WORK = {}


def _shard(spec):
    part, i, n = spec
    acc = common.new_acc()
    t0 = time.process_time()
    if part == 'builtin':
        for v in _WORK['trees'][i::n]:
            run_value(acc, repr(v), v, 'builtin', [], _WORK['configs'])
    else:
        for expr, cat, extra in _WORK['extra'][i::n]:
            try:
                v = eval(expr, dict(NS))
            except BaseException as e:   # a broken corpus entry must not pass silently
                common.add_violation(acc, 'corpus-error', {'value': expr, 'configs': []}, repr(e),
                                     'corpus expression evaluates', [cat])
                continue
            run_value(acc, expr, v, cat, extra, _WORK['configs_extra'])
    acc['counters']['cpu_s:' + part] = round(time.process_time() - t0, 2)
    acc['nontrivial'] = sorted(acc['nontrivial'])
    return acc


def run(tier='quick', seed=0, jobs=16):
    tier, seed = common.tier_of(tier), common.seed_of(seed)
    t0 = time.time()
    quick = tier == 'quick'
    max_nodes = 3 if quick else 4
    trees = c01.dedupe(common.value_trees(max_nodes))
    if not quick:
        trees += c01.nested_values('quick')
    configs = [DEFAULT_CFG] + common.config_grid('thorough')
    configs_extra = [DEFAULT_CFG] + common.config_grid('thorough') + random_configs(seed, 40 if quick else 400)
    _WORK.clear()
    _WORK.update(trees=trees, configs=configs, extra=extra_corpus(), configs_extra=configs_extra)
    n = max(1, jobs) * 8
    shards = [('extra', i, n) for i in range(n)] + [('builtin', i, n) for i in range(n)]
    acc = common.merge(common.pmap(_shard, shards, jobs))
    acc['counters']['wall_s'] = round(time.time() - t0, 1)
    acc['counters'].setdefault('viol-builtin-not-tagged-no-room-at-empty', 0)
    bounds = {
        'tier': tier, 'seed': seed,
        'builtin': '%d values: all value trees with <= %d nodes over common.LEAVES (type-exact duplicates removed)%s '
                   'x %d configurations: the defaults (79, 71, 4) as reference + common.config_grid("thorough")'
                   % (len(trees), max_nodes, '' if quick else ' + the nested values of c01 (depth up to 30)',
                      len(configs)),
        'extra': '%d expressions (%d hand-written: commented / stdlib / subclass / user-type, each also as [0, X] and '
                 "{'k': X}) x %d configurations: defaults + common.config_grid('thorough') + %d seeded random "
                 '(width, ribbon 1..200, indent 1..8)' % (len(_WORK['extra']), len(EXTRA), len(configs_extra),
                                                            len(configs_extra) - 1 - len(common.config_grid('thorough'))),
        'comparison': 'every configuration against the first one (the defaults), not all pairs',
        'determinism': 'given (tier, seed) the inputs are fixed; the iteration order of sets holding str/bytes follows '
                       'the hash seed of the interpreter, so the split between violation kinds can move by a few '
                       'cases between runs unless PYTHONHASHSEED is fixed',
        'not_covered': 'sort_dict_keys=True, depth / max_seq_len truncation, compact; comments are not part of the '
                       'syntax tree (C09 looks at them); warnings are not examined here (C07)',
    }
    rule = ('a value (identified by its corpus expression) that is printed as at least two different texts over the '
            'configurations, i.e. whose layout does react to the configuration')
    return common.report_counted(acc, rule, bounds, exhaustive=True, max_violations=80)


def replay(case):
    v = eval(case['value'], dict(NS))
    ref_cfg, cfg = [tuple(c) for c in case['configs']]
    fails = []
    ref = outputs(v, ref_cfg)
    if ref[2]:
        fails.append(ref[2])
    if ref[0] is not None and indent_problem(ref[0], ref_cfg[2]):
        fails.append(('indent-not-multiple', indent_problem(ref[0], ref_cfg[2])))
    if cfg != ref_cfg:
        fails += check_pair(v, ref_cfg, cfg, ref)[1]
    if fails:
        return {'violated': True, 'detail': '; '.join('%s: %s' % f for f in fails)}
    return {'violated': False, 'detail': 'same tree under %r and %r, indentation fine' % (ref_cfg, cfg)}
