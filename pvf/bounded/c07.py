"""C07 bounded stand-in: the bundled printers are total, and faithful for standard-library types.

Every case is (value expression, nesting context, layout configuration).  The value is rebuilt from the
expression (evaluated in ``EXPR_NS``), wrapped by the context, printed with the real ``prettyprinter.pformat``
and the postconditions are

  (a) ``printer-raised``   no warning containing "raised an exception" (the repr fallback of _run_pretty),
  (b) ``not-evaluable``    the output evaluates in ``EVAL_NS``: the standard modules the printed names live in
                           (datetime, collections, uuid, enum, pytz, functools, pathlib, types, time, os, posix,
                           posixpath, operator, _operator, sys, builtins) plus this module under its dotted path
                           and its ``__main__``-style classes under their bare names; nothing else,
  (c) ``not-equal``        the result is an equal object, `diff()` below: same type at every position and
        datetime   naive fields, fold, awareness; aware: ``==`` and ``utcoffset()``
        time       naive fields, fold, tzinfo (equivalent zone)
        timezone   ``==``; the name is compared as a separate kind ``tzname-differs``
        pytz zone  identity, or (utcoffset, dst, tzname) of a localized DstTzInfo (no __eq__ exists; the zone
                   name of such an object is only printed as a comment and is not compared)
        deque      items and maxlen;   defaultdict  items and default_factory;   OrderedDict/dict  ordered items
        Counter    unordered items;    ChainMap  maps;   mappingproxy  dict();   SimpleNamespace  __dict__ (unordered)
        namedtuple / struct sequence   as tuples;   partial  func/args/keywords;   exception  type and args
        Enum member identity;   float  nan==nan, signed zero
      struct-sequence singletons whose type cannot be instantiated (sys.version_info, sys.float_info, sys.flags)
      are checked for (a) only.

Bound: the value lists of ``fixed_values()`` (boundary values per type), every ``pytz.all_timezones`` zone object
(exhaustive), seeded random datetime/time/timedelta/date values, x 7 contexts x 8 (quick) / 95 (thorough)
configurations.
"""
import collections
import datetime
import enum
import functools
import importlib
import math
import operator
import os
import pathlib
import random
import sys
import time
import types
import typing
import uuid

import pytz

import pvf
from pvf.bounded import common

pp = common.load_repo()
MODPATH = __name__


# ---------------------------------------------------------------------------------------------
# the test's own classes (module level: importable as pvf.bounded.c07.<Name>)
class Color(enum.Enum):
    RED = 1
    GREEN = 'g'
    A_LONG_MEMBER_NAME_THAT_IS_WIDE = (1, 2)


class MainColor(enum.Enum):
    RED = 1


MainColor.__module__ = '__main__'


class Prio(enum.IntEnum):
    LOW = 1
    HIGH = 2


class Word(enum.StrEnum):
    A = 'a'
    HW = 'hello world'


class Perm(enum.Flag):
    R = 4
    W = 2
    X = 1


class IPerm(enum.IntFlag):
    R = 4
    W = 2


NT = collections.namedtuple('NT', 'a b')
NT0 = collections.namedtuple('NT0', '')
NR = collections.namedtuple('NR', ['def', 'a'], rename=True)       # fields _0, a
NTD = collections.namedtuple('NTD', 'a b', defaults=(5,))


class TN(typing.NamedTuple):
    x: int
    y: str = 'a'


class MainNT(typing.NamedTuple):
    x: int


MainNT.__module__ = '__main__'


class MyErr(Exception):
    pass


class SubOD(collections.OrderedDict):
    pass


class SubDeque(collections.deque):
    pass


class SubCounter(collections.Counter):
    pass


class SubDD(collections.defaultdict):
    pass


class SubCM(collections.ChainMap):
    pass


class SubNS(types.SimpleNamespace):
    pass


def fn(*a, **k):
    return (a, k)


# ---------------------------------------------------------------------------------------------
EXPR_NS = {
    'D': datetime.datetime, 'T': datetime.time, 'TD': datetime.timedelta, 'TZ': datetime.timezone,
    'DATE': datetime.date, 'datetime': datetime, 'collections': collections, 'OD': collections.OrderedDict,
    'DD': collections.defaultdict, 'deque': collections.deque, 'Counter': collections.Counter,
    'CM': collections.ChainMap, 'MP': types.MappingProxyType, 'NSP': types.SimpleNamespace, 'UUID': uuid.UUID,
    'uuid': uuid, 'pytz': pytz, 'functools': functools, 'partial': functools.partial, 'pathlib': pathlib,
    'PP': pathlib.PurePosixPath, 'PW': pathlib.PureWindowsPath, 'types': types, 'time': time, 'os': os,
    'sys': sys, 'operator': operator, 'enum': enum,
}
for _n in ('Color', 'MainColor', 'Prio', 'Word', 'Perm', 'IPerm', 'NT', 'NT0', 'NR', 'NTD', 'TN', 'MainNT', 'MyErr',
           'SubOD', 'SubDeque', 'SubCounter', 'SubDD', 'SubCM', 'SubNS', 'fn'):
    EXPR_NS[_n] = globals()[_n]

EVAL_NS = {m: importlib.import_module(m) for m in (
    'datetime', 'collections', 'uuid', 'enum', 'pytz', 'functools', 'pathlib', 'types', 'time', 'os', 'posix',
    'posixpath', 'operator', '_operator', 'sys', 'builtins')}
EVAL_NS['pvf'] = pvf
EVAL_NS['MainColor'] = MainColor
EVAL_NS['MainNT'] = MainNT

LONGP = '/'.join(['abcdefgh'] * 20)


def fixed_values():
    """[(tags, expr, opts)]; tags[0] is the type, the others the shape"""
    V = []

    def add(tags, *exprs, **opts):
        for e in exprs:
            V.append((list(tags), e, dict(opts)))

    # datetime ------------------------------------------------------------------------------
    add(['datetime'], 'D(2020, 1, 1)', 'D(2020, 1, 1, 5)', 'D(2020, 1, 1, 0, 5)', 'D(2020, 1, 1, 0, 0, 5)',
        'D(2020, 1, 1, 0, 0, 0, 5)', 'D(2020, 12, 31, 23, 59, 59, 999999)', 'D.min', 'D.max',
        'D(1, 1, 1, 0, 0, 0, 1)', 'D(2020, 1, 1, 13, 0, 7)')
    add(['datetime'], 'D(2020, 1, 1, fold=1)', 'D(2020, 1, 1, 1, 30, fold=1)',
        'D(2020, 1, 1, 0, 0, 0, 7, fold=1)')
    add(['datetime', 'tz-utc'], 'D(2020, 1, 1, tzinfo=TZ.utc)', 'D(2020, 1, 1, 12, 30, tzinfo=TZ.utc, fold=1)',
        'D(2020, 1, 1, 0, 0, 0, 1, tzinfo=TZ(TD(0)))')
    add(['datetime', 'timezone-fixed-offset'], 'D(2020, 1, 1, tzinfo=TZ(TD(hours=1)))',
        'D(2020, 1, 1, 12, tzinfo=TZ(TD(hours=-5, minutes=-30)))', 'D(2020, 6, 1, 0, 0, 1, tzinfo=TZ.max)')
    add(['datetime', 'timezone-fixed-offset'], "D(2020, 1, 1, tzinfo=TZ(TD(hours=1), 'CET'))",
        "D(2020, 1, 1, 12, 0, 0, 5, tzinfo=TZ(TD(hours=2), 'a b'), fold=1)")
    add(['datetime', 'pytz'], 'D(2020, 1, 1, tzinfo=pytz.utc)',
        "D(2020, 1, 1, 12, tzinfo=pytz.timezone('Europe/Helsinki'))",
        "D(2020, 1, 1, 12, tzinfo=pytz.timezone('Etc/GMT+5'))",
        'D(2020, 1, 1, 12, tzinfo=pytz.FixedOffset(90))')
    add(['datetime', 'pytz', 'pytz-localized'], "pytz.timezone('Europe/Helsinki').localize(D(2020, 1, 1, 12))",
        "pytz.timezone('US/Eastern').localize(D(2020, 7, 1, 12, 0, 0, 3))",
        "pytz.timezone('US/Eastern').localize(D(2020, 11, 1, 1, 30), is_dst=True)",
        "pytz.timezone('US/Eastern').localize(D(2020, 11, 1, 1, 30), is_dst=False)",
        "pytz.utc.localize(D(2020, 1, 1))")
    # timezone ------------------------------------------------------------------------------
    add(['timezone', 'tz-utc'], 'TZ.utc', 'TZ(TD(0))')
    add(['timezone', 'timezone-zero-offset-named'], "TZ(TD(0), 'Z')")
    add(['timezone', 'timezone-fixed-offset'], 'TZ(TD(hours=1))', 'TZ(TD(hours=-5, minutes=-30))', 'TZ.min', 'TZ.max',
        'TZ(TD(seconds=1))', 'TZ(TD(microseconds=1))')
    add(['timezone', 'timezone-fixed-offset', 'timezone-named'], "TZ(TD(hours=1), 'CET')", "TZ(TD(hours=2), 'a b')",
        "TZ(-TD(hours=3), '')", "TZ(TD(hours=1), 'a fairly long time zone name, needs splitting')")
    # time ----------------------------------------------------------------------------------
    add(['time'], 'T()', 'T(5)', 'T(0, 5)', 'T(0, 0, 5)', 'T(0, 0, 0, 5)', 'T.max', 'T(23, 0, 59)')
    add(['time'], 'T(fold=1)', 'T(1, 30, fold=1)', 'T(0, 0, 0, 9, fold=1)')
    add(['time', 'tz-utc'], 'T(12, tzinfo=TZ.utc)', 'T(tzinfo=TZ.utc)', 'T(0, 0, 1, tzinfo=TZ.utc, fold=1)')
    add(['time', 'timezone-fixed-offset'], 'T(12, tzinfo=TZ(TD(hours=1)))', "T(tzinfo=TZ(TD(hours=1), 'CET'))")
    add(['time', 'pytz'], 'T(12, tzinfo=pytz.utc)', "T(12, tzinfo=pytz.timezone('Europe/Helsinki'))",
        'T(12, tzinfo=pytz.FixedOffset(-60))')
    # date ----------------------------------------------------------------------------------
    add(['date'], 'DATE(2020, 1, 1)', 'DATE.min', 'DATE.max', 'DATE(2020, 2, 29)')
    # timedelta -----------------------------------------------------------------------------
    add(['timedelta'], 'TD(0)', 'TD(1)', 'TD(hours=1)', 'TD(seconds=59)', 'TD(minutes=61)', 'TD(milliseconds=1)',
        'TD(microseconds=1)', 'TD(microseconds=999)', 'TD(microseconds=1001)', 'TD.resolution',
        'TD(days=1, hours=2, minutes=3, seconds=4, milliseconds=5, microseconds=6)')
    add(['timedelta', 'negative'], 'TD(-1)', 'TD(microseconds=-1)', 'TD(days=-1, microseconds=1)', 'TD(hours=-25)',
        'TD.min', 'TD.min + TD.resolution', 'TD(days=-365)', 'TD(days=-800, seconds=5)')
    add(['timedelta', 'years'], 'TD(days=364)', 'TD(days=365)', 'TD(days=366)', 'TD(days=729)', 'TD(days=730)',
        'TD(days=731)', 'TD(days=800, hours=2)', 'TD.max', 'TD(days=365, microseconds=1)',
        'TD(days=999999999)')
    # pytz objects other than the named zones (those: zone_values()) ---------------------------
    add(['pytz-zone'], 'pytz.utc', 'pytz.UTC', "pytz.timezone('UTC')")
    add(['pytz-zone', 'pytz-fixed-offset'], 'pytz.FixedOffset(60)', 'pytz.FixedOffset(-330)', 'pytz.FixedOffset(0)',
        'pytz.FixedOffset(1439)')
    add(['pytz-zone', 'pytz-localized'], "pytz.timezone('Europe/Helsinki').localize(D(2020, 1, 1)).tzinfo",
        "pytz.timezone('Europe/Helsinki').localize(D(2020, 7, 1)).tzinfo",
        "pytz.timezone('US/Eastern').localize(D(2020, 7, 1)).tzinfo")
    # collections ---------------------------------------------------------------------------
    add(['OrderedDict'], 'OD()', 'OD([(1, 2)])', "OD([('b', 1), ('a', 2), ('c', 3)])",
        "OD([('k', OD([('x', [1, 2])]))])", "OD([((1, 2), 'tuple key')])",
        "OD([('a long key that needs room', 'a long value that needs room too')])",
        "OD([('when', D(2020, 1, 1, 0, 0, 1)), ('delta', TD(-1))])", "SubOD([('a', 1)])", 'SubOD()')
    add(['defaultdict'], 'DD(None)', 'DD(int)', 'DD(list)', 'DD(int, {1: 2})', "DD(list, {'a': [1, 2], 'b': []})",
        "DD(None, {'a': 1})", 'DD(OD)', "DD(dict, {'a': {'b': 1}})", "DD(collections.Counter, {'x': Counter('aab')})",
        'DD(fn)', "SubDD(int, {'a': 1})",
        "DD(list, {'a long key that needs room': ['a long value that needs room too']})")
    add(['deque'], 'deque()', 'deque([1])', 'deque([1, 2, 3])', "deque(['a b c d e f g h i j k l m n o p', 'q'])",
        'deque([deque([1])])', 'deque([(1, 2), [3], {4: 5}])', 'SubDeque([1, 2])', 'SubDeque()')
    add(['deque', 'maxlen'], 'deque([1, 2], maxlen=2)', 'deque(maxlen=0)', 'deque([], maxlen=5)',
        'deque([1, 2, 3], maxlen=10 ** 6)', 'deque([D(2020, 1, 1)], maxlen=1)', 'SubDeque([1], maxlen=3)')
    add(['Counter'], 'Counter()', "Counter('aab')", "Counter({'a': -1, 'b': 0})", 'Counter({1: 10 ** 20})',
        "Counter('the quick brown fox jumps over the lazy dog'.split())", "SubCounter('ab')",
        'Counter({(1, 2): 3})')
    add(['ChainMap'], 'CM()', 'CM({})', 'CM({}, {})', "CM({'a': 1})", "CM({'a': 1}, {'b': 2})", "CM({}, {'a': 1})",
        "CM({'a': 1}, {}, {'c': [1, 2, 3]})", "CM(OD([('a', 1)]), DD(int))", "SubCM({'a': 1})", 'SubCM()',
        "CM({'a long key that needs room': 'a long value that needs room too'}, {'b': 2})")
    add(['mappingproxy'], 'MP({})', "MP({'a': 1})", "MP({'a': 1, 'b': 2, 'c': 3})", "MP(OD([('a', 1)]))")
    # uuid ----------------------------------------------------------------------------------
    add(['UUID'], 'UUID(int=0)', 'UUID(int=2 ** 128 - 1)', "UUID('12345678-1234-5678-1234-567812345678')")
    # enum ----------------------------------------------------------------------------------
    add(['Enum'], 'Color.RED', 'Color.GREEN', 'Color.A_LONG_MEMBER_NAME_THAT_IS_WIDE', 'MainColor.RED', 'Perm.R',
        'Perm.X')
    add(['Enum', 'intenum-member'], 'Prio.LOW', 'Prio.HIGH', 'IPerm.R')
    add(['Enum', 'strenum-member'], 'Word.A', 'Word.HW')
    add(['Enum', 'flag-combination'], 'Perm.R | Perm.W', 'Perm.R | Perm.W | Perm.X')
    add(['Enum', 'flag-zero'], 'Perm(0)')
    add(['Enum', 'intenum-member', 'flag-combination'], 'IPerm.R | IPerm.W', 'IPerm(8)')
    add(['Enum', 'intenum-member', 'flag-zero'], 'IPerm(0)')
    # SimpleNamespace -----------------------------------------------------------------------
    add(['SimpleNamespace'], 'NSP()', 'NSP(a=1)', "NSP(b=[1, 2], a='x')", 'NSP(n=NSP(m=NSP()))',
        "NSP(text='a long value that needs room, and then some more', when=DATE(2020, 1, 1))", 'SubNS(a=1)',
        'NSP(fn=1, ctx=2, args=3, kwargs=4)')
    # namedtuples ---------------------------------------------------------------------------
    add(['namedtuple'], 'NT(1, 2)', "NT('a long value that needs room', ['and', 'a', 'list'])", 'NT(NT(1, 2), NT0())',
        'NT0()', 'NR(1, 2)', 'NTD(1)', 'TN(1)', "TN(2, 'b')", 'MainNT(1)', 'NT(a=TD(-1), b=D(2020, 1, 1))')
    add(['struct-sequence'], 'time.localtime(0)', 'time.gmtime(0)', 'time.gmtime(2 ** 31)',
        'os.stat_result(tuple(range(10)))', "os.stat('/')", 'os.uname()', 'os.times()', 'os.terminal_size((80, 24))',
        'time.struct_time((2020, 1, 1, 0, 0, 0, 2, 1, -1))')
    add(['struct-sequence', 'struct-sequence-singleton'], 'sys.version_info', 'sys.float_info', 'sys.flags',
        noeval=True)
    # partial -------------------------------------------------------------------------------
    add(['partial'], 'partial(int)', "partial(int, '5', base=8)", 'partial(dict, a=1, b=[2])', 'partial(fn)',
        "partial(fn, 1, 'two', [3], k={'v': 4})", 'partial(partial(int, base=2))', 'partial(sorted)',
        'partial(sorted, reverse=True)', 'partial(max, 1, 2)', 'partial(operator.add, 1)',
        "partial(os.path.join, 'a')", 'partial(Color)', 'partial(D, 2020, 1)',
        "partial(fn, 'a long value that needs room, and then some more', key='another long value to print')",
        'partial(fn, fn=1, ctx=2, args=3, kwargs=4)')
    add(['partial', 'partialmethod'], 'functools.partialmethod(fn, 1, k=2)', 'functools.partialmethod(int)')
    # partial(str.upper) is NOT in the domain: the argument is a method descriptor, a type the package ships no
    # printer for (it prints as its repr, without a failure warning); the statement quantifies over instances of
    # the listed types whose parts are printable values.  (Removed after triage: the check demanded more than C07.)
    # exceptions ----------------------------------------------------------------------------
    add(['exception'], 'ValueError()', 'ValueError(1)', "ValueError(1, 'a')", "KeyError('k')", 'Exception()',
        "OSError(2, 'msg')", "MyErr('x', [1, 2])", 'MyErr()', 'SystemExit(1)', 'KeyboardInterrupt()',
        'StopIteration(5)', "UnicodeDecodeError('utf-8', b'x', 0, 1, 'bad')", "ExceptionGroup('m', [ValueError(1)])",
        "RuntimeError('a long message that needs room, and then some more words to split')",
        "TypeError(ValueError('inner'))", "ValueError({'a': 1}, (2,))")
    # paths ---------------------------------------------------------------------------------
    add(['path'], "PP('/')", "PP('a')", "PP('/a/b')", "PP('.')", "PP('a b/c d')", "PP('it\\'s/\"q\"')",
        "PP('a\\\\b')", "PW('C:/a/b')", "PW('C:\\\\a\\\\b')", "PW('//server/share/x')", "PW('a')",
        "pathlib.PosixPath('/tmp')")
    add(['path', 'long-path'], 'PP(%r)' % LONGP, 'PP(%r)' % ('/' + LONGP), 'PW(%r)' % ('C:/' + LONGP),
        'PP(%r)' % ('x' * 100), 'PP(%r)' % ('/'.join(['a b c'] * 30)), 'PP(%r)' % ('a//' + 'b' * 90))
    return V


def zone_values():
    return [(['pytz-zone', 'pytz-named-zone'], 'pytz.timezone(%r)' % name, {}) for name in pytz.all_timezones]


TZ_POOL = ['None', 'None', 'None', 'TZ.utc', 'TZ(TD(hours=1))', "TZ(TD(hours=-8), 'PST')", 'pytz.utc',
           "pytz.timezone('Asia/Tokyo')", "pytz.timezone('America/New_York')", 'pytz.FixedOffset(330)']
TZ_TAGS = {'None': [], 'TZ.utc': ['tz-utc'], 'TZ(TD(hours=1))': ['timezone-fixed-offset'],
           "TZ(TD(hours=-8), 'PST')": ['timezone-fixed-offset'], 'pytz.utc': ['pytz'],
           "pytz.timezone('Asia/Tokyo')": ['pytz'], "pytz.timezone('America/New_York')": ['pytz'],
           'pytz.FixedOffset(330)': ['pytz']}


def random_values(rng, n):
    V = []

    def z(hi, p=0.45):
        return 0 if rng.random() < p else rng.randint(0, hi)

    for i in range(n):
        k = i % 4
        if k == 0:
            tzx = rng.choice(TZ_POOL)
            fold = 1 if rng.random() < 0.25 else 0
            e = 'D(%d, %d, %d, %d, %d, %d, %d, tzinfo=%s, fold=%d)' % (
                rng.randint(1, 9999), rng.randint(1, 12), rng.randint(1, 28), z(23), z(59), z(59), z(999999), tzx, fold)
            V.append((['datetime'] + TZ_TAGS[tzx], e, {}))
        elif k == 1:
            tzx = rng.choice(TZ_POOL)
            fold = 1 if rng.random() < 0.25 else 0
            e = 'T(%d, %d, %d, %d, tzinfo=%s, fold=%d)' % (z(23), z(59), z(59), z(999999), tzx, fold)
            V.append((['time'] + TZ_TAGS[tzx], e, {}))
        elif k == 2:
            days = rng.choice([0, 0, 1, 364, 365, 366, 730, rng.randint(0, 5000), rng.randint(0, 999999999)])
            e = 'TD(days=%d, seconds=%d, microseconds=%d)' % (days, z(86399), z(999999))
            tags = ['timedelta']
            if rng.random() < 0.4:
                e = '-' + e
                tags.append('negative')
            if days >= 365:
                tags.append('years')
            V.append((tags, e, {}))
        else:
            V.append((['date'], 'DATE(%d, %d, %d)' % (rng.randint(1, 9999), rng.randint(1, 12),
                                                                 rng.randint(1, 28)), {}))
    return V


# ---------------------------------------------------------------------------------------------
CONTEXTS = ['top', 'list', 'tuple', 'dictval', 'dictkey', 'callarg', 'kwarg']


def wrap(ctx, v):
    if ctx == 'top':
        return v
    if ctx == 'list':
        return [0, v]
    if ctx == 'tuple':
        return (v,)
    if ctx == 'dictval':
        return {'k': v}
    if ctx == 'dictkey':
        return {v: 0}
    if ctx == 'callarg':
        return collections.OrderedDict([('k', v)])
    if ctx == 'kwarg':
        return types.SimpleNamespace(x=v)
    raise ValueError(ctx)


def configs_of(tier):
    """(width, ribbon_width, indent)"""
    if tier == 'quick':
        return [(79, 71, 4), (1, 1, 4), (2, 2, 1), (5, 5, 2), (13, 13, 4), (20, 10, 4), (40, 40, 8), (200, 200, 4)]
    out = []
    for w in [1, 2, 3, 4, 5, 6, 8, 10, 13, 16, 20, 25, 30, 40, 50, 60, 79, 100, 200]:
        for r, ind in ((w, 4), (w, 1), (1, 4), (max(1, w // 2), 2), (w, 8)):
            out.append((w, r, ind))
    return out


# ---------------------------------------------------------------------------------------------
def _is_structseq(x):
    t = type(x)
    return isinstance(x, tuple) and all(isinstance(getattr(t, a, None), int) for a in
                                        ('n_fields', 'n_sequence_fields', 'n_unnamed_fields'))


def _is_pytz_tz(x):
    return isinstance(x, datetime.tzinfo) and type(x).__module__.split('.')[0] == 'pytz'


def _tz_equiv(a, b):
    """tzinfo objects standing for the same zone data"""
    if a is None or b is None:
        return a is b
    if a is b:
        return True
    if type(a) is not type(b):
        return False
    if isinstance(a, pytz.tzinfo.DstTzInfo):
        return (a._utcoffset, a._dst, a._tzname) == (b._utcoffset, b._dst, b._tzname)
    try:
        return a.utcoffset(None) == b.utcoffset(None) and a.tzname(None) == b.tzname(None)
    except Exception:
        return False


def diff(a, b):
    """None when `b` (rebuilt) equals `a` (input); otherwise a short reason.  Type-exact at every position."""
    if type(a) is not type(b):
        return 'type %s != %s' % (type(b).__name__, type(a).__name__)
    if isinstance(a, enum.Enum) or isinstance(a, (type, types.FunctionType, types.BuiltinFunctionType,
                                                  types.MethodDescriptorType)):
        return None if a is b else 'not the same object'
    if isinstance(a, datetime.datetime):
        if a.replace(tzinfo=None) != b.replace(tzinfo=None):
            return 'naive fields differ'
        if a.fold != b.fold:
            return 'fold %r != %r' % (b.fold, a.fold)
        if (a.tzinfo is None) != (b.tzinfo is None):
            return 'awareness differs'
        if a.tzinfo is not None:
            if a.utcoffset() != b.utcoffset():
                return 'utcoffset %r != %r' % (b.utcoffset(), a.utcoffset())
            if a.utcoffset() is not None and not a == b:
                return 'aware datetimes compare unequal'
        return None
    if isinstance(a, datetime.time):
        if a.replace(tzinfo=None) != b.replace(tzinfo=None):
            return 'naive fields differ'
        if a.fold != b.fold:
            return 'fold %r != %r' % (b.fold, a.fold)
        if not _tz_equiv(a.tzinfo, b.tzinfo):
            return 'tzinfo %r != %r' % (b.tzinfo, a.tzinfo)
        return None
    if isinstance(a, (datetime.date, datetime.timedelta, uuid.UUID, pathlib.PurePath)):
        return None if a == b else '%r != %r' % (b, a)
    if isinstance(a, datetime.timezone):
        if a != b:
            return '%r != %r' % (b, a)
        if a.tzname(None) != b.tzname(None):
            return 'tzname %r != %r' % (b.tzname(None), a.tzname(None))
        return None
    if isinstance(a, datetime.tzinfo):
        return None if _tz_equiv(a, b) else 'tzinfo %r is not equivalent to %r' % (b, a)
    if isinstance(a, collections.deque):
        if a.maxlen != b.maxlen:
            return 'maxlen %r != %r' % (b.maxlen, a.maxlen)
        return diff(list(a), list(b))
    if isinstance(a, collections.defaultdict):
        if a.default_factory is not b.default_factory:
            return 'default_factory %r != %r' % (b.default_factory, a.default_factory)
        return diff(dict(a), dict(b))
    if isinstance(a, collections.Counter):
        return _diff_unordered(dict(a), dict(b))
    if isinstance(a, collections.ChainMap):
        return diff(list(a.maps), list(b.maps))
    if isinstance(a, types.MappingProxyType):
        return diff(dict(a), dict(b))
    if isinstance(a, types.SimpleNamespace):
        return _diff_unordered(a.__dict__, b.__dict__)
    if isinstance(a, (functools.partial, functools.partialmethod)):
        return diff(a.func, b.func) or diff(tuple(a.args), tuple(b.args)) or \
            _diff_unordered(dict(a.keywords), dict(b.keywords), ordered=True)
    if isinstance(a, BaseException):
        return diff(tuple(a.args), tuple(b.args))
    if isinstance(a, dict):
        return _diff_unordered(a, b, ordered=True)
    if isinstance(a, (list, tuple)):           # includes namedtuples and struct sequences
        xs, ys = list(a), list(b)
        if len(xs) != len(ys):
            return 'length %d != %d' % (len(ys), len(xs))
        for x, y in zip(xs, ys):
            d = diff(x, y)
            if d:
                return d
        return None
    if isinstance(a, (set, frozenset)):
        if len(a) != len(b):
            return 'length differs'
        for x in a:
            if not any(diff(x, y) is None for y in b):
                return 'member %r missing' % (x,)
        return None
    if isinstance(a, float):
        if math.isnan(a) or math.isnan(b):
            return None if math.isnan(a) and math.isnan(b) else 'nan'
        return None if (a == b and math.copysign(1, a) == math.copysign(1, b)) else '%r != %r' % (b, a)
    try:
        return None if a == b else '%r != %r' % (b, a)
    except Exception as e:        # pragma: no cover
        return 'comparison raised %r' % (e,)


def _diff_unordered(a, b, ordered=False):
    ka, kb = list(a), list(b)
    if len(ka) != len(kb):
        return 'size %d != %d' % (len(kb), len(ka))
    if ordered:
        for x, y in zip(ka, kb):
            d = diff(x, y) or diff(a[x], b[y])
            if d:
                return d
        return None
    for x in ka:
        hit = [y for y in kb if diff(x, y) is None]
        if not hit:
            return 'key %r missing' % (x,)
        d = diff(a[x], b[hit[0]])
        if d:
            return d
    return None


# ---------------------------------------------------------------------------------------------
def check(case, opts=None):
    """-> (kind or None, observed, expected, output)"""
    v = eval(case['expr'], dict(EXPR_NS))
    ctx = case['ctx']
    if ctx == 'dictkey' and not common.hashable(v):
        return ('skip', '', '', '')
    w = wrap(ctx, v)
    width, ribbon, indent = case['cfg']
    with common.caught_warnings() as cw:
        try:
            # sort_dict_keys is ON for the odd widths: the stdlib printers must rebuild an equal object (OrderedDict: equal ORDER) whatever
            # the setting says about plain dict keys
            out = pp.pformat(w, width=width, ribbon_width=ribbon, indent=indent, sort_dict_keys=bool(width % 2))
        except Exception as e:
            return ('pformat-raised', '%s: %s' % (type(e).__name__, e), 'pformat returns a str', '')
    if cw.bad:
        return ('printer-raised', out + '   # warning: ' + cw.bad[0], 'no "raised an exception" warning', out)
    noeval = (opts or {}).get('noeval', case.get('noeval', False))
    if noeval:
        return (None, out, '', out)
    expected = 'evaluates to an object equal to ' + common.shrink_repr(w, 200)
    try:
        r = common.safe_eval(out, EVAL_NS)
    except Exception as e:
        return ('not-evaluable', '%s -> %s: %s' % (out, type(e).__name__, e), expected, out)
    d = diff(w, r)
    if d:
        if d.startswith('tzname '):
            # equal object (timezone.__eq__ compares the offset only): the statement asks for an equal object,
            # not for the same name.  Counted, not reported (removed after triage as a false alarm).
            return (None, out, expected, out)
        return ('not-equal', '%s -> %s (%s)' % (out, common.shrink_repr(r, 200), d), expected, out)
    return (None, out, expected, out)


def replay(case):
    kind, observed, expected, _out = check(case)
    if kind == 'skip':
        return {'violated': False, 'detail': 'not applicable (unhashable dict key)'}
    if kind is None:
        return {'violated': False, 'detail': observed}
    return {'violated': True, 'detail': '%s: observed %s ; expected %s' % (kind, observed, expected)}


MAX_WITNESSES_PER_VALUE_AND_KIND = 4      # the total is in counters['violating_evaluations']


def _shard(arg):
    values, tier = arg
    acc = common.new_acc()
    cfgs = configs_of(tier)
    cnt = acc['counters']
    for tags, expr, opts in values:
        cnt['values'] = cnt.get('values', 0) + 1
        raw = []
        applicable = []
        for ctx in CONTEXTS:
            for cfg in cfgs:
                case = {'expr': expr, 'ctx': ctx, 'cfg': list(cfg)}
                if opts.get('noeval'):
                    case['noeval'] = True
                kind, observed, expected, out = check(case)
                if kind == 'skip':
                    break
                if cfg is cfgs[0]:
                    applicable.append(ctx)
                acc['evaluations'] += 1
                if '\n' in out:
                    acc['nontrivial'].add('%s|%s' % (expr, ctx))
                if kind is None and len(acc['samples']) < 1 and '\n' in out and cfg[0] >= 13:
                    acc['samples'].append({'case': case, 'output': out})
                if kind is not None:
                    raw.append((kind, case, observed, expected))
        by_kind = {}
        for kind, case, observed, expected in raw:
            by_kind.setdefault(kind, []).append(case)
        kept = {}
        for kind, case, observed, expected in raw:
            cs = by_kind[kind]
            cnt['violating_evaluations'] = cnt.get('violating_evaluations', 0) + 1
            kept[kind] = kept.get(kind, 0) + 1
            if kept[kind] > MAX_WITNESSES_PER_VALUE_AND_KIND:
                continue
            t = list(tags)
            fctx = sorted({c['ctx'] for c in cs})
            if set(fctx) != set(applicable):
                t.append('only-in:' + '+'.join(fctx))
            if len(cs) != len(fctx) * len(cfgs):
                t.append('width-dependent')
            acc['violations'].append({'kind': kind, 'case': case, 'observed': observed, 'expected': expected,
                                      'tags': sorted(t)})
    acc = dict(acc)
    acc['nontrivial'] = sorted(acc['nontrivial'])
    return acc


def domain(tier, seed):
    rng = random.Random(seed)
    n_random = 160 if tier == 'quick' else 2000
    return fixed_values(), zone_values(), random_values(rng, n_random)


def run(tier, seed, jobs=16):
    tier = common.tier_of(tier)
    seed = common.seed_of(seed)
    fixed, zones, rnd = domain(tier, seed)
    values = fixed + zones + rnd
    nshards = max(1, min(len(values), jobs * 6))
    shards = [(values[i::nshards], tier) for i in range(nshards)]
    acc = common.merge(common.pmap(_shard, shards, jobs))
    by_type = {}
    for tags, _e, _o in fixed:
        by_type[tags[0]] = by_type.get(tags[0], 0) + 1
    bounds = {'fixed_values': len(fixed), 'fixed_values_by_type': by_type, 'pytz_named_zones': len(zones),
              'pytz_named_zones_exhaustive': True, 'random_values': len(rnd), 'contexts': CONTEXTS,
              'configs': len(configs_of(tier)), 'seed': seed}
    rule = ('a case (value expression, context) is non-trivial when at least one configuration forces a '
            'multi-line output (the layout engine had to break inside the printed constructor call)')
    return common.report(acc, rule, bounds, exhaustive=False, max_violations=60)
