"""C10 - max_seq_len shows exactly the first N elements and says how many were dropped (bounded stand-in).

Postconditions on the real ``prettyprinter.pformat(v, max_seq_len=N, width=w[, sort_dict_keys=True])``:

  raises              no exception escapes
  warning             no warning at all (a "raised an exception" warning means a printer crashed and repr() was used)
  eval-truncated      eval(output) is type-exactly the reference truncation of v: at EVERY nesting level the first
                      min(len, N) elements in iteration order (set/frozenset: iteration order of the printed object;
                      dict: insertion order, or sorted keys with sort_dict_keys=True; dict keys that are containers are
                      truncated as well)
  notices             the comments of the output that mention omitted elements are exactly: one
                      '...and K more elements' with K == len - N per printed container longer than N (joined with
                      '. ' + text when the user attached a trailing comment to that container), none for the others.
                      A comment that the layout breaks over several consecutive '#' lines (width 1) is ONE comment:
                      consecutive COMMENT tokens are joined with a blank before the comparison.
  none-equals-large   with N = None the output is identical to the one with N = 10**9 (and the four checks above hold
                      with "nothing truncated")

Domain: see `bounds` (flat containers of every kind with lengths 0..6; two-level nestings outer kind x outer length x
inner kind x inner lengths; a few three-level ones; user trailing comments; N in 1..7 and None; widths 1, 20, 79).
"""
import io
import itertools
import re
import time
import tokenize

from pvf.bounded import common

pp = common.load_repo()
from prettyprinter import pformat, trailing_comment                     # noqa: E402
from prettyprinter.prettyprinter import _TrailingCommentedValue        # noqa: E402

WIDTHS = [1, 20, 79]
NS_VALUES = [1, 2, 3, 4, 5, 6, 7, None]
NSHARDS = 48
KEY_ORDER = [3, 1, 4, 0, 5, 2]          # insertion order of dict keys (so that sort_dict_keys changes the order)


class MyList(list):
    __module__ = '__main__'


class MyDict(dict):
    __module__ = '__main__'


NS = {'MyList': MyList, 'MyDict': MyDict, 'trailing_comment': trailing_comment}
KINDS = ['list', 'tuple', 'set', 'frozenset', 'dict', 'MyList', 'MyDict']
HASHABLE_KINDS = ['tuple', 'frozenset']


# ---------------------------------------------------------------------------------------------
# expressions
def container_expr(kind, elems):
    """elems: list of expression strings (for dict kinds: list of (key expr, value expr))"""
    if kind == 'list':
        return '[' + ', '.join(elems) + ']'
    if kind == 'tuple':
        return '(' + ', '.join(elems) + (',' if len(elems) == 1 else '') + ')'
    if kind == 'set':
        return '{' + ', '.join(elems) + '}' if elems else 'set()'
    if kind == 'frozenset':
        return 'frozenset([' + ', '.join(elems) + '])'
    if kind == 'MyList':
        return 'MyList([' + ', '.join(elems) + '])'
    body = '{' + ', '.join('%s: %s' % kv for kv in elems) + '}'
    return body if kind == 'dict' else 'MyDict(%s)' % body


def is_dict_kind(kind):
    return kind in ('dict', 'MyDict')


def flat_expr(kind, n, base=0, strkeys=False):
    if is_dict_kind(kind):
        keys = [k for k in KEY_ORDER if k < n]
        return container_expr(kind, [(repr('k%d' % (base + k)) if strkeys else str(base + k), str((base + k) * 10))
                                     for k in keys])
    return container_expr(kind, [str(base + i) for i in range(n)])


LARGE = ['list(range(60))', 'tuple(range(45))', 'set(range(40))', 'frozenset(range(35))', '{i: str(i) for i in range(40)}',
         '[list(range(30)), tuple(range(8)), {i: i for i in range(34)}]', '{"k": list(range(61)), "j": (1, 2)}',
         '[[list(range(33))]]']
LARGE_NS = [33, 34, 59, 60, 61]


def domain(tier):
    """list of (expr, tags)"""
    out = []
    # F0 large containers (sizes and limits the families below never reach: a size threshold in a printer shows only here)
    for e in LARGE:
        out.append((e, ['large', 'nested' if '[[' in e or '{"k"' in e or e.startswith('[list') else 'flat']))
    # F1 flat
    for kind in KINDS:
        for n in range(7):
            out.append((flat_expr(kind, n), ['flat', 'outer:' + kind]))
            if is_dict_kind(kind):
                out.append((flat_expr(kind, n, strkeys=True), ['flat', 'outer:' + kind, 'str-keys']))
    # F2 two levels: element i of the outer container is an inner container of length (l2 + i) % 7
    for outer in KINDS:
        for l1 in range(1, 7):
            for inner in KINDS:
                for l2 in range(7):
                    inners = [flat_expr(inner, (l2 + i) % 7, base=10 * (i + 1)) for i in range(l1)]
                    tags = ['nested', 'outer:' + outer, 'inner:' + inner]
                    if is_dict_kind(outer):
                        keys = [k for k in KEY_ORDER if k < l1]
                        out.append((container_expr(outer, [(str(k), inners[k]) for k in keys]), tags))
                        if inner in HASHABLE_KINDS:
                            out.append((container_expr(outer, [(inners[k], str(k)) for k in keys]),
                                        tags + ['container-keys']))
                    elif outer in ('set', 'frozenset'):
                        if inner in HASHABLE_KINDS:
                            out.append((container_expr(outer, inners), tags))
                    else:
                        out.append((container_expr(outer, inners), tags))
                        # mixed: leaves between the inner containers
                        if l2 in (0, 3) or tier == 'thorough':
                            mixed = list(itertools.chain.from_iterable(
                                (str(100 + i), x) for i, x in enumerate(inners)))[:6]
                            out.append((container_expr(outer, mixed), tags + ['mixed']))
    # F3 three levels
    lens = (1, 2, 4) if tier == 'quick' else (1, 2, 3, 4, 6)
    for k1, k2, k3 in itertools.product(['list', 'tuple', 'dict', 'MyList'], ['list', 'tuple', 'dict', 'frozenset'],
                                        ['list', 'set', 'dict', 'tuple']):
        for a, b, c in itertools.product(lens, repeat=3):
            def lvl3(base):
                return flat_expr(k3, c, base=base)

            def lvl2(base):
                xs = [lvl3(base + 10 * j) for j in range(b)]
                if is_dict_kind(k2):
                    return container_expr(k2, [(str(base + j), x) for j, x in enumerate(xs)])
                if k2 == 'frozenset':
                    if k3 != 'tuple':
                        return None
                return container_expr(k2, xs)
            xs = [lvl2(100 * (i + 1)) for i in range(a)]
            if any(x is None for x in xs):
                continue
            if is_dict_kind(k1):
                e = container_expr(k1, [(str(i), x) for i, x in enumerate(xs)])
            else:
                e = container_expr(k1, xs)
            out.append((e, ['nested3', 'outer:' + k1, 'inner:' + k2, 'inner:' + k3]))
    # F4 user trailing comments (the printers of list/tuple/set/dict and their subclasses take them)
    for kind in ['list', 'tuple', 'set', 'dict', 'MyList', 'MyDict']:
        for n in range(7):
            for text in ('note', 'two words'):
                e = 'trailing_comment(%s, %r)' % (flat_expr(kind, n), text)
                out.append((e, ['user-trailing-comment', 'outer:' + kind]))
                out.append(('[%s, %s]' % (e, flat_expr('list', (n + 3) % 7, base=50)),
                            ['user-trailing-comment', 'nested', 'outer:list', 'inner:' + kind]))
                out.append(('{1: %s}' % e, ['user-trailing-comment', 'nested', 'outer:dict', 'inner:' + kind]))
    return out


# ---------------------------------------------------------------------------------------------
# reference truncation
def notice_text(dropped, user):
    t = '...and %d more elements' % dropped
    return t + '. ' + user if user else t


def reference(v, n, sort, notices):
    """the truncated value that the output must evaluate to; appends the expected notices"""
    user = None
    while isinstance(v, _TrailingCommentedValue):
        user = v.comment
        v = v.value
    if isinstance(v, dict):
        keys = sorted(v) if sort else list(v)
        kept = keys if n is None else keys[:n]
        res = type(v)()
        for k in kept:
            rk = reference(k, n, sort, notices)
            res[rk] = reference(v[k], n, sort, notices)
        if n is not None and len(keys) > n:
            notices.append(notice_text(len(keys) - n, user))
        return res
    if isinstance(v, (list, tuple, set, frozenset)):
        items = list(v)
        kept = items if n is None else items[:n]
        kids = [reference(x, n, sort, notices) for x in kept]
        if n is not None and len(items) > n:
            notices.append(notice_text(len(items) - n, user))
        return type(v)(kids)
    return v


def comment_groups(text):
    """comments of the output; consecutive '#' lines (only newlines between them) are one comment"""
    groups = []
    cur = None
    try:
        for tok in tokenize.generate_tokens(io.StringIO('(' + text + '\n)').readline):
            if tok.type == tokenize.COMMENT:
                s = tok.string[1:].strip()
                if cur is None:
                    cur = [s]
                else:
                    cur.append(s)
            elif tok.type in (tokenize.NL, tokenize.NEWLINE):
                continue
            else:
                if cur is not None:
                    groups.append(' '.join(cur))
                    cur = None
    except (tokenize.TokenError, IndentationError, SyntaxError):
        return None
    if cur is not None:
        groups.append(' '.join(cur))
    return [' '.join(g.split()) for g in groups]


NOTICE_RE = re.compile(r'\.\.\.and|more elements')


def has_dict(v):
    while isinstance(v, _TrailingCommentedValue):
        v = v.value
    if isinstance(v, dict):
        return True
    if isinstance(v, (list, tuple, set, frozenset)):
        return any(has_dict(x) for x in v)
    return False


def keys_totally_ordered(v):
    """sort_dict_keys is only tried when the keys of every dict are ints, strs or tuples of ints (frozenset keys are
    only partially ordered by <, 'sorted' has no meaning for them)"""
    while isinstance(v, _TrailingCommentedValue):
        v = v.value
    if isinstance(v, dict):
        return all(not isinstance(k, (set, frozenset)) for k in v) and all(keys_totally_ordered(x) for x in v.values())
    if isinstance(v, (list, tuple, set, frozenset)):
        return all(keys_totally_ordered(x) for x in v)
    return True


def check_case(expr, kwargs, tags=None):
    """returns list of violations"""
    tags = list(tags) if tags is not None else ['shape:unknown']
    kwargs = dict(kwargs)
    n = kwargs.get('max_seq_len')
    sort = bool(kwargs.get('sort_dict_keys', False))
    case = {'expr': expr, 'kwargs': kwargs}
    value = eval(expr, dict(NS))
    notices = []
    expected = reference(value, n, sort, notices)
    ntag = 'N=None' if n is None else 'N=int'
    base_tags = tags + [ntag] + (['truncating'] if notices else []) + (['sort_dict_keys'] if sort else [])
    with common.caught_warnings() as cw:
        try:
            out = pformat(value, **kwargs)
        except Exception as e:                                   # noqa
            return [dict(kind='raises', case=case, observed='%s: %s' % (type(e).__name__, e), expected='no exception',
                         tags=sorted(set(base_tags + ['exc:' + type(e).__name__])))]
    vs = []
    if cw.messages:
        wtags = []
        for m in cw.messages:
            mm = re.match(r'The pretty printer for (\w+), ([\w.]+), raised an exception', m)
            if mm:
                last = m.strip().splitlines()[-1]
                wtags.append('printer-raised:%s:%s' % (mm.group(1), last.split(':')[0].strip()))
            else:
                wtags.append('other-warning')
        # which printer crashed identifies the shape; the container kinds around it do not matter
        vs.append(dict(kind='warning', case=case,
                       observed='%d warning(s); first: %s | %s' % (len(cw.messages), cw.messages[0].splitlines()[0],
                                                                  cw.messages[0].strip().splitlines()[-1]),
                       expected='no warning', tags=sorted(set([ntag] + wtags))))
        # what follows from a crashed printer is tagged by the crash, not by the shape of the value
        if any(t.startswith('printer-raised') for t in wtags):
            base_tags = [ntag] + wtags
    try:
        got = common.safe_eval(out, NS)
        ok = common.type_exact_equal(got, expected)
        shown = common.shrink_repr(got)
    except Exception as e:                                       # noqa
        ok = False
        shown = 'eval failed: %s: %s' % (type(e).__name__, e)
    if not ok:
        vs.append(dict(kind='eval-truncated', case=case, observed='%r evaluates to %s' % (out, shown),
                       expected=common.shrink_repr(expected), tags=sorted(set(base_tags))))
    groups = comment_groups(out)
    if groups is None:
        vs.append(dict(kind='notices', case=case, observed='%r cannot be tokenized' % out,
                       expected=repr(sorted(notices)), tags=sorted(set(base_tags + ['untokenizable']))))
    else:
        want = sorted(' '.join(x.split()) for x in notices)
        seen = sorted(g for g in groups if NOTICE_RE.search(g) or g in want)
        if seen != want:
            vs.append(dict(kind='notices', case=case, observed='%r in output %r' % (seen, out), expected=repr(want),
                           tags=sorted(set(base_tags))))
    if n is None:
        try:
            big = pformat(value, **dict(kwargs, max_seq_len=10 ** 9))
        except Exception as e:                                   # noqa
            big = 'raised %s' % type(e).__name__
        if big != out:
            vs.append(dict(kind='none-equals-large', case=case, observed=repr(out),
                           expected='%r (max_seq_len=10**9)' % big, tags=sorted(set(base_tags))))
    return vs


# ---------------------------------------------------------------------------------------------
_DOMAIN = {}


def _domain(tier):
    if tier not in _DOMAIN:
        _DOMAIN[tier] = domain(tier)
    return _DOMAIN[tier]


def call_probe(acc):
    """containers that sit inside a printed CALL with several arguments (the non-hugged path of pretty_call_alt):
    the limit applies there too: one exact notice per over-long container argument, none otherwise"""
    import collections as _c
    import types as _t
    NT = _c.namedtuple('C10NT', 'xs ys')
    values = [
        ('deque(range(5), maxlen=9)', _c.deque(range(5), maxlen=9), [5]),
        ('C10NT(list(range(6)), tuple(range(3)))', NT(list(range(6)), tuple(range(3))), [6, 3]),
        ('SimpleNamespace(a=list(range(4)), b={i: i for i in range(5)})',
         _t.SimpleNamespace(a=list(range(4)), b={i: i for i in range(5)}), [4, 5]),
        ('[C10NT([1, 2, 3, 4], (5, 6, 7, 8, 9))]', [NT([1, 2, 3, 4], (5, 6, 7, 8, 9))], [1, 4, 5]),
    ]
    for name, v, lens in values:
        for n in (1, 2, 3, 4, 7, None):
            for w in (1, 20, 79):
                acc['evaluations'] += 1
                kwargs = {'max_seq_len': n, 'width': w}
                with common.caught_warnings() as cw:
                    out = pformat(v, **kwargs)
                joined = ' '.join(c.strip() for c in (common.comments_of(out) or []))
                want = sorted('...and %d more elements' % (k - n) for k in lens if n is not None and k > n)
                # a notice may be wrapped over several comment lines at width 1: compare the digits only
                got_counts = sorted(int(x) for x in re.findall(r'and (\d+) more elements', joined))
                want_counts = sorted(k - n for k in lens if n is not None and k > n)
                if cw.bad or got_counts != want_counts:
                    acc['violations'].append({
                        'kind': 'call-argument-truncation', 'case': {'check': 'call-probe', 'name': name, 'kwargs': kwargs},
                        'observed': out[:300] + (' | warning: ' + cw.bad[0] if cw.bad else ''),
                        'expected': 'notices %s' % want, 'tags': sorted(['in-call', 'N=None' if n is None else 'N=int'])})


def _shard(arg):
    tier, shard = arg
    t0 = time.process_time()
    dom = _domain(tier)
    acc = common.new_acc()
    from pvf import monitor as _monitor
    _sink = _monitor.install_ctx_invariant()
    cnt = acc['counters']
    best = {}
    for i, (expr, tags) in enumerate(dom):
        if i % NSHARDS != shard:
            continue
        value = eval(expr, dict(NS))
        sorts = (False, True) if has_dict(value) and keys_totally_ordered(value) else (False,)
        for n in NS_VALUES + (LARGE_NS if 'large' in tags else []):
            for w in WIDTHS:
                for sort in sorts:
                    kwargs = {'max_seq_len': n, 'width': w}
                    if sort:
                        kwargs['sort_dict_keys'] = True
                    vs = check_case(expr, kwargs, tags)
                    acc['evaluations'] += 1
                    acc['nontrivial'].add('%d:%s:%s' % (i, n, sort))
                    if vs:
                        cnt['violating_cases'] = cnt.get('violating_cases', 0) + 1
                    elif len(acc['samples']) < 1 and 'nested' in tags and n == 2:
                        acc['samples'].append({'expr': expr, 'kwargs': kwargs})
                    for v in vs:
                        cnt['violations_all'] = cnt.get('violations_all', 0) + 1
                        cnt['violations:' + v['kind']] = cnt.get('violations:' + v['kind'], 0) + 1
                        key = (v['kind'], tuple(v['tags']))
                        size = len(v['case']['expr']) + len(str(v['case']['kwargs']))
                        if key not in best or size < best[key][0]:
                            best[key] = (size, v)
    acc['violations'] = [b[1] for b in best.values()]
    if shard == 0:
        call_probe(acc)
    _monitor.drain(_sink, acc)
    cnt['cpu_s'] = time.process_time() - t0
    return acc


def run(tier, seed, jobs=16):
    tier = common.tier_of(tier)
    seed = common.seed_of(seed)
    t0 = time.time()
    dom = _domain(tier)
    results = common.pmap(_shard, [(tier, s) for s in range(NSHARDS)], jobs)
    acc = common.merge(results)
    from . import ctx_contracts as _ctx      # run-time contracts of PrettyContext (exhaustive over field subsets)
    _ctx.check(acc)
    acc['counters']['cpu_s'] = round(acc['counters'].get('cpu_s', 0), 1)
    acc['counters']['wall_s'] = round(time.time() - t0, 1)
    fam = {}
    for _, tags in dom:
        fam[tags[0]] = fam.get(tags[0], 0) + 1
    bounds = {
        'values': '%d container values: %r (flat: 7 kinds %r x lengths 0..6, dicts also with str keys; nested: outer '
                  'kind x outer length 1..6 x inner kind x inner lengths (l2 + i) %% 7, inner containers as elements, '
                  'dict values and (hashable ones) dict keys / set members, also mixed with leaves; nested3: three '
                  'levels with lengths from a small set; user trailing comments on list/tuple/set/dict/subclasses, '
                  'top-level and nested)' % (len(dom), fam, KINDS),
        'N': repr(NS_VALUES), 'widths': repr(WIDTHS), 'sort_dict_keys': 'False, and True when the value has a dict',
        'not_covered': 'lengths above 6, nesting above 3, non-int leaves (except str dict keys), indent/ribbon_width '
                       'other than the defaults, subclasses of tuple/set/frozenset',
        'seed': seed,
    }
    rule = 'a case is one (value, N, sort_dict_keys) triple; widths do not count as distinct'
    rep = common.report(acc, rule, bounds, exhaustive=False, max_violations=200)
    rep['violations_total'] = acc['counters'].get('violations_all', 0)
    return rep


def replay(case):
    if isinstance(case, dict) and case.get('check') == 'call-probe':
        acc = common.new_acc()
        call_probe(acc)
        hit = [v for v in acc['violations'] if v['case'] == case]
        return {'violated': bool(hit), 'detail': hit[0]['observed'] if hit else 'holds'}
    if isinstance(case, dict) and case.get('check') == 'ctx-invariant':
        from pvf import monitor as _monitor
        return _monitor.replay_ctx_invariant(case)
    if isinstance(case, dict) and case.get('check') == 'ctx':
        from . import ctx_contracts as _ctx
        return _ctx.replay(case)
    vs = check_case(case['expr'], dict(case.get('kwargs') or {}), None)
    if vs:
        return {'violated': True, 'detail': '; '.join('%s: observed %s; expected %s'
                                                      % (v['kind'], v['observed'], v['expected']) for v in vs)[:2000]}
    return {'violated': False, 'detail': 'all postconditions hold'}
