"""C04 bounded stand-in: the engine's output is one of the layouts the document denotes.

For every document (all specs up to a node bound over the public combinators, plus seeded random larger ones)
x widths x ribbon fractions x {layout_smart, layout_fast}:
  * SOME assignment of flat/broken to groups and fill items makes the executable reference semantics
    (layout_ref.Ref, written from the statement) produce exactly the engine's SDoc stream: fragments once and in
    order, line indents = sum of nest/align offsets, flat_choice by mode, forced content broken (a group with a
    hard line or always_break in its flat rendering takes no decision: it is broken);
  * annotations are properly nested push/pop pairs and erasing them gives the layout of the un-annotated text;
  * the default renderer changes the text only by trimming trailing blanks;
  * building a document from the public combinators never raises.
A layout that only matches when a forced group is allowed to be flat is reported with the tag of what forced it
('flathl' for a literal hard line: known finding, DESIGN section 7 row 12).
"""
import json
import random

from . import common
from . import layout_ref as LR

WIDTHS_Q = [1, 2, 3, 5, 8]
WIDTHS_T = [1, 2, 3, 4, 5, 6, 8, 12, 20, 40]
FRACS = [1.0, 0.6, 0.3]


def check_one(mods_, spec, W, frac, strategy):
    D, T, L, Rm, S = mods_
    try:
        doc = LR.build(mods_, spec)
    except Exception as e:      # noqa
        return ('build-raises', '%s: %s' % (type(e).__name__, e), 'combinators accept every document', ['build'])
    layout = L.layout_smart if strategy == 'smart' else L.layout_fast
    try:
        sdocs = list(layout(doc, width=W, ribbon_frac=frac))
    except Exception as e:      # noqa
        return ('layout-raises', '%s: %s' % (type(e).__name__, e), 'layout terminates normally', ['layout'])
    eng = LR.engine_out(mods_, sdocs)
    R = LR.ribbon_of(W, frac)
    m, tried = LR.match(mods_, doc, W, R, eng)
    if m is None:
        m2, _ = LR.match(mods_, doc, W, R, eng, trust_forced=False)
        if m2 is not None:
            why = sorted({g['forced'] for g in m2.groups if g.get('illegal')})
            tags = ['flathl'] if why == ['HL'] else ['forced-group-flat:' + '+'.join(why)]
            return ('forced-group-flat', json.dumps(LR.norm_out(eng))[:300],
                    'a group whose flat rendering contains a hard line / always_break is broken', tags)
        # classification only: once a group is laid out flat across a literal hard line (the known finding), an
        # always_break inside an align / hang of that group is hoisted by the engine's lazy normalisation over its
        # siblings, and the text matches no assignment of the document as written.  Recognise that variant by matching
        # against the document with contextual results normalised the way the engine does; it is the known finding only
        # if every illegally flat group is flat across a hard line (the first forcing element in it is a literal hard line).
        try:
            m3, _ = LR.match(mods_, T.normalize_doc(doc), W, R, eng, trust_forced=False, normalize_ctx=True)
        except Exception:      # noqa
            m3 = None
        if m3 is not None:
            why = sorted({g['forced'] for g in m3.groups if g.get('illegal')})
            if why == ['HL']:
                return ('forced-group-flat', json.dumps(LR.norm_out(eng))[:300],
                        'a group whose flat rendering contains a hard line / always_break is broken', ['flathl', 'hoisted-in-align'])
        return ('no-assignment-matches', json.dumps(LR.norm_out(eng))[:300],
                'some assignment of flat/broken reproduces the output', ['kinds:' + ','.join(sorted(kinds_of(spec)))])
    # annotations: nesting
    depth = []
    for o in eng:
        if o[0] == 'push':
            depth.append(o[1])
        elif o[0] == 'pop':
            if not depth or depth[-1] != o[1]:
                return ('annotation-nesting', json.dumps(eng)[:300], 'push/pop properly nested', ['annotations'])
            depth.pop()
    if depth:
        return ('annotation-nesting', json.dumps(eng)[:300], 'push/pop properly nested', ['annotations'])
    # renderer
    raw = ''
    for o in eng:
        if o[0] == 't':
            raw += o[1]
        elif o[0] == 'l':
            raw += '\n' + ' ' * o[1]
    rendered = Rm.default_render_to_str(list(layout(doc, width=W, ribbon_frac=frac)))
    expect = '\n'.join(line.rstrip(' ') if True else line for line in raw.split('\n'))
    # only TRAILING blanks of a line may go; and only ordinary spaces of the last text fragment or indentation
    if [l.rstrip() for l in rendered.split('\n')] != [l.rstrip() for l in raw.split('\n')] or \
            any(len(a) > len(b) for a, b in zip(rendered.split('\n'), raw.split('\n'))):
        return ('renderer', repr(rendered)[:200], repr(expect)[:200], ['renderer'])
    return None


def kinds_of(spec):
    out = {spec[0]}
    for x in spec[1:]:
        if isinstance(x, list):
            if x and isinstance(x[0], str):
                out |= kinds_of(x)
            else:
                for y in x:
                    if isinstance(y, list):
                        out |= kinds_of(y)
    return out


def annotation_erasure(mods_, spec, W, frac, strategy):
    """erasing push/pop from the layout of d equals the layout of d without annotations"""
    D, T, L, Rm, S = mods_

    def strip(s):
        if s[0] == 'ann':
            return strip(s[2])
        out = [s[0]]
        for x in s[1:]:
            if isinstance(x, list):
                if x and isinstance(x[0], str):
                    out.append(strip(x))
                else:
                    out.append([strip(y) if isinstance(y, list) else y for y in x])
            else:
                out.append(x)
        return out
    layout = L.layout_smart if strategy == 'smart' else L.layout_fast
    a = [o for o in LR.norm_out(LR.engine_out(mods_, list(layout(LR.build(mods_, spec), width=W, ribbon_frac=frac))))
         if o[0] in ('t', 'l')]
    a = LR.norm_out(a)
    # the text with the push/pop markers erased must be one of the layouts of the un-annotated document
    # (not necessarily the one the engine picks for it: an annotated NIL is not NIL for fill normalisation)
    m, _ = LR.match(mods_, LR.build(mods_, strip(spec)), W, LR.ribbon_of(W, frac), a)
    if m is None:
        m, _ = LR.match(mods_, LR.build(mods_, strip(spec)), W, LR.ribbon_of(W, frac), a, trust_forced=False)
        if m is not None:
            return None     # reported by check_one as forced-group-flat
        return ('annotation-changes-text', json.dumps(a)[:200], 'a layout of the document without annotations', ['annotations'])
    return None


def shard(args):
    tier, seed, idx, n = args
    mods_ = LR.mods()
    acc = common.new_acc()
    widths = WIDTHS_Q if tier == 'quick' else WIDTHS_T
    maxn = 4 if tier == 'quick' else 5
    cases = []
    for j, spec in enumerate(LR.specs(maxn)):
        if j % n == idx:
            cases.append(spec)
    if idx == 1 % n:
        # large documents (sizes no enumeration reaches): long concats, many pending stack entries, deep groups, wide pages
        for spec, Ws, fracs in LR.large_specs():
            for W in Ws:
                for frac in fracs:
                    for strategy in ('smart', 'fast'):
                        acc['evaluations'] += 1
                        r = check_one(mods_, spec, W, frac, strategy)
                        if r is not None:
                            acc['violations'].append({'kind': r[0], 'case': {'spec': spec, 'W': W, 'frac': frac, 'strategy': strategy},
                                                      'observed': r[1], 'expected': r[2], 'tags': sorted(r[3])})
    rng = random.Random(seed * 1000 + idx)
    for _ in range(60 if tier == 'quick' else 1500):
        cases.append(LR.random_spec(rng, rng.randint(5, 14)))
    for spec in cases:
        for W in widths:
            for frac in FRACS:
                for strategy in ('smart', 'fast'):
                    acc['evaluations'] += 1
                    r = check_one(mods_, spec, W, frac, strategy)
                    if r is None and LR.has_kind(spec, ('ann',)):
                        r = annotation_erasure(mods_, spec, W, frac, strategy)
                    case = {'spec': spec, 'W': W, 'frac': frac, 'strategy': strategy}
                    if LR.has_kind(spec, ('group', 'fill')):
                        acc['nontrivial'].add(json.dumps(spec))
                    if r is not None:
                        kind, obs, exp, tags = r
                        acc['violations'].append({'kind': kind, 'case': case, 'observed': obs, 'expected': exp,
                                                  'tags': sorted(tags)})
        if len(acc['samples']) < 2:
            acc['samples'].append({'spec': spec, 'widths': widths, 'fracs': FRACS})
    # keep the accumulator small
    acc['nontrivial'] = set(list(acc['nontrivial'])[:200000])
    return acc


def run(tier, seed, jobs=16):
    tier, seed = common.tier_of(tier), common.seed_of(seed)
    n = 64
    res = common.pmap(shard, [(tier, seed, i, n) for i in range(n)], jobs)
    acc = common.merge(res)
    rule = ('all document specs with <= %d nodes over {text, nil, line, softline, hardline, concat, nest, group, always_break, '
            'align, hang, annotate, fill, flat_choice} + seeded random specs of 5-14 nodes, x widths %s x ribbon fractions %s x '
            '{smart, fast}; the engine output must equal the reference rendering under SOME assignment (search over assignments); '
            'non-trivial = distinct specs containing a group or fill' % (4 if tier == 'quick' else 5,
                                                                        WIDTHS_Q if tier == 'quick' else WIDTHS_T, FRACS))
    return common.report(acc, rule, {'max_nodes': 4 if tier == 'quick' else 5, 'widths': WIDTHS_Q if tier == 'quick' else WIDTHS_T,
                                     'fracs': FRACS}, exhaustive=False)


def replay(case):
    mods_ = LR.mods()
    r = check_one(mods_, case['spec'], case['W'], case['frac'], case['strategy'])
    if r is None and LR.has_kind(case['spec'], ('ann',)):
        r = annotation_erasure(mods_, case['spec'], case['W'], case['frac'], case['strategy'])
    if r is None:
        return {'violated': False, 'detail': 'holds'}
    return {'violated': True, 'detail': '%s: observed %s ; expected %s' % (r[0], r[1], r[2])}
