"""Native interpretation of the layout contracts and replay of solver counter-models on the real code.

The spec functions of pvf/contracts/layout*.py are plain Python over the real prettyprinter objects once the
names they use (Concat, NIL, FLAT_MODE, WR, PW, ...) are bound in their modules: bind_layout() does that.
replay(result) rebuilds the input a counter-model describes (datatype terms -> real documents, cons-lists ->
lists, contextual functions -> lookup tables from the model) and runs the REAL function from the tree under
check next to the native spec.
"""
import collections
import importlib
import json
import sys

from pvf.bounded import common


_BOUND = {}


def bind_layout():
    if 'mods' in _BOUND:
        return _BOUND['mods']
    common.load_repo()
    T = importlib.import_module('prettyprinter.doctypes')
    S = importlib.import_module('prettyprinter.sdoctypes')
    L = importlib.import_module('prettyprinter.layout')
    lay = importlib.import_module('pvf.contracts.layout')
    den = importlib.import_module('pvf.contracts.layout_den')
    WR = collections.namedtuple('WR', 'status w')
    St = collections.namedtuple('St', 'out col k brk fl')
    names = dict(
        NIL=T.NIL, HARDLINE=T.HARDLINE, Concat=T.Concat, Nest=T.Nest, Group=T.Group, AlwaysBreak=T.AlwaysBreak,
        Fill=T.Fill, FlatChoice=T.FlatChoice, Annotated=T.Annotated, Contextual=T.Contextual, Nil=T.Nil, HardLine=T.HardLine,
        SLine=S.SLine, SAnnotationPush=S.SAnnotationPush, SAnnotationPop=S.SAnnotationPop,
        BREAK_MODE=L.BREAK_MODE, FLAT_MODE=L.FLAT_MODE, GO='GO', FITS='FITS', FAILS='FAILS', WR=WR, St=St,
        normalize_doc=T.normalize_doc, PW=79, RW=71, SMART=True,
        implies=lambda a, b: (not a) or bool(b), iff=lambda a, b: bool(a) == bool(b),
    )
    for m in (lay, den):
        for k, v in names.items():
            setattr(m, k, v)
        # spec functions of one module are visible in the other
    for k in dir(lay):
        if not k.startswith('__') and callable(getattr(lay, k)) and not hasattr(den, k):
            setattr(den, k, getattr(lay, k))
    for k in dir(den):
        if not k.startswith('__') and callable(getattr(den, k)) and not hasattr(lay, k):
            setattr(lay, k, getattr(den, k))
    _BOUND['mods'] = (T, S, L, lay, den)
    return _BOUND['mods']


def set_page(PW, RW, smart=None):
    T, S, L, lay, den = bind_layout()
    for m in (lay, den):
        m.PW, m.RW = PW, RW
        if smart is not None:
            m.SMART = smart


# ---------------------------------------------------------------------------------------------
class Conv:
    """model terms (json from vcgen.term_to_py) -> real objects"""

    def __init__(self, model):
        self.T, self.S, self.L, self.lay, self.den = bind_layout()
        self.model = model
        self.funcs = (model or {}).get('@funcs', {})
        self.anns = {}
        self.fns = {}

    def key(self, t):
        return t['term'] if isinstance(t, dict) else repr(t)

    def ann(self, t):
        return self.anns.setdefault(self.key(t), 'ann:' + self.key(t))

    def ctxfn(self, t):
        k = self.key(t)
        if k in self.fns:
            return self.fns[k]
        table = {}
        default = ['Nil']
        tab = self.funcs.get('apply_ctx')
        if tab:
            default = tab.get('default', default)
            for args, val in tab['entries']:
                if self.key(args[0]) == k:
                    table[tuple(args[1:])] = val
        conv = self

        def fn(indent, column, page_width, ribbon_width):
            v = table.get((indent, column, page_width, ribbon_width), default)
            try:
                return conv.obj(v)
            except Exception:       # noqa
                return conv.T.NIL
        fn.__qualname__ = 'model_ctxfn_' + k
        self.fns[k] = fn
        return fn

    def raw(self, cls, **fields):
        o = cls.__new__(cls)
        for k, v in fields.items():
            setattr(o, k, v)
        return o

    def obj(self, t):
        T, S = self.T, self.S
        if isinstance(t, dict):
            return T.NIL
        c = t[0]
        if c == 'Nil':
            return T.NIL
        if c == 'Text':
            return t[1]
        if c == 'HardLine':
            return T.HARDLINE
        if c == 'Concat':
            return self.raw(T.Concat, docs=self.olist(t[1]))
        if c == 'Fill':
            return self.raw(T.Fill, docs=self.olist(t[1]))
        if c == 'Nest':
            return self.raw(T.Nest, indent=t[1], doc=self.obj(t[2]))
        if c == 'Group':
            return self.raw(T.Group, doc=self.obj(t[1]))
        if c == 'AlwaysBreak':
            return self.raw(T.AlwaysBreak, doc=self.obj(t[1]))
        if c == 'FlatChoice':
            return self.raw(T.FlatChoice, _when_broken=self.obj(t[1]), _when_flat=self.obj(t[2]), normalize_on_access=bool(t[3]),
                            _broken_normalized=bool(t[4]), _flat_normalized=bool(t[5]))
        if c == 'Annotated':
            return self.raw(T.Annotated, doc=self.obj(t[1]), annotation=self.ann(t[2]))
        if c == 'Contextual':
            return self.raw(T.Contextual, fn=self.ctxfn(t[1]))
        if c == 'SLine':
            return S.SLine(t[1])
        if c == 'SAnnotationPush':
            return S.SAnnotationPush(self.ann(t[1]))
        if c == 'SAnnotationPop':
            return S.SAnnotationPop(self.ann(t[1]))
        raise ValueError('unknown constructor %r' % (c,))

    def olist(self, t):
        out = []
        while t[0].endswith('_cons'):
            out.append(self.obj(t[1]))
            t = t[2]
        return out

    def stack(self, t):
        """cons-list with head = top  ->  python list with top last"""
        items = []
        while t[0].endswith('_cons'):
            tr = t[1]
            mode = self.L.FLAT_MODE if tr[2][0] == 'FLAT' else self.L.BREAK_MODE
            items.append((tr[1], mode, self.obj(tr[3])))
            t = t[2]
        return list(reversed(items))


def describe(o, T):
    if isinstance(o, str):
        return repr(o)
    if isinstance(o, (list, tuple)):
        return '[' + ', '.join(describe(x, T) for x in o) + ']'
    if o is T.NIL:
        return 'NIL'
    if o is T.HARDLINE:
        return 'HARDLINE'
    n = type(o).__name__
    if n in ('Concat', 'Fill'):
        return '%s(%s)' % (n, describe(o.docs, T))
    if n == 'Nest':
        return 'Nest(%d, %s)' % (o.indent, describe(o.doc, T))
    if n in ('Group', 'AlwaysBreak'):
        return '%s(%s)' % (n, describe(o.doc, T))
    if n == 'Annotated':
        return 'Annotated(%s, %r)' % (describe(o.doc, T), o.annotation)
    if n == 'FlatChoice':
        return 'FlatChoice(when_broken=%s, when_flat=%s, noa=%s, bn=%s, fn=%s)' % (
            describe(o._when_broken, T), describe(o._when_flat, T), o.normalize_on_access, o._broken_normalized, o._flat_normalized)
    if n == 'Contextual':
        return 'Contextual(%s)' % getattr(o.fn, '__qualname__', 'fn')
    return repr(o)


def ribbon_frac_for(PW, RW):
    """a float f with max(0, min(PW, round(f * PW))) == RW, if one exists"""
    cands = []
    if PW > 0:
        cands += [RW / PW, (RW + 0.25) / PW, (RW - 0.25) / PW]
    cands += [0.0, 1.0, 0.5, 2.0, -1.0]
    for f in cands:
        if max(0, min(PW, round(f * PW))) == RW:
            return f
    return None


def replay_predicate(name, model):
    T, S, L, lay, den = bind_layout()
    conv = Conv(model)
    consts = model.get('@consts', {})
    PW = consts.get('PW', model.get('page_width', 79))
    RW = consts.get('RW', 0)
    if not isinstance(PW, int) or not isinstance(RW, int):
        return dict(confirmed=False, detail='model gives no integer page/ribbon width')
    f = ribbon_frac_for(PW, RW)
    if f is None:
        return dict(confirmed=False, detail='no ribbon fraction reproduces RW=%r at PW=%r' % (RW, PW))
    head = model.get('@loop0')
    if head and 'triplestack' in head and 'chars_left' in head:
        max_width, stack_t, where = head['chars_left'], head['triplestack'], 'loop-head state replayed as a fresh call'
    else:
        max_width, stack_t, where = model.get('max_width'), model.get('triplestack'), 'parameters'
    mnl = model.get('min_nesting_level', 0)
    try:
        stack = conv.stack(stack_t)
    except Exception as e:      # noqa
        return dict(confirmed=False, detail='cannot rebuild the stack: %s' % e)
    smart = name.startswith('smart')
    set_page(PW, RW, smart)
    try:
        if not lay.wf_stack(stack):
            return dict(confirmed=False, detail='model state violates the precondition wf_stack')
        expected = lay.fits(max_width, smart, mnl, stack)
    except Exception as e:      # noqa
        return dict(confirmed=False, detail='native spec failed: %r' % e)
    real = getattr(L, name)
    inp = 'page_width=%d, ribbon_frac=%r, min_nesting_level=%d, max_width=%d, triplestack=%s' % (
        PW, f, mnl, max_width, describe([(i, 'FLAT' if m == L.FLAT_MODE else 'BREAK', d) for i, m, d in stack], T))
    try:
        actual = real(page_width=PW, ribbon_frac=f, min_nesting_level=mnl, max_width=max_width, triplestack=list(stack))
    except Exception as e:      # noqa
        return dict(confirmed=True, detail='%s(%s) raised %r; the contract allows no exception (%s)' % (name, inp, e, where),
                    input=inp, observed=repr(e), required='returns fits(...) = %r' % expected)
    if bool(actual) != bool(expected):
        return dict(confirmed=True, detail='%s(%s) returned %r; the contract requires fits(...) = %r (%s)' % (name, inp, actual, expected, where),
                    input=inp, observed=repr(actual), required=repr(expected))
    return dict(confirmed=False, detail='real function agrees with the spec on the model input (%s): %r' % (where, actual), input=inp)


class _Timeout(Exception):
    pass


# family config: the counter-model says which settings are explicit (not the sentinel); the real entry points are run on
# that combination (concrete values from the bounded stand-in's domain) and compared as the postcondition demands
_CONFIG_CHECKS = {
    '_merge_defaults': ['explicit-over-defaults'], 'pformat': ['explicit-over-defaults', 'positional-args'],
    'pprint': ['pprint-is-pformat-plus-end', 'positional-args'], 'cpprint': ['cpprint-stripped'],
    'set_default_config': ['get-default-config'], 'get_default_config': ['get-default-config'],
    'pretty_repr': ['pretty-repr'], 'PrettyPrinter.__init__': ['PrettyPrinter-pformat', 'PrettyPrinter-pprint'],
    'PrettyPrinter.pformat': ['PrettyPrinter-pformat'], 'PrettyPrinter.pprint': ['PrettyPrinter-pprint'],
    '__init__': ['PrettyPrinter-pformat', 'PrettyPrinter-pprint'],
}


def replay_config(fn, model):
    from pvf.bounded import c18
    import warnings
    warnings.simplefilter('ignore')
    unset = (model.get('@consts') or {}).get('_UNSET_SENTINEL')
    keys = ['indent', 'width', 'depth', 'ribbon_width', 'max_seq_len', 'sort_dict_keys']
    explicit = {k: c18.EXPLICIT_DOMAIN[k] for k in keys if k in model and model[k] != unset}
    if fn in ('set_default_config',):
        args = {k: {'width': 30, 'ribbon_width': 15, 'depth': 2, 'max_seq_len': 3, 'sort_dict_keys': True}[k]
                for k in ('width', 'ribbon_width', 'depth', 'max_seq_len', 'sort_dict_keys') if k in model and model[k] != unset}
        histories = [[args], [{'width': 25, 'ribbon_width': 12}, args]]
        explicits = [{}]
    else:
        histories = [[], [{'width': 30}, {'depth': 2, 'max_seq_len': 3}], [{'sort_dict_keys': True, 'ribbon_width': 15}]]
        explicits = [explicit] if fn not in ('pretty_repr',) else [{}]
    checks = _CONFIG_CHECKS.get(fn) or _CONFIG_CHECKS.get(fn.split('.')[-1]) or []
    for h in histories:
        for chk in checks:
            vs = c18.check_history(h, explicits, [0, 1, 2], only=chk)
            if vs:
                v = vs[0]
                return dict(confirmed=True, input=json.dumps(v['case'], default=str)[:400], observed=v['observed'], required=v['expected'],
                            detail='%s: %s on the real entry points (explicit settings of the counter-model: %s; history %r): observed %s, '
                                   'expected %s' % (fn, v['kind'], sorted(explicit) or 'none', h, v['observed'], v['expected']))
    return dict(confirmed=False, detail='the real entry points agree on the combination of the counter-model (explicit: %s)'
                                        % (sorted(explicit) or 'none'))


def replay(r, budget_s=10):
    """replay under a wall-clock budget: a counter-model may describe a contextual function that keeps returning
    contextual documents (outside the assumption the proofs make), on which the real code does not terminate"""
    import signal

    def on_alarm(signum, frame):
        raise _Timeout()
    old = signal.signal(signal.SIGALRM, on_alarm)
    signal.setitimer(signal.ITIMER_REAL, budget_s, 0.05)
    try:
        return _replay(r)
    except _Timeout:
        return dict(confirmed=False, detail='replay exceeded %d s (model input outside the termination assumption?)' % budget_s)
    except RecursionError:
        return dict(confirmed=False, detail='replay hit the recursion limit')
    finally:
        signal.setitimer(signal.ITIMER_REAL, 0)
        signal.signal(signal.SIGALRM, old)


def _replay(r):
    fn = (r.get('function') or '').split('.')[-1]
    model = r.get('model')
    if not model:
        return dict(confirmed=False, detail='the solver gave no model')
    if fn in ('fast_fitting_predicate', 'smart_fitting_predicate'):
        return replay_predicate(fn, model)
    if r.get('family') == 'printers':
        return replay_printers(fn, model)
    if fn == 'evaluator' and 'pretty_str' in (r.get('function') or ''):
        return replay_pretty_str(model)
    if r.get('family') == 'config':
        full = r.get('function') or ''
        return replay_config(full if full in _CONFIG_CHECKS else fn, model)
    return dict(confirmed=False, detail='no direct replay for %s: the failing input is searched by the bounded stand-in' % fn)


# ---- family printers: the counter-model is turned into real values; the statement is checked on what the real printer returns ----
class _SubList(list):
    pass


class _SubTuple(tuple):
    pass


class _SubSet(set):
    pass


class _SubFloat(float):
    pass


class _SubInt(int):
    pass


def _render_doc(doc):
    from prettyprinter.layout import layout_smart
    from prettyprinter.render import default_render_to_str
    return default_render_to_str(layout_smart(doc, width=79, ribbon_frac=1.0))


def _code_and_comments(text):
    import io
    import tokenize
    comments = []
    code = []
    for tok in tokenize.generate_tokens(io.StringIO('(' + text + '\n)').readline):
        if tok.type == tokenize.COMMENT:
            comments.append(tok.string)
    for line in ('(' + text + '\n)').splitlines():
        code.append(line)
    return '\n'.join(code), comments


def _check_container(P, kind, native, n, N, depth_left, tc):
    """one real call of pretty_bracketable_iterable; returns None or (observed, required)"""
    import re
    base = {'list': list, 'tuple': tuple, 'set': set}[kind]
    cls = base if native else {'list': _SubList, 'tuple': _SubTuple, 'set': _SubSet}[kind]
    items = list(range(100, 100 + n))
    value = cls(items)
    ctx = P.PrettyContext(indent=4, depth_left=depth_left, max_seq_len=N)
    doc = P.pretty_bracketable_iterable(value, ctx, trailing_comment=tc)
    text = _render_doc(doc)
    src, comments = _code_and_comments(text)
    shown = n if N is None else min(n, N)
    ns = {'native_SubList': _SubList, 'native_SubTuple': _SubTuple, 'native_SubSet': _SubSet}
    src2 = re.sub(r'pvf\.native\._Sub(List|Tuple|Set)', r'native_Sub\1', src)
    if n > 0 and depth_left == 0:
        if any(str(i) in src2 for i in items) or '...' not in src2:
            return (text[:200], 'the placeholder of the container (depth exhausted): no element is printed')
        if not native and ('_Sub' not in src2):
            return (text[:200], 'the placeholder names the subclass')
        return None
    notices = [c for c in comments if 'more elements' in c]
    want_notice = N is not None and n > N
    if want_notice != (len(notices) == 1) or (not want_notice and notices):
        return ('%d truncation notices %r' % (len(notices), notices[:2]), 'exactly one notice iff len > N (len=%d, N=%r)' % (n, N))
    if want_notice and not re.search(r'(?<!\d)%d(?!\d)' % (n - N), notices[0]):
        return ('notice %r' % notices[0], 'the notice states exactly len - N = %d' % (n - N))
    if tc is not None and tc and not (n > 0 and depth_left == 0) and not any(tc in c for c in comments):
        return ('comments %r' % comments[:3], 'the attached trailing comment %r is kept' % tc)
    if n == 0 and depth_left == 0:
        return None          # an empty set / subclass instance at the cut: the call placeholder Sub(...) is the placeholder of its type
    if n > 0 and depth_left == 1:
        k = len(re.findall(r'int\(\.\.\.\)', src2))
        if k != shown:
            return ('%d element placeholders' % k, '%d elements one level deeper (each at the depth cut)' % shown)
        return None
    try:
        got = eval(src2, dict(ns))
    except Exception as e:      # noqa
        return ('%r does not evaluate: %r' % (text[:200], e), 'a valid expression')
    it = items if kind != 'set' else list(value)
    want = cls(it[:shown]) if kind != 'set' else None
    if kind == 'set':
        ok = type(got) is cls and len(got) == shown and set(got) <= set(value)
        if ok and N is not None and n > N:
            import itertools
            ok = set(got) == set(itertools.islice(value, N))
    else:
        ok = type(got) is cls and got == want
    if not ok:
        return ('evaluates to %r of type %s' % (got if len(repr(got)) < 200 else repr(got)[:200], type(got).__name__),
                'the first min(len, N) = %d elements as a %s' % (shown, cls.__name__))
    return None


class _SubStr(str):
    pass


class _SubBytes(bytes):
    pass


def replay_pretty_str(model):
    """real prints of strings around what the evaluator decides: empty, exactly fitting, too wide, unsplittable, subclass instances,
    as a top-level value / list element / dict value, at widths from 1 column up: the text must evaluate to an equal value of the same type"""
    import warnings
    warnings.simplefilter('ignore')
    common.load_repo()
    import prettyprinter
    ms = model.get('s')
    cands = ['', b'', 'a', 'abcdefgh', 'word ' * 12, 'x' * 60, "it's \"quoted\" text " * 4, b'bytes with spaces ' * 5,
             _SubStr(''), _SubStr('sub class ' * 8), _SubBytes(b'sub bytes ' * 8)]
    if isinstance(ms, str) and len(ms) < 500:
        cands.insert(0, ms)
    ns = {'_SubStr': _SubStr, '_SubBytes': _SubBytes}
    tried = 0
    for v in cands:
        for wrap in (lambda x: x, lambda x: [x], lambda x: {'abcdefgh': x}, lambda x: [[[[x]]]]):
            for w in (1, 2, 10, 11, 12, 20, 40, 79):
                val = wrap(v)
                tried += 1
                try:
                    text = prettyprinter.pformat(val, width=w)
                    got = eval('(' + text.replace('pvf.native._Sub', '_Sub') + '\n)', dict(ns))
                    ok = got == val and repr(type(_leaf(got))) == repr(type(v))
                    obs = text if not ok else ''
                except Exception as e:      # noqa
                    ok, obs = False, 'raised / does not evaluate: %r' % e
                if not ok:
                    inp = 'pformat(%r, width=%d)' % (val, w)
                    return dict(confirmed=True, input=inp, observed=obs[:300], required='evaluates to an equal value of the same type',
                                detail='%s printed %r; the statement requires literals whose concatenation is the value, inside its class' % (inp, obs[:200]))
    return dict(confirmed=False, detail='the real printer reproduces the string on %d prints' % tried)


def _leaf(x):
    while isinstance(x, (list, dict)):
        x = (list(x.values()) if isinstance(x, dict) else x)[0]
    return x


def replay_printers(fn, model):
    import importlib
    import math
    import warnings
    warnings.simplefilter('ignore')
    common.load_repo()          # the tree under check, not an installed copy
    P = importlib.import_module('prettyprinter.prettyprinter')
    funcs = model.get('@funcs', {})

    def fdefault(name, dflt):
        v = funcs.get(name, {}).get('default', dflt)
        return v if isinstance(v, (int, bool)) else dflt
    if fn == 'pretty_bracketable_iterable':
        ctx = model.get('ctx')
        mN, mdepth = None, 5
        if isinstance(ctx, list) and len(ctx) >= 6:
            mdepth = ctx[2] if isinstance(ctx[2], int) else 5
            if isinstance(ctx[4], list) and ctx[4][0] == 'SomeInt' and isinstance(ctx[4][1], int):
                mN = ctx[4][1]
        mn = fdefault('vlen', 3)
        if mN is not None and not (1 <= mN <= 500):
            mN = 2 + (abs(mN) % 5)
        if not (0 <= mn <= 600):
            mn = (mN or 3) + 1 + (abs(mn) % 7)
        mdepth = 0 if mdepth == 0 else (1 if mdepth == 1 else 5)
        kind = 'list' if fdefault('is_list', False) else ('tuple' if fdefault('is_tuple', True) else 'set')
        tcm = model.get('trailing_comment')
        tc0 = 'note' if (isinstance(tcm, list) and tcm and tcm[0] == 'SomeStr') else None
        cases = [(kind, nat, mn, mN, mdepth, tc0) for nat in (True, False)]
        for k in (kind, 'list', 'tuple', 'set'):
            for nat in (True, False):
                for N in (mN, None, 1, 2, 7):
                    for n in sorted({0, 1, 2, 3, mn, (N or 0) + 1, (N or 0) + 2, (N or 0) + 5}):
                        for d in (mdepth, 0, 1, 5):
                            for tc in (tc0, None, 'note'):
                                cases.append((k, nat, n, N, d, tc))
        seen = set()
        for case in cases:
            if case in seen:
                continue
            seen.add(case)
            k, nat, n, N, d, tc = case
            try:
                bad = _check_container(P, k, nat, n, N, d, tc)
            except Exception as e:      # noqa
                bad = ('raised %r' % e, 'the printer returns a document')
            if bad:
                inp = 'pretty_bracketable_iterable(%s of %d ints%s, PrettyContext(indent=4, depth_left=%d, max_seq_len=%r), trailing_comment=%r)' % (
                    k, n, '' if nat else ' (subclass)', d, N, tc)
                return dict(confirmed=True, input=inp, observed=bad[0], required=bad[1],
                            detail='%s: observed %s; the statement requires %s (%d real calls tried, the first is the counter-model)' % (
                                inp, bad[0], bad[1], len(seen)))
        return dict(confirmed=False, detail='the real printer satisfies the statement on the counter-model and on %d neighbouring inputs' % len(seen))
    if fn in ('pretty_deque', 'pretty_defaultdict', 'pretty_ordereddict', 'pretty_counter', 'pretty_baseexception'):
        import collections as _c
        import prettyprinter
        vals = {
            'pretty_deque': [_c.deque([1, 2, 3], maxlen=5), _c.deque(), _c.deque([1, 2, 3]), _c.deque([], maxlen=0), _c.deque([[1], [2]], maxlen=2)],
            'pretty_defaultdict': [_c.defaultdict(list, {1: [2], 3: []}), _c.defaultdict(int), _c.defaultdict(None, {'a': 1})],
            'pretty_ordereddict': [_c.OrderedDict([(2, 1), (1, 2)]), _c.OrderedDict(), _c.OrderedDict([('b', [1]), ('a', {})])],
            'pretty_counter': [_c.Counter('abracadabra'), _c.Counter(), _c.Counter({'x': 0, 'y': -2})],
            'pretty_baseexception': [KeyError('x', 1), ValueError(), OSError(2, 'No such file')],
        }[fn]
        ns = {'collections': _c, 'KeyError': KeyError, 'ValueError': ValueError, 'OSError': OSError, 'list': list, 'int': int}
        for v in vals:
            for w in (79, 10):
                try:
                    text = prettyprinter.pformat(v, width=w)
                    got = eval('(' + text + '\n)', dict(ns))
                    if isinstance(v, BaseException):
                        ok = type(got) is type(v) and got.args == v.args
                    else:
                        ok = type(got) is type(v) and got == v and getattr(got, 'maxlen', None) == getattr(v, 'maxlen', None) \
                            and getattr(got, 'default_factory', None) is getattr(v, 'default_factory', None) \
                            and (not isinstance(v, _c.OrderedDict) or list(got.items()) == list(v.items()))
                    obs = text
                except Exception as e:      # noqa
                    ok, obs = False, 'raised / does not evaluate: %r' % e
                if not ok:
                    inp = 'pformat(%r, width=%d)' % (v, w)
                    return dict(confirmed=True, input=inp, observed=obs[:300], required='evaluates to an equal object of the same type',
                                detail='%s printed %r, which does not rebuild the value' % (inp, obs[:200]))
        return dict(confirmed=False, detail='every value tried is rebuilt by evaluating what the real printer prints')
    if fn == 'general_identifier':
        import sys as _sys
        import types as _types
        added = []
        for name in ('_pvfpriv', 'pvfpriv', 'pvfpkg', 'pvfpkg.sub'):
            if name not in _sys.modules:
                _sys.modules[name] = _types.ModuleType(name)
                added.append(name)
        try:
            cases = []
            for mod in ('_pvfpriv', 'pvfpriv', 'pvfpkg.sub', '__main__', 'builtins', '_unloaded_private', '__dunder'):
                for qual in ('Thing', 'Outer.Inner'):
                    c = type(qual.split('.')[-1], (), {})
                    c.__module__, c.__qualname__ = mod, qual
                    cases.append((c, qual if mod in ('__main__', 'builtins') else mod + '.' + qual))
            cases += [(len, 'len'), (int, 'int'), (dict.fromkeys, 'dict.fromkeys')]
            for obj, want in cases:
                try:
                    got = _render_doc(P.general_identifier(obj))
                except Exception as e:      # noqa
                    got = 'raised %r' % e
                if got != want:
                    inp = 'general_identifier(<%s with __module__=%r, __qualname__=%r>) while the modules _pvfpriv, pvfpriv, pvfpkg.sub are loaded' % (
                        type(obj).__name__, getattr(obj, '__module__', None), getattr(obj, '__qualname__', None))
                    return dict(confirmed=True, input=inp, observed=got, required=want,
                                detail='%s printed %r; the statement requires the own qualified name %r' % (inp, got, want))
        finally:
            for name in added:
                _sys.modules.pop(name, None)
        return dict(confirmed=False, detail='the real general_identifier names %d classes / callables by their own module and qualname' % len(cases))
    if fn == 'pretty_dict':
        # the statement-level oracles of the bounded stand-ins of C10 / C11, on dicts chosen for what pretty_dict's contract speaks about:
        # container keys, nested values, limits around the length, sorted keys, commented values at narrow widths
        from pvf.bounded import c10, c11
        tried = 0
        exprs = ["{1: 10, 2: 20, 3: 30, 4: 40}", "{(1, 2, 3, 4, 5): 'v', 2: [1, 2, 3]}", "{'a': [1, 2, 3, 4], 'b': {1: 1, 2: 2, 3: 3}}",
                 "{3: [1, 2, 3], 1: (4, 5, 6, 7), 2: {5: 5, 6: 6, 7: 7}}", "{frozenset([1, 2, 3]): 1, 7: 8}"]
        for e in exprs:
            for N in (1, 2, 3, None):
                for srt in (False, True):
                    if srt and ('frozenset' in e or "'a'" in e or '(1, 2' in e):
                        continue
                    tried += 1
                    try:
                        vs = c10.check_case(e, {'max_seq_len': N, 'sort_dict_keys': srt, 'width': 40})
                    except Exception as ex:      # noqa
                        continue
                    vs = [v for v in vs if v['kind'] not in ('warning',)]
                    if vs:
                        v = vs[0]
                        inp = 'pformat(%s, max_seq_len=%r, sort_dict_keys=%r, width=40)' % (e, N, srt)
                        return dict(confirmed=True, input=inp, observed=str(v['observed'])[:300], required=str(v['expected'])[:300],
                                    detail='%s: %s - observed %s; required %s' % (inp, v['kind'], str(v['observed'])[:200], str(v['expected'])[:200]))
        for e in ["{'k': [1, [2, [3]]], 'z': 1}", "{5: [6, [7, {8: [9]}]], 10: (11, [12])}", "[{1: [2, [3, [4]]]}]"]:
            spec = c11.parse_spec(e)
            value = eval(c11.expr_of(spec), dict(c11.NS))
            for rs in range(4):
                n, vs = c11.check_commented(spec, value, [0, 1, 2, 3, None], rs)
                tried += n
                if vs:
                    v = vs[0]
                    inp = 'pformat(<%s with comment() around nested values, decoration seed %d>, %s)' % (e, rs, v['case']['kwargs'])
                    return dict(confirmed=True, input=inp, observed=str(v['observed'])[:300], required=str(v['expected'])[:300],
                                detail='%s: %s - the commented value is cut at another level than the uncommented one' % (inp, v['kind']))
        return dict(confirmed=False, detail='the real printer satisfies the C10 / C11 oracles on %d dict cases' % tried)
    if fn in ('pretty_float', 'pretty_int', 'pretty_bool'):
        import prettyprinter
        vals = {'pretty_float': [float('inf'), float('-inf'), float('nan'), 1.5, -0.0, _SubFloat('inf'), _SubFloat('nan'), _SubFloat(2.5)],
                'pretty_int': [0, -7, 10 ** 30, _SubInt(5)], 'pretty_bool': [True, False]}[fn]
        for v in vals:
            for depth in ((None, 0, 5) if fn != 'pretty_bool' else (None, 5)):
                try:
                    text = prettyprinter.pformat([v], depth=depth) if depth != 0 else prettyprinter.pformat(v, depth=0)
                    if depth == 0:
                        ok = '...' in text
                        req = 'a placeholder at depth 0'
                    else:
                        src = text.replace('pvf.native._Sub', '_Sub')
                        got = eval(src, {'_SubFloat': _SubFloat, '_SubInt': _SubInt, 'float': float, 'int': int})[0]
                        ok = type(got) is type(v) and (got == v or (isinstance(v, float) and math.isnan(v) and math.isnan(got))) \
                            and (not isinstance(v, float) or math.copysign(1, got) == math.copysign(1, v) or math.isnan(v))
                        req = 'evaluates to an equal value of the same type'
                except Exception as e:      # noqa
                    ok, text, req = False, 'raised %r' % e, 'a valid expression'
                if not ok:
                    inp = 'pformat(%r of type %s, depth=%r)' % (v, type(v).__name__, depth)
                    return dict(confirmed=True, input=inp, observed=text[:200], required=req,
                                detail='%s printed %r; the statement requires: %s' % (inp, text[:200], req))
        return dict(confirmed=False, detail='the real printer satisfies the statement on the representative values tried')
    return dict(confirmed=False, detail='no direct replay for %s: the failing input is searched by the bounded stand-in' % fn)
