"""Replay of solver counter-models on the real code (DESIGN 4.3)."""


def replay_obligation(r):
    """r: obligation result (json).  Returns {'confirmed': bool, 'detail': str, ...}."""
    try:
        from pvf import native
    except Exception as e:      # noqa
        return dict(confirmed=False, detail='native interpretation unavailable: %s' % e)
    return native.replay(r)


def replay_payload(payload):
    r = dict(name=payload['obligation'], function=payload['function'], model=payload['model'],
             family=payload.get('family'))
    return replay_obligation(r)
