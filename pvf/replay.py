"""Replay of solver counter-models on the real code (DESIGN 4.3)."""


def replay_obligation(r):
    """r: obligation result (json).  Returns {'confirmed': bool, 'detail': str, ...}."""
    try:
        from pvf import native
    except Exception as e:      # noqa
        return dict(confirmed=False, detail='native interpretation unavailable: %s' % e)
    return native.replay(r)


def replay_payload(payload):
    fam = payload.get('family')
    if fam is None:
        # replay files written before the family was recorded: the printers family is recognised by its functions
        fn = (payload.get('function') or '').split('.')[-1]
        if fn in ('pretty_bracketable_iterable', 'pretty_dict', 'pretty_float', 'pretty_int', 'pretty_bool', 'general_identifier',
                  'pretty_deque', 'pretty_defaultdict', 'pretty_ordereddict', 'pretty_counter', 'pretty_baseexception'):
            fam = 'printers'
    r = dict(name=payload['obligation'], function=payload['function'], model=payload['model'], family=fam)
    return replay_obligation(r)
