"""Which machinery decides which property.  One entry per property of properties.jsonl.

families : contract families whose functions (those with the property id in `serves`) are verified by pyvc
bounded  : module with the bounded stand-in (run / replay), or None
level    : level claimed when every obligation is discharged; drops to 'other' otherwise
"""

PROPS = {
    'C01': dict(families=['printers'], bounded='pvf.bounded.c01', level='other'),
    'C02': dict(families=['strings'], bounded='pvf.bounded.c02', level='other'),
    'C03': dict(families=['context'], bounded='pvf.bounded.c03', level='other'),
    'C04': dict(families=['layout', 'normalize', 'render'], bounded='pvf.bounded.c04', level='proof'),
    'C05': dict(families=['layout', 'normalize'], bounded='pvf.bounded.c05', level='proof'),
    'C06': dict(families=['layout', 'normalize'], bounded='pvf.bounded.c06', level='other'),
    'C07': dict(families=['printers'], bounded='pvf.bounded.c07', level='other'),
    'C08': dict(families=['printers', 'strings'], bounded='pvf.bounded.c08', level='other'),
    'C09': dict(families=[], bounded='pvf.bounded.c09', level='other'),
    'C10': dict(families=['context', 'printers'], bounded='pvf.bounded.c10', level='other'),
    'C11': dict(families=['context', 'printers'], bounded='pvf.bounded.c11', level='other'),
    'C12': dict(families=['layout', 'normalize', 'strings'], bounded='pvf.bounded.c12', level='other'),
    'C13': dict(families=['runpretty', 'context'], bounded='pvf.bounded.c13', level='other'),
    'C14': dict(families=['runpretty'], bounded='pvf.bounded.c14', level='other'),
    'C15': dict(families=['registry'], bounded='pvf.bounded.c15', level='proof'),
    'C16': dict(families=['render'], bounded='pvf.bounded.c16', level='proof'),
    'C17': dict(families=['printers'], bounded='pvf.bounded.c17', level='other'),
    'C18': dict(families=['config', 'context'], bounded='pvf.bounded.c18', level='proof'),
    'C19': dict(families=[], bounded='pvf.bounded.c19', level='other'),
}

# frame obligations by effect analysis (pvf/effects.py): which of them serve which property
def _all(o):
    return True


EFFECTS = {
    'C19': _all,
    'C03': lambda o: '/settings-flow@' in o['name'],
    'C18': lambda o: '/settings-flow@one-pipeline' in o['name'] or o['name'].startswith('effects:__init__:'),
    'C13': lambda o: o['name'].startswith('effects:prettyprinter:') and any(k in o['name'] for k in ('/module-state@', '/hidden-state@', '/global-rebind@', '/id-flow@')),
    'C14': lambda o: o['name'].startswith('effects:prettyprinter:') and any(k in o['name'] for k in ('/module-state@', '/hidden-state@', '/global-rebind@')),
    'C15': lambda o: o['name'].startswith('effects:prettyprinter:') and any(k in o['name'] for k in ('/module-state@', '/hidden-state@', '/global-rebind@')),
    'C16': lambda o: o['name'].startswith('effects:color:'),
}

