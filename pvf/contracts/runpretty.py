"""Contracts of the printer-invocation family (C13, C14): _run_pretty, _call_pretty_fn, and the visited discipline.

The printer is a *symbolic* callable: a call either returns a symbolic result (a str, a Doc or something else) or
raises an exception of a symbolic class; the context's visited set is a z3 set of ids.  So what is proved holds for
every printer, every exception class and every value.
"""
import ast
import z3
from pvf.pyvc.universe import Universe
from pvf.pyvc.contract import ContractSet
from pvf.pyvc.interp import OutsideSubset, SymRaise, FuncVal, is_z3
from pvf.pyvc import interp as _interp

U = Universe('runpretty')
U.uninterpreted('Val')         # the value being printed
U.uninterpreted('ExcCls')      # the class of a raised exception
U.uninterpreted('DocId')       # some Doc
U.exc_sort = 'ExcCls'
IntSet = z3.SetSort(z3.IntSort())
U.sorts['IntSet'] = IntSet
U.declare({
    'Res': ('data', [('RStr', [('s', 'Str')]), ('RDoc', [('d', 'DocId')]), ('ROther', [])]),
    'OptStr': ('data', [('NoStr', []), ('SomeStr', [('v', 'Str')])]),
    'Ctx': ('record', [('visited', 'IntSet')]),
})
U.options = {'OptStr': 'Str'}
U.classmap['Doc'] = ('Res', 'RDoc')
U.isinstance_hooks = {'str': lambda I, v: U.is_('Res', 'RStr', v)}
U.exc_lattice = {'_InvalidPrinterResult': 'ValueError'}

C = ContractSet(U, 'runpretty')
PP = 'prettyprinter.prettyprinter'

id_of = z3.Function('id_of', U.sort('Val'), z3.IntSort())
repr_str = z3.Function('repr_str', U.sort('Val'), z3.StringSort())
marker_str = z3.Function('marker_str', U.sort('Val'), z3.StringSort())
is_exception = z3.Function('is_exception', U.sort('ExcCls'), z3.BoolSort())      # issubclass(cls, Exception)
is_typeerror = z3.Function('is_typeerror', U.sort('ExcCls'), z3.BoolSort())
is_invalid = z3.Function('is_invalid', U.sort('ExcCls'), z3.BoolSort())          # issubclass(cls, _InvalidPrinterResult)


@C.spec([('v', 'Val')], 'Int', opaque=True)
def vid(v):
    return id(v)


@C.spec([('v', 'Val')], 'Res', opaque=True)
def repr_res(v):
    return repr(v)


@C.spec([('v', 'Val')], 'Res', opaque=True)
def marker_res(v):
    """<Recursion on {type name} with id={id}>"""
    return '<Recursion on ...>'


@C.spec([('r', 'Res')], 'Bool')
def is_text(r):
    return isinstance(r, str)


@C.spec([('e', 'ExcCls')], 'Bool', opaque=True)
def exc_is_exception(e):
    return True


@C.spec([('e', 'ExcCls')], 'Bool', opaque=True)
def exc_is_typeerror(e):
    return True


@C.spec([('e', 'ExcCls')], 'Bool', opaque=True)
def exc_is_invalid(e):
    return True


@C.spec([('x', 'Int'), ('s', 'IntSet')], 'Bool', opaque=True)
def member(x, s):
    return x in s


@C.lemma([('v', 'Val')], ensures=['isinstance(repr_res(v), str)', 'isinstance(marker_res(v), str)'],
         triggers=['repr_res(v)', 'marker_res(v)'], trusted=True, note='repr() and str.format() return a str')
def lemma_text_results(v):
    pass


@C.lemma([('e', 'ExcCls')],
         ensures=['implies(exc_is_typeerror(e), exc_is_exception(e))', 'implies(exc_is_invalid(e), exc_is_exception(e))',
                  'not (exc_is_typeerror(e) and exc_is_invalid(e))'],
         triggers=['exc_is_exception(e)', 'exc_is_typeerror(e)', 'exc_is_invalid(e)'], trusted=True,
         note='class lattice: TypeError < Exception, _InvalidPrinterResult < ValueError < Exception, and no class derives from both '
              'TypeError and _InvalidPrinterResult (the latter is private to the package)')
def lemma_exc_lattice(e):
    pass


# ---- hooks -----------------------------------------------------------------------------------

def _except_hook(I, e, names):
    """does the symbolic exception match `except <names>`?  forks on the class predicates"""
    t = e.term
    conds = []
    for n in names:
        if n in ('BaseException',):
            return True
        if n == 'Exception':
            conds.append(I.call_spec(C.specs['exc_is_exception'], [t], {}))
        elif n == 'TypeError':
            conds.append(I.call_spec(C.specs['exc_is_typeerror'], [t], {}))
        elif n == '_InvalidPrinterResult':
            conds.append(I.call_spec(C.specs['exc_is_invalid'], [t], {}))
        elif n in _interp.EXC_LATTICE or n in U.exc_lattice:
            # any other class of the lattice: an uninterpreted predicate, with the facts "subclass of its ancestors"
            conds.append(_class_pred(I, n, t))
        else:
            raise OutsideSubset('except %s with a symbolic exception' % n)
    c = conds[0] if len(conds) == 1 else z3.Or(*conds)
    return I.choose_bool(c, '@except ' + '|'.join(names))


_PREDS = {}


def _class_pred(I, n, t):
    known = {'Exception': 'exc_is_exception', 'TypeError': 'exc_is_typeerror', '_InvalidPrinterResult': 'exc_is_invalid'}
    if n in known:
        return I.call_spec(C.specs[known[n]], [t], {})
    if n == 'BaseException':
        return z3.BoolVal(True)
    if n not in _PREDS:
        _PREDS[n] = z3.Function('exc_is_' + n, U.sort('ExcCls'), z3.BoolSort())
    p = _PREDS[n](t)
    parent = U.exc_lattice.get(n, _interp.EXC_LATTICE.get(n))
    if parent is not None:
        I.assume(z3.Implies(p, _class_pred(I, parent, t)))
    return p


U.except_hook = _except_hook


def _m_is_visited(I, ctx, args, kwargs, node):
    return z3.IsMember(I.call_spec(C.specs['vid'], [args[0]], {}), U.rget('Ctx', 'visited', ctx))


def _m_start_visit(I, ctx, args, kwargs, node):
    vs = U.rget('Ctx', 'visited', ctx)
    I.rebind_target(node, U.mk('Ctx', z3.SetAdd(vs, I.call_spec(C.specs['vid'], [args[0]], {}))))
    return None


def _m_end_visit(I, ctx, args, kwargs, node):
    vs = U.rget('Ctx', 'visited', ctx)
    x = I.call_spec(C.specs['vid'], [args[0]], {})
    if not I.choose_bool(z3.IsMember(x, vs), '@present'):
        raise SymRaise('KeyError', 'set.remove of an absent id')
    I.rebind_target(node, U.mk('Ctx', z3.SetDel(vs, x)))
    return None


U.method_hooks = {('Ctx', 'is_visited'): _m_is_visited, ('Ctx', 'start_visit'): _m_start_visit,
                  ('Ctx', 'end_visit'): _m_end_visit}


def _warn(I, args, kwargs, node):
    I.env['tcw'] = I.env['tcw'] + 1 if 'tcw' in I.env else 1
    return None


def _signature(I, args, kwargs, node):
    return ('opaque', 'signature', args[0])


def _opaque_method(I, obj, name, args, kwargs, node):
    if obj[1] == 'signature' and name == 'bind':
        # whether the printer accepts trailing_comment: an unknown fact about the printer
        if not I.choose_bool(I.fresh('Bool', 'accepts_tc'), '@sig.bind accepts'):
            raise SymRaise('TypeError', 'signature mismatch')
        return ('opaque', 'bound')
    raise OutsideSubset('method %s on %r' % (name, obj[1]))


def _opaque_attr(I, obj, attr):
    if obj[1] == 'type' and attr in ('__name__', '__qualname__', '__module__'):
        return I.fresh('Str', 'tname')
    if obj[1] == 'signature' and attr == 'bind':
        return FuncVal('method', attr, obj)
    raise OutsideSubset('attribute %s on %r' % (attr, obj[1]))


U.modules = {'warnings': {'warn': _warn}, 'inspect': {'signature': _signature}}
U.opaque_method = _opaque_method
U.opaque_attr = _opaque_attr



def _b_type(I, args, kwargs, node):
    return ('opaque', 'type', args[0])


def _b_repr(I, args, kwargs, node):
    v = args[0]
    if is_z3(v) and I.sort_of(v) == 'Val':
        return I.call_spec(C.specs['repr_res'], [v], {})
    return I.fresh('Str', 'repr')


_interp.BUILTINS.setdefault('type', _b_type)
_interp.BUILTINS.setdefault('repr', _b_repr)

# ---- the symbolic printer -----------------------------------------------------------------------


def _printer_returned(I, result):
    I.env['calls'] = I.env['calls'] + 1
    I.env['last_ret'] = result


def _printer_raised(I, term):
    I.env['raises'] = I.env['raises'] + 1
    I.env['last_exc'] = term


_printer = C.proto(
    'printer', params={'value': 'Val', 'ctx': 'Ctx', 'trailing_comment': 'OptStr'}, returns='Res',
    modifies=['ctx'],
    ensures=[('frame', 'ctx.visited == old(ctx).visited')],
    ensures_raise=[('frame', 'ctx.visited == old(ctx).visited')],
    note='ASSUMED about every printer (bundled and user): it leaves the visited set as it found it on normal and on '
         'exceptional exit (it touches it only through pretty_python_value, whose activations restore it - what is proved '
         'below for _run_pretty); otherwise arbitrary: any result, any exception')
_printer.defaults = {'trailing_comment': None}
_printer.raises_sym = 'True'            # may raise anything
_printer.effect = _printer_returned
_printer.effect_raise = _printer_raised

_GHOST = {'bad': ('Int', '0'), 'tcw': ('Int', '0'), 'calls': ('Int', '0'), 'raises': ('Int', '0'),
          'last_ret': ('Res', 'ROther()'), 'last_exc': ('ExcCls', 'NOEXC')}
U.consts['NOEXC'] = z3.Const('NOEXC', U.sort('ExcCls'))
U.ctor_names = {'ROther': ('Res', 'ROther'), 'RStr': ('Res', 'RStr')}


def _warn_bad_effect(I, result):
    I.env['bad'] = I.env['bad'] + 1


_wb = C.contract(PP, '_warn_about_bad_printer', params={'pretty_fn': 'fn', 'value': 'Val', 'exc': 'ExcCls'}, trusted=True,
                 fnparams={'pretty_fn': 'printer'},
                 note='issues exactly one UserWarning naming the printer (straight-line: one warnings.warn call); counted by the ghost `bad`',
                 serves=['C14'])
_wb.effect = _warn_bad_effect

C.contract(PP, '_pretty_recursion', params={'value': 'Val'}, returns='Res', ensures=[('marker', 'result == marker_res(value)')],
           trusted=True, note='formats the marker text from type(value).__name__ and id(value) (one format call)', serves=['C13'])

_cpf = C.contract(
    PP, '_call_pretty_fn',
    params={'pretty_fn': 'fn', 'value': 'Val', 'ctx': 'Ctx', 'trailing_comment': 'OptStr'},
    fnparams={'pretty_fn': 'printer'}, returns='Res', modifies=['ctx'], ghost=dict(_GHOST),
    ensures=[('frame', 'ctx.visited == old(ctx).visited'),
             ('own-result', 'implies(bad == 0, calls >= 1 and result == last_ret)'),
             ('contained', 'implies(bad != 0, bad == 1 and raises >= 1 and exc_is_exception(last_exc) and not exc_is_invalid(last_exc) '
                           'and result == repr_res(value))'),
             ('attempts', 'calls + raises <= 2 and implies(calls + raises == 2, tcw == 1 and trailing_comment is not None)')],
    ensures_raise=[('frame', 'ctx.visited == old(ctx).visited'), ('no-warning', 'bad == 0')],
    serves=['C13', 'C14'])
_cpf.raises_sym = 'not exc_is_exception(exc) or exc_is_invalid(exc)'
# what the caller learns when _call_pretty_fn raises: the same clause (it is its proved raise-condition)

_rp = C.contract(
    PP, '_run_pretty',
    params={'pretty_fn': 'fn', 'value': 'Val', 'ctx': 'Ctx', 'trailing_comment': 'OptStr'},
    fnparams={'pretty_fn': 'printer'}, returns='Res', modifies=['ctx'],
    ensures=[('visited-restored', 'ctx.visited == old(ctx).visited'),
             ('marker-iff-on-path', 'implies(member_(vid(value), old(ctx).visited), result == marker_res(value))'),
             ('valid-result', 'isinstance(result, str) or isinstance(result, Doc)')],
    ensures_raise=[('visited-restored', 'ctx.visited == old(ctx).visited')],
    raises={'_InvalidPrinterResult': 'not member_(vid(value), ctx.visited)'},
    serves=['C13', 'C14'])
_rp.raises_sym = 'not exc_is_exception(exc) or exc_is_invalid(exc)'
_rp.defaults = {'trailing_comment': None}


def _b_member(I, args, kwargs, node):
    return z3.IsMember(I.coerce(args[0], 'Int'), args[1])


_interp.BUILTINS['member_'] = _b_member

C.assume('printers (bundled and user) restore the visited set on normal and exceptional exit (proved for _run_pretty, the only '
         'code that writes it; assumed for the printer bodies, which reach it only through pretty_python_value)')
C.assume('id() is injective on simultaneously live objects; the text of warnings and of the marker is not modelled beyond '
         'which function produced it')
C.assume('asynchronous exceptions (KeyboardInterrupt inside the finally block, MemoryError) are not modelled')


# ---- the visited-set primitives themselves (the hooks above are their contracts; here they are verified from the source) ----
def _set_target(I, node):
    """self.visited.<method>(...): the receiver is the field `visited` of a context variable"""
    tgt = node.func.value
    if not (isinstance(tgt, ast.Attribute) and tgt.attr == 'visited' and isinstance(tgt.value, ast.Name)):
        raise OutsideSubset('set method on %s' % ast.unparse(tgt))
    return tgt.value.id


def _set_add(I, obj, args, kwargs, node):
    name = _set_target(I, node)
    I.note_mutation(name)
    I.env[name] = U.mk('Ctx', z3.SetAdd(obj, I.coerce(args[0], 'Int')))
    return None


def _set_remove(I, obj, args, kwargs, node):
    name = _set_target(I, node)
    x = I.coerce(args[0], 'Int')
    if not I.choose_bool(z3.IsMember(x, obj), '@present'):
        raise SymRaise('KeyError', 'set.remove of an absent element')
    I.note_mutation(name)
    I.env[name] = U.mk('Ctx', z3.SetDel(obj, x))
    return None


def _set_discard(I, obj, args, kwargs, node):
    name = _set_target(I, node)
    I.note_mutation(name)
    I.env[name] = U.mk('Ctx', z3.SetDel(obj, I.coerce(args[0], 'Int')))
    return None


def _set_clear(I, obj, args, kwargs, node):
    name = _set_target(I, node)
    I.note_mutation(name)
    I.env[name] = U.mk('Ctx', z3.EmptySet(z3.IntSort()))
    return None


U.method_hooks.update({('IntSet', 'add'): _set_add, ('IntSet', 'remove'): _set_remove, ('IntSet', 'discard'): _set_discard,
                       ('IntSet', 'clear'): _set_clear})
_prev_id = _interp.BUILTINS.get('id')
_interp.BUILTINS['id'] = lambda I, a, k, n: (I.call_spec(C.specs['vid'], [a[0]], {}) if (I.U is U and is_z3(a[0]) and I.sort_of(a[0]) == 'Val')
                                             else (_prev_id(I, a, k, n) if _prev_id else (_ for _ in ()).throw(OutsideSubset('id()'))))


def _contains_set(I, container, x):
    return z3.IsMember(I.coerce(x, 'Int'), container)


U.contains_hooks = dict(getattr(U, 'contains_hooks', {}))
U.contains_hooks['IntSet'] = _contains_set
_interp.BUILTINS['set_add_'] = lambda I, a, k, n: z3.SetAdd(a[0], I.coerce(a[1], 'Int'))
_interp.BUILTINS['set_del_'] = lambda I, a, k, n: z3.SetDel(a[0], I.coerce(a[1], 'Int'))

C.contract(PP, 'PrettyContext.start_visit', params={'self': 'Ctx', 'value': 'Val'}, modifies=['self'],
           ensures=[('adds-exactly-the-id', 'self.visited == set_add_(old(self).visited, vid(value))')], serves=['C13'])
C.contract(PP, 'PrettyContext.end_visit', params={'self': 'Ctx', 'value': 'Val'}, modifies=['self'],
           raises={'KeyError': 'not member_(vid(value), self.visited)'},
           ensures=[('removes-exactly-the-id', 'self.visited == set_del_(old(self).visited, vid(value))'),
                    ('was-present', 'member_(vid(value), old(self).visited)')], serves=['C13'])
C.contract(PP, 'PrettyContext.is_visited', params={'self': 'Ctx', 'value': 'Val'}, returns='Bool',
           ensures=[('membership', 'result == member_(vid(value), self.visited)')], serves=['C13'])
