"""Family `context` (C10, C11, C13, C18): PrettyContext - the object that carries indent / depth / max_seq_len /
sort_dict_keys / the visited set down the recursion.  _replace is verified for EVERY subset of passed fields and all
values (the keyword map is symbolic: a presence flag and a value per field)."""
import ast
import z3
from pvf.pyvc.universe import Universe
from pvf.pyvc.contract import ContractSet
from pvf.pyvc.interp import OutsideSubset, SymRaise, FuncVal, KwMap, is_z3
from pvf.pyvc import interp as _interp

U = Universe('context')
U.uninterpreted('SetRef')        # the visited set object (identity matters: derived contexts must share it)
U.uninterpreted('Strategy')      # multiline strategy constants
U.uninterpreted('MapVal')        # user_ctx dict value
U.uninterpreted('PyObj')         # arbitrary key / value for assoc
U.declare({
    'Depth': ('data', [('Inf', []), ('Fin', [('n', 'Int')])]),           # float('inf') or an int
    'OptInt': ('data', [('NoInt', []), ('SomeInt', [('v', 'Int')])]),
    'OptSet': ('data', [('NoSet', []), ('SomeSet', [('v', 'SetRef')])]),
    'OptMap': ('data', [('NoMap', []), ('SomeMap', [('v', 'MapVal')])]),
    'Ctx': ('record', [('indent', 'Int'), ('depth_left', 'Depth'), ('visited', 'SetRef'), ('multiline_strategy', 'Strategy'),
                       ('max_seq_len', 'OptInt'), ('sort_dict_keys', 'Bool'), ('user_ctx', 'MapVal')]),
})
U.options = {'OptInt': 'Int', 'OptSet': 'SetRef', 'OptMap': 'MapVal'}
FIELDS = {'indent': 'Int', 'depth_left': 'Depth', 'visited': 'OptSet', 'multiline_strategy': 'Strategy',
          'max_seq_len': 'OptInt', 'sort_dict_keys': 'Bool', 'user_ctx': 'OptMap'}        # constructor parameter sorts
SLOTS = ('indent', 'depth_left', 'visited', 'multiline_strategy', 'max_seq_len', 'sort_dict_keys', 'user_ctx')
U.consts['MULTILINE_STRATEGY_PLAIN'] = z3.Const('MULTILINE_STRATEGY_PLAIN', U.sort('Strategy'))
EMPTY_MAP = z3.Const('EMPTY_MAP', U.sort('MapVal'))
map_truthy = z3.Function('map_truthy', U.sort('MapVal'), z3.BoolSort())
map_put = z3.Function('map_put', U.sort('MapVal'), U.sort('PyObj'), U.sort('PyObj'), U.sort('MapVal'))
U.truthy = {'MapVal': lambda v: map_truthy(v)}

C = ContractSet(U, 'context')
PP = 'prettyprinter.prettyprinter'


@C.spec([('s', 'SetRef')], 'Bool', opaque=True)
def fresh_set(s):
    """s is a set object created by this call"""
    return True


@C.spec([('m', 'MapVal'), ('k', 'PyObj'), ('v', 'PyObj')], 'MapVal', opaque=True)
def put(m, k, v):
    return {**m, k: v}


# ---- hooks ----------------------------------------------------------------------------------------
def _binop(I, op, a, b):
    if isinstance(op, ast.Sub) and is_z3(a) and I.sort_of(a) == 'Depth':
        # inf - 1 == inf ; n - 1
        D = U.sort('Depth')
        n = U.acc('Depth', 'Fin', 'n')(a)
        return z3.If(U.is_('Depth', 'Inf', a), a, U.ctor('Depth', 'Fin')(n - I.coerce(b, 'Int')))
    return None


U.binop_hook = _binop


def _opaque_attr(I, obj, attr):
    if obj[1] == 'type' and attr == '__slots__':
        return SLOTS          # cross-checked against the class source by check_slots()
    raise OutsideSubset('attribute %s of %r' % (attr, obj[1]))


U.opaque_attr = _opaque_attr
_interp.BUILTINS.setdefault('type', lambda I, args, kwargs, node: ('opaque', 'type', args[0]))


def _new_set(I):
    s = I.fresh('SetRef', 'newset')
    I.assume(I.call_spec(C.specs['fresh_set'], [s], {}))
    return s


U.new_set_hook = _new_set


def _dict_hook(I, node):
    """{} and {**m, k: v}"""
    if not node.keys:
        return EMPTY_MAP
    if len(node.keys) == 2 and node.keys[0] is None:
        m = I.ev(node.values[0])
        k, v = I.ev(node.keys[1]), I.ev(node.values[1])
        return I.call_spec(C.specs['put'], [m, k, v], {})
    raise OutsideSubset('dict display shape')


U.dict_hook = _dict_hook


def check_slots():
    """the field list the contracts use is the __slots__ of the class in the source (2.4)"""
    from pvf.pyvc.run import module_ast
    src, tree = module_ast(PP)
    for n in tree.body:
        if isinstance(n, ast.ClassDef) and n.name == 'PrettyContext':
            for st in n.body:
                if isinstance(st, ast.Assign) and isinstance(st.targets[0], ast.Name) and st.targets[0].id == '__slots__':
                    got = tuple(ast.literal_eval(st.value))
                    return got == SLOTS, got
    return False, None


# ---- contracts -----------------------------------------------------------------------------------
_init = C.contract(
    PP, 'PrettyContext.__init__',
    params={'self': 'Ctx', 'indent': 'Int', 'depth_left': 'Depth', 'visited': 'OptSet', 'multiline_strategy': 'Strategy',
            'max_seq_len': 'OptInt', 'sort_dict_keys': 'Bool', 'user_ctx': 'OptMap'},
    modifies=['self'],
    ensures=[('indent', 'self.indent == indent'), ('depth_left', 'self.depth_left == depth_left'),
             ('strategy', 'self.multiline_strategy == multiline_strategy'), ('max_seq_len', 'self.max_seq_len == max_seq_len'),
             ('sort', 'self.sort_dict_keys == sort_dict_keys'),
             ('visited-given', 'implies(visited is not None, self.visited == unwrap(visited))'),
             ('visited-fresh', 'implies(visited is None, fresh_set(self.visited))'),
             ('user_ctx', 'implies(user_ctx is not None and map_truthy_(unwrap(user_ctx)), self.user_ctx == unwrap(user_ctx))')],
    serves=['C10', 'C11', 'C13', 'C18'])
_init.defaults = {'visited': None, 'multiline_strategy': U.consts['MULTILINE_STRATEGY_PLAIN'], 'max_seq_len': 1000,
                  'sort_dict_keys': False, 'user_ctx': None}


def _construct(I, args, kwargs):
    """PrettyContext(...): a new object whose fields are what __init__ assigns"""
    self0 = I.fresh('Ctx', 'newctx')
    I.env['__newctx'] = self0
    node = ast.parse('f(__newctx)').body[0].value          # so that the modified self is written back to a variable
    I.call_contract(_init, [self0] + list(args), kwargs, node)
    return I.env.pop('__newctx')


U.class_hooks = {'PrettyContext': _construct}
U.classmap['PrettyContext'] = ('Ctx', 'Ctx_mk')


def _same(fields):
    return ' and '.join('result.%s == self.%s' % (f, f) for f in fields)


_rep = C.contract(
    PP, 'PrettyContext._replace', params={'self': 'Ctx', 'kwargs': 'KW'}, returns='Ctx',
    ensures=[(f, 'result.%s == (unwrapkw(kwargs, "%s") if haskw(kwargs, "%s") else self.%s)' % (f, f, f, f))
             for f in SLOTS if f not in ('visited', 'user_ctx')] +
            [('visited', 'implies(not haskw(kwargs, "visited"), result.visited == self.visited)'),
             ('visited-passed', 'implies(haskw(kwargs, "visited") and kwval(kwargs, "visited") is not None, '
                                'result.visited == unwrap(kwval(kwargs, "visited")))'),
             ('user_ctx', 'implies(not haskw(kwargs, "user_ctx") and map_truthy_(self.user_ctx), result.user_ctx == self.user_ctx)')],
    serves=['C10', 'C11', 'C13', 'C18'],
    note='keywords outside the seven fields cannot be represented in the symbolic keyword map (the assert in the body rejects them)')
_rep.kwparam = 'kwargs'
_rep.kw_universe = dict(FIELDS)

C.contract(PP, 'PrettyContext.nested_call', params={'self': 'Ctx'}, returns='Ctx',
           ensures=[('depth', 'result.depth_left == self.depth_left - 1'),
                    ('rest', _same(['indent', 'visited', 'multiline_strategy', 'max_seq_len', 'sort_dict_keys']))],
           serves=['C10', 'C11', 'C13'])
C.contract(PP, 'PrettyContext.use_multiline_strategy', params={'self': 'Ctx', 'strategy': 'Strategy'}, returns='Ctx',
           ensures=[('strategy', 'result.multiline_strategy == strategy'),
                    ('rest', _same(['indent', 'depth_left', 'visited', 'max_seq_len', 'sort_dict_keys']))],
           serves=['C10', 'C11', 'C13'])
C.contract(PP, 'PrettyContext.assoc', params={'self': 'Ctx', 'key': 'PyObj', 'value': 'PyObj'}, returns='Ctx',
           ensures=[('rest', _same(['indent', 'depth_left', 'visited', 'multiline_strategy', 'max_seq_len', 'sort_dict_keys']))],
           serves=['C13'])


# contract-language helpers over the keyword map
def _b_haskw(I, args, kwargs, node):
    kw, name = args
    p = kw.fields[name][0]
    return p


def _b_kwval(I, args, kwargs, node):
    kw, name = args
    return kw.fields[name][1]


def _b_unwrapkw(I, args, kwargs, node):
    kw, name = args
    return kw.fields[name][1]


def _b_map_truthy(I, args, kwargs, node):
    return map_truthy(args[0])


_interp.BUILTINS['haskw'] = _b_haskw
_interp.BUILTINS['kwval'] = _b_kwval
_interp.BUILTINS['unwrapkw'] = _b_unwrapkw
_interp.BUILTINS['map_truthy_'] = _b_map_truthy

U.method_hooks = {
    ('Ctx', '_replace'): lambda I, obj, args, kwargs, node: I.call_contract(_rep, [obj] + list(args), kwargs, None),
}

C.assume('a falsy user_ctx ({} or None) is replaced by a new empty dict by the constructor: equality of user_ctx is only claimed '
         'for a truthy one; the identity of dict objects is not modelled')
C.assume('PrettyContext.__slots__ in the source is the field list of the contracts (checked on every run by check_slots)')

PRECHECKS = [check_slots]
