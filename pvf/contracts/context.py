"""Family `context` (C10, C11, C13, C18): PrettyContext - the object that carries indent / depth / max_seq_len /
sort_dict_keys / the visited set down the recursion.  _replace is verified for EVERY subset of passed fields and all
values (the keyword map is symbolic: a presence flag and a value per field)."""
import ast
import z3
from pvf.pyvc.universe import Universe
from pvf.pyvc.contract import ContractSet
from pvf.pyvc.interp import OutsideSubset, SymRaise, FuncVal, KwMap, is_z3
from pvf.pyvc import interp as _interp

U = Universe('context')
U.uninterpreted('SetRef')        # the visited set object (identity matters: derived contexts must share it)
U.uninterpreted('Strategy')      # multiline strategy constants
U.uninterpreted('MapVal')        # user_ctx dict value
U.uninterpreted('PyObj')         # arbitrary key / value for assoc
U.declare({
    'Depth': ('data', [('Inf', []), ('Fin', [('n', 'Int')])]),           # float('inf') or an int
    'OptInt': ('data', [('NoInt', []), ('SomeInt', [('v', 'Int')])]),
    'OptSet': ('data', [('NoSet', []), ('SomeSet', [('v', 'SetRef')])]),
    'OptMap': ('data', [('NoMap', []), ('SomeMap', [('v', 'MapVal')])]),
    'Ctx': ('record', [('indent', 'Int'), ('depth_left', 'Depth'), ('visited', 'SetRef'), ('multiline_strategy', 'Strategy'),
                       ('max_seq_len', 'OptInt'), ('sort_dict_keys', 'Bool'), ('user_ctx', 'MapVal')]),
})
U.options = {'OptInt': 'Int', 'OptSet': 'SetRef', 'OptMap': 'MapVal'}
FIELDS = {'indent': 'Int', 'depth_left': 'Depth', 'visited': 'OptSet', 'multiline_strategy': 'Strategy',
          'max_seq_len': 'OptInt', 'sort_dict_keys': 'Bool', 'user_ctx': 'OptMap'}        # constructor parameter sorts
SLOTS = ('indent', 'depth_left', 'visited', 'multiline_strategy', 'max_seq_len', 'sort_dict_keys', 'user_ctx')
U.consts['MULTILINE_STRATEGY_PLAIN'] = z3.Const('MULTILINE_STRATEGY_PLAIN', U.sort('Strategy'))
EMPTY_MAP = z3.Const('EMPTY_MAP', U.sort('MapVal'))
map_truthy = z3.Function('map_truthy', U.sort('MapVal'), z3.BoolSort())
map_put = z3.Function('map_put', U.sort('MapVal'), U.sort('PyObj'), U.sort('PyObj'), U.sort('MapVal'))
U.truthy = {'MapVal': lambda v: map_truthy(v)}

C = ContractSet(U, 'context')
PP = 'prettyprinter.prettyprinter'


@C.spec([('s', 'SetRef')], 'Bool', opaque=True)
def fresh_set(s):
    """s is a set object created by this call"""
    return True


@C.spec([('m', 'MapVal'), ('k', 'PyObj'), ('v', 'PyObj')], 'MapVal', opaque=True)
def put(m, k, v):
    return {**m, k: v}


# ---- hooks ----------------------------------------------------------------------------------------
def _binop(I, op, a, b):
    if isinstance(op, (ast.Add, ast.Sub)) and is_z3(a) and I.sort_of(a) == 'OptDepth':
        a = I.coerce(a, 'Depth')          # an int depth (None raises TypeError)
    if isinstance(op, ast.Add) and is_z3(a) and I.sort_of(a) == 'Depth':
        n = U.acc('Depth', 'Fin', 'n')(a)
        return z3.If(U.is_('Depth', 'Inf', a), a, U.ctor('Depth', 'Fin')(n + I.coerce(b, 'Int')))
    if isinstance(op, ast.Sub) and is_z3(a) and I.sort_of(a) == 'Depth':
        # inf - 1 == inf ; n - 1
        D = U.sort('Depth')
        n = U.acc('Depth', 'Fin', 'n')(a)
        return z3.If(U.is_('Depth', 'Inf', a), a, U.ctor('Depth', 'Fin')(n - I.coerce(b, 'Int')))
    return None


U.binop_hook = _binop


def _opaque_attr(I, obj, attr):
    if obj[1] == 'type' and attr == '__slots__':
        return SLOTS          # cross-checked against the class source by check_slots()
    raise OutsideSubset('attribute %s of %r' % (attr, obj[1]))


U.opaque_attr = _opaque_attr
_interp.BUILTINS.setdefault('type', lambda I, args, kwargs, node: ('opaque', 'type', args[0]))


def _new_set(I):
    s = I.fresh('SetRef', 'newset')
    I.assume(I.call_spec(C.specs['fresh_set'], [s], {}))
    if 'newvisited_' in I.env:
        I.env['newvisited_'] = s          # ghost of python_to_sdocs: the set created for this call
    return s


U.new_set_hook = _new_set


def _dict_hook(I, node):
    """{} and {**m, k: v}"""
    if not node.keys:
        return EMPTY_MAP
    if len(node.keys) == 2 and node.keys[0] is None:
        m = I.ev(node.values[0])
        k, v = I.ev(node.keys[1]), I.ev(node.values[1])
        return I.call_spec(C.specs['put'], [m, k, v], {})
    raise OutsideSubset('dict display shape')


U.dict_hook = _dict_hook


def check_slots():
    """the field list the contracts use is the __slots__ of the class in the source (2.4)"""
    from pvf.pyvc.run import module_ast
    src, tree = module_ast(PP)
    for n in tree.body:
        if isinstance(n, ast.ClassDef) and n.name == 'PrettyContext':
            for st in n.body:
                if isinstance(st, ast.Assign) and isinstance(st.targets[0], ast.Name) and st.targets[0].id == '__slots__':
                    got = tuple(ast.literal_eval(st.value))
                    return got == SLOTS, got
    return False, None


# ---- contracts -----------------------------------------------------------------------------------
_init = C.contract(
    PP, 'PrettyContext.__init__',
    params={'self': 'Ctx', 'indent': 'Int', 'depth_left': 'Depth', 'visited': 'OptSet', 'multiline_strategy': 'Strategy',
            'max_seq_len': 'OptInt', 'sort_dict_keys': 'Bool', 'user_ctx': 'OptMap'},
    modifies=['self'],
    ensures=[('indent', 'self.indent == indent'), ('depth_left', 'self.depth_left == depth_left'),
             ('strategy', 'self.multiline_strategy == multiline_strategy'), ('max_seq_len', 'self.max_seq_len == max_seq_len'),
             ('sort', 'self.sort_dict_keys == sort_dict_keys'),
             ('visited-given', 'implies(visited is not None, self.visited == unwrap(visited))'),
             ('visited-fresh', 'implies(visited is None, fresh_set(self.visited))'),
             ('user_ctx', 'implies(user_ctx is not None and map_truthy_(unwrap(user_ctx)), self.user_ctx == unwrap(user_ctx))')],
    serves=['C10', 'C11', 'C13', 'C18'])
_init.defaults = {'visited': None, 'multiline_strategy': U.consts['MULTILINE_STRATEGY_PLAIN'], 'max_seq_len': 1000,
                  'sort_dict_keys': False, 'user_ctx': None}


def _construct(I, args, kwargs):
    """PrettyContext(...): a new object whose fields are what __init__ assigns"""
    self0 = I.fresh('Ctx', 'newctx')
    I.env['__newctx'] = self0
    node = ast.parse('f(__newctx)').body[0].value          # so that the modified self is written back to a variable
    I.call_contract(_init, [self0] + list(args), kwargs, node)
    ctx = I.env.pop('__newctx')
    if 'newuserctx_' in I.env:
        I.env['newuserctx_'] = U.rget('Ctx', 'user_ctx', ctx)      # ghost of python_to_sdocs: the dict the constructor made
    return ctx


U.class_hooks = {'PrettyContext': _construct}
U.classmap['PrettyContext'] = ('Ctx', 'Ctx_mk')


def _same(fields):
    return ' and '.join('result.%s == self.%s' % (f, f) for f in fields)


_rep = C.contract(
    PP, 'PrettyContext._replace', params={'self': 'Ctx', 'kwargs': 'KW'}, returns='Ctx',
    ensures=[(f, 'result.%s == (unwrapkw(kwargs, "%s") if haskw(kwargs, "%s") else self.%s)' % (f, f, f, f))
             for f in SLOTS if f not in ('visited', 'user_ctx')] +
            [('visited', 'implies(not haskw(kwargs, "visited"), result.visited == self.visited)'),
             ('visited-passed', 'implies(haskw(kwargs, "visited") and kwval(kwargs, "visited") is not None, '
                                'result.visited == unwrap(kwval(kwargs, "visited")))'),
             ('user_ctx', 'implies(not haskw(kwargs, "user_ctx") and map_truthy_(self.user_ctx), result.user_ctx == self.user_ctx)')],
    serves=['C10', 'C11', 'C13', 'C18'],
    note='keywords outside the seven fields cannot be represented in the symbolic keyword map (the assert in the body rejects them)')
_rep.kwparam = 'kwargs'
_rep.kw_universe = dict(FIELDS)

C.contract(PP, 'PrettyContext.nested_call', params={'self': 'Ctx'}, returns='Ctx',
           ensures=[('depth', 'result.depth_left == self.depth_left - 1'),
                    ('rest', _same(['indent', 'visited', 'multiline_strategy', 'max_seq_len', 'sort_dict_keys']))],
           serves=['C10', 'C11', 'C13'])
C.contract(PP, 'PrettyContext.use_multiline_strategy', params={'self': 'Ctx', 'strategy': 'Strategy'}, returns='Ctx',
           ensures=[('strategy', 'result.multiline_strategy == strategy'),
                    ('rest', _same(['indent', 'depth_left', 'visited', 'max_seq_len', 'sort_dict_keys']))],
           serves=['C10', 'C11', 'C13'])
C.contract(PP, 'PrettyContext.assoc', params={'self': 'Ctx', 'key': 'PyObj', 'value': 'PyObj'}, returns='Ctx',
           ensures=[('rest', _same(['indent', 'depth_left', 'visited', 'multiline_strategy', 'max_seq_len', 'sort_dict_keys']))],
           serves=['C13'])


# contract-language helpers over the keyword map
def _b_haskw(I, args, kwargs, node):
    kw, name = args
    p = kw.fields[name][0]
    return p


def _b_kwval(I, args, kwargs, node):
    kw, name = args
    return kw.fields[name][1]


def _b_unwrapkw(I, args, kwargs, node):
    kw, name = args
    return kw.fields[name][1]


def _b_map_truthy(I, args, kwargs, node):
    return map_truthy(args[0])


_interp.BUILTINS['haskw'] = _b_haskw
_interp.BUILTINS['kwval'] = _b_kwval
_interp.BUILTINS['unwrapkw'] = _b_unwrapkw
_interp.BUILTINS['map_truthy_'] = _b_map_truthy

U.method_hooks = {
    ('Ctx', '_replace'): lambda I, obj, args, kwargs, node: I.call_contract(_rep, [obj] + list(args), kwargs, None),
}

# ---- python_to_sdocs: how the settings reach the printers (C03 C10 C11 C13 C18) -----------------------------------------
U.uninterpreted('PyVal')
U.uninterpreted('DocV')
U.uninterpreted('SDocsV')
U.uninterpreted('FloatV')
U.declare({'OptDepth': ('data', [('NoDepth', []), ('SomeDepth', [('v', 'Int')])])})
U.options['OptDepth'] = 'Int'


@C.spec([('value', 'PyVal'), ('ctx', 'Ctx')], 'DocV', opaque=True)
def doc_of(value, ctx):
    """pretty_python_value(value, ctx)"""
    return None


@C.spec([('d', 'DocV')], 'DocV', opaque=True)
def top_comment(d):
    """the top-level wrapper of a commented document (comment at the end of the line, or above the value)"""
    return None


@C.spec([('d', 'DocV')], 'Bool', opaque=True)
def commented(d):
    return True


@C.spec([('d', 'DocV'), ('width', 'Int'), ('frac', 'FloatV')], 'SDocsV', opaque=True)
def smart_layout(d, width, frac):
    """layout_smart(d, width=width, ribbon_frac=frac)"""
    return None


@C.spec([('ribbon_width', 'Int'), ('width', 'Int')], 'FloatV', opaque=True)
def frac_of(ribbon_width, width):
    """min(1.0, ribbon_width / width)"""
    return None


def _ppv(I, args, kwargs, node):
    if len(args) != 1 or set(kwargs) != {'ctx'}:
        raise OutsideSubset('pretty_python_value call shape')
    return I.call_spec(C.specs['doc_of'], [I.coerce(args[0], 'PyVal'), I.coerce(kwargs['ctx'], 'Ctx')], {})


def _is_commented(I, args, kwargs, node):
    return I.call_spec(C.specs['commented'], [args[0]], {})


def _layout_smart(I, args, kwargs, node):
    if len(args) != 1 or set(kwargs) != {'width', 'ribbon_frac'}:
        raise OutsideSubset('layout_smart call shape')
    return I.call_spec(C.specs['smart_layout'], [args[0], I.coerce(kwargs['width'], 'Int'), kwargs['ribbon_frac']], {})


def _top_wrapper(I, args, kwargs, node):
    """group(flat_choice(when_flat=concat([doc, '  ', commentdoc(c)]), when_broken=concat([commentdoc(c), HARDLINE, doc]))): the
    builders are external here; the wrapper is a function of the commented document"""
    return ('opaque', 'docbuild', args, tuple(sorted(kwargs.items(), key=lambda kv: kv[0])))


def _group(I, args, kwargs, node):
    # the only group built in python_to_sdocs: the top-level comment wrapper around `doc`
    return I.call_spec(C.specs['top_comment'], [I.env['doc']], {})


_float_inf = z3.Const('FLOAT_INF_DEPTH', U.sort('Depth'))


def _b_float(I, args, kwargs, node):
    if I.U is U and args == ['inf']:
        return U.ctor('Depth', 'Inf')()
    raise OutsideSubset('float() call')


_prev_float = _interp.BUILTINS.get('float')
_interp.BUILTINS['float'] = lambda I, a, k, n: _b_float(I, a, k, n) if (I.U is U or _prev_float is None) else _prev_float(I, a, k, n)
_prev_min = _interp.BUILTINS.get('min')


def _b_min(I, args, kwargs, node):
    if I.U is U and len(args) == 2 and isinstance(args[1], tuple) and args[1][:1] == ('ratio',):
        return I.call_spec(C.specs['frac_of'], [args[1][1], args[1][2]], {})
    return _prev_min(I, args, kwargs, node)


_interp.BUILTINS['min'] = _b_min
_prev_binop = U.binop_hook


def _binop2(I, op, a, b):
    if isinstance(op, ast.Div) and is_z3(a) and is_z3(b) and I.sort_of(a) == 'Int' and I.sort_of(b) == 'Int':
        return ('ratio', a, b)
    return _prev_binop(I, op, a, b)


U.binop_hook = _binop2
C.extern = getattr(C, 'extern', {})
C.extern[PP] = {
    'pretty_python_value': FuncVal('hook', 'pretty_python_value', _ppv),
    'is_commented': FuncVal('hook', 'is_commented', _is_commented),
    'layout_smart': FuncVal('hook', 'layout_smart', _layout_smart),
    'group': FuncVal('hook', 'group', _group),
    'flat_choice': FuncVal('hook', 'flat_choice', _top_wrapper),
    'concat': FuncVal('hook', 'concat', _top_wrapper),
    'commentdoc': FuncVal('hook', 'commentdoc', _top_wrapper),
}
U.consts['HARDLINE'] = z3.Const('HARDLINE_DOC', U.sort('DocV'))


def _opaque_attr2(I, obj, attr):
    if obj[1] == 'type' and attr == '__slots__':
        return SLOTS
    raise OutsideSubset('attribute %s of %r' % (attr, obj[1]))


def _docv_attr(I, base):
    return ('opaque', 'annotation', base)


U.attr_hooks = dict(getattr(U, 'attr_hooks', {}))
U.attr_hooks[('DocV', 'annotation')] = _docv_attr
_prev_opaque_attr = U.opaque_attr


def _opaque_attr3(I, obj, attr):
    if obj[1] == 'annotation' and attr == 'value':
        return ('opaque', 'comment-text', obj[2])
    return _prev_opaque_attr(I, obj, attr)


U.opaque_attr = _opaque_attr3

_CTX0 = ('Ctx(indent, (Inf if depth is None else Fin(unwrap(depth))), newvisited_, MULTILINE_STRATEGY_PLAIN, max_seq_len, sort_dict_keys, '
         'newuserctx_)')
_p2s = C.contract(
    PP, 'python_to_sdocs',
    params={'value': 'PyVal', 'indent': 'Int', 'width': 'Int', 'depth': 'OptDepth', 'ribbon_width': 'Int', 'max_seq_len': 'OptInt',
            'sort_dict_keys': 'Bool'},
    returns='SDocsV',
    ghost={'newvisited_': ('SetRef', 'GHOST_SET'), 'newuserctx_': ('MapVal', 'GHOST_MAP')},
    ensures=[('settings-reach-the-printers-unchanged',
              'result == smart_layout((top_comment(doc_of(value, %s)) if commented(doc_of(value, %s)) else doc_of(value, %s)), '
              'width, frac_of(ribbon_width, width))' % (_CTX0, _CTX0, _CTX0)),
             ('fresh-visited-set', 'fresh_set(newvisited_)')],
    serves=['C03', 'C10', 'C11', 'C13', 'C18'],
    note='width and ribbon_width reach only the layout call; indent, depth (None = unlimited), max_seq_len and sort_dict_keys reach the '
         'printers through the initial context exactly as given; every call starts with a new visited set')
def _optdepth_to_depth(I, v):
    """an int depth used as depth_left (None has been replaced by inf before)"""
    some = U.is_('OptDepth', 'SomeDepth', v)
    if not I.pure and not I.choose_bool(some, '@depth is an int'):
        raise SymRaise('TypeError', 'None as depth_left')
    return U.ctor('Depth', 'Fin')(U.acc('OptDepth', 'SomeDepth', 'v')(v))


U.coerce_hooks = {('OptDepth', 'Depth'): _optdepth_to_depth,
                  ('Int', 'Depth'): lambda I, v: U.ctor('Depth', 'Fin')(v)}        # an int used as depth_left
U.consts['GHOST_SET'] = z3.Const('GHOST_SET', U.sort('SetRef'))
U.consts['GHOST_MAP'] = z3.Const('GHOST_MAP', U.sort('MapVal'))
U.consts['Inf'] = U.ctor('Depth', 'Inf')()
U.classmap['Fin'] = ('Depth', 'Fin')

C.assume('a falsy user_ctx ({} or None) is replaced by a new empty dict by the constructor: equality of user_ctx is only claimed '
         'for a truthy one; the identity of dict objects is not modelled')
C.assume('PrettyContext.__slots__ in the source is the field list of the contracts (checked on every run by check_slots)')

PRECHECKS = [check_slots]
