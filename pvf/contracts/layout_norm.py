"""Family `normalize`: normalize_doc and the normalize methods of doctypes.py against the properties the layout
family uses about normalisation (lemma_norm_* there).  Proved by mutual recursion on (rank(doc), 1) / (rank(self), 0).

Shares the universe and the spec functions of the layout family; uses only lemmas PROVED there (none of the trusted
norm lemmas - that would be circular).
"""
import copy
from pvf.pyvc.contract import ContractSet, Clause
from .layout import C as CL, U, DOCTYPES
from . import layout_den  # noqa: F401  (defines den & co. in CL.specs)

C = ContractSet(U, 'normalize')
C.specs = CL.specs                      # same spec functions (same z3 declarations)
_spec = CL.spec                         # new spec functions are visible to both families


# ---- lists built by append / extend ----------------------------------------------------------------
@_spec([('xs', 'ObjList'), ('ys', 'ObjList')], 'ObjList')
def app(xs, ys):
    """xs + ys"""
    if not xs:
        return ys
    return cons(xs[0], app(xs[1:], ys))


U.append_idiom = lambda I, sn, xs, ys: I.call_spec(CL.specs['app'], [xs, ys], {})


# ---- lemmas over app (each by induction on xs) -------------------------------------------------------
def _app_lemma(name, ensures, extra=()):
    src = 'def %s(xs, ys%s):\n    if not xs:\n        return\n    %s(xs[1:], ys%s)\n' % (
        name, ''.join(', ' + e for e in extra), name, ''.join(', ' + e for e in extra))
    return src


_L = C.lemma


@_L([('xs', 'ObjList'), ('ys', 'ObjList')],
    ensures=['wflist(app(xs, ys)) == (wflist(xs) and wflist(ys))',
             'sizelist(app(xs, ys)) == sizelist(xs) + sizelist(ys)',
             'len(app(xs, ys)) == len(xs) + len(ys)',
             'nrm_ab_list(app(xs, ys)) == (nrm_ab_list(xs) or nrm_ab_list(ys))',
             'nrm_nil_list(app(xs, ys)) == (nrm_nil_list(xs) and nrm_nil_list(ys))',
             'hlsafe_list(app(xs, ys)) == (hlsafe_list(xs) and hlsafe_list(ys))',
             'nohl_list(app(xs, ys)) == (nohl_list(xs) and nohl_list(ys))',
             'reach_ab_list(app(xs, ys)) == (reach_ab_list(xs) or reach_ab_list(ys))',
             'fillclean_list(app(xs, ys)) == (fillclean_list(xs) and fillclean_list(ys))',
             'no_nil_item(app(xs, ys)) == (no_nil_item(xs) and no_nil_item(ys))',
             'fill_any_ab(app(xs, ys)) == (fill_any_ab(xs) or fill_any_ab(ys))',
             'fill_all_nil(app(xs, ys)) == (fill_all_nil(xs) and fill_all_nil(ys))',
             'itemsok(app(xs, ys)) == (itemsok(xs) and itemsok(ys))'],
    triggers=['app(xs, ys)'], decreases=['len(xs)'])
def lemma_app_props(xs, ys):
    if not xs:
        return
    lemma_app_props(xs[1:], ys)


@_L([('i', 'Int'), ('m', 'Mode'), ('xs', 'ObjList'), ('ys', 'ObjList'), ('st', 'St')],
    ensures=['denlist(i, m, app(xs, ys), st) == denlist(i, m, ys, denlist(i, m, xs, st))'],
    triggers=['denlist(i, m, app(xs, ys), st)'], decreases=['len(xs)'])
def lemma_app_denlist(i, m, xs, ys, st):
    if not xs:
        return
    lemma_app_denlist(i, m, xs[1:], ys, den(i, m, xs[0], st))


@_L([('d', 'Obj')], ensures=['implies(nrm_ab(d), reach_ab(d))'], triggers=['nrm_ab(d)'], decreases=['rank(d)'], group='abreach')
def lemma_nrm_ab_reach(d):
    if isinstance(d, Concat):
        lemma_nrm_ab_reach_list(d.docs)
    elif isinstance(d, Nest):
        lemma_nrm_ab_reach(d.doc)
    elif isinstance(d, Group):
        lemma_nrm_ab_reach(d.doc)
    elif isinstance(d, Fill):
        lemma_fill_ab_reach(d.docs)


@_L([('ds', 'ObjList')], ensures=['implies(nrm_ab_list(ds), reach_ab_list(ds))'], triggers=['nrm_ab_list(ds)'],
    decreases=['rank(ds)'], group='abreach')
def lemma_nrm_ab_reach_list(ds):
    if not ds:
        return
    lemma_nrm_ab_reach(ds[0])
    lemma_nrm_ab_reach_list(ds[1:])


@_L([('d', 'Obj')], ensures=['implies(nrm_nil(d), not reach_ab(d))'], triggers=['nrm_nil(d)'], decreases=['rank(d)'], group='nilreach')
def lemma_nil_noreach(d):
    if isinstance(d, Concat):
        lemma_nil_noreach_list(d.docs)
    elif isinstance(d, Group):
        lemma_nil_noreach(d.doc)
    elif isinstance(d, Fill):
        lemma_fillnil_noreach(d.docs)


@_L([('ds', 'ObjList')], ensures=['implies(nrm_nil_list(ds), not reach_ab_list(ds))'], triggers=['nrm_nil_list(ds)'],
    decreases=['rank(ds)'], group='nilreach')
def lemma_nil_noreach_list(ds):
    if not ds:
        return
    lemma_nil_noreach(ds[0])
    lemma_nil_noreach_list(ds[1:])


@_L([('ds', 'ObjList')], ensures=['implies(fill_all_nil(ds), not reach_ab_list(ds))'], triggers=['fill_all_nil(ds)'],
    decreases=['rank(ds)'], group='nilreach')
def lemma_fillnil_noreach(ds):
    if not ds:
        return
    lemma_fillnil_noreach(ds[1:])


@_L([('ds', 'ObjList')], ensures=['implies(fill_any_ab(ds), nrm_ab_list(ds))'], triggers=['fill_any_ab(ds)'],
    decreases=['rank(ds)'])
def lemma_ab_item_nrm(ds):
    if not ds:
        return
    lemma_ab_item_nrm(ds[1:])


@_L([('ds', 'ObjList')], ensures=['implies(fill_any_ab(ds), reach_ab_list(ds))'], triggers=['fill_any_ab(ds)'],
    decreases=['rank(ds)'], group='abreach')
def lemma_fill_ab_reach(ds):
    if not ds:
        return
    lemma_fill_ab_reach(ds[1:])


# lemmas proved in the layout family that the normalisation proofs may use
for _name in ('lemma_size_pos', 'lemma_sizelist_nonneg', 'lemma_nil_mode', 'lemma_nil_mode_list', 'lemma_denfill_mode'):
    _l = copy.copy([l for l in CL.lemmas if l.name == _name][0])
    _l.trusted = True
    _l.note = 'proved in family layout'
    _l.index = len(C.lemmas)
    _l.group = None
    C.lemmas.append(_l)

# ---- the normalisation contract ------------------------------------------------------------------------


def _norm_ensures(X):
    return [
        ('wf', 'wf(result)'),
        ('cls-ab', 'isinstance(result, AlwaysBreak) == nrm_ab(%s)' % X),
        ('cls-nil', '(result is NIL) == nrm_nil(%s)' % X),
        ('nf-ab', 'implies(not isinstance(result, AlwaysBreak), not nrm_ab(result))'),
        ('nf-nil', 'implies(result is not NIL, not nrm_nil(result))'),
        ('nf-ab-inner', 'implies(isinstance(result, AlwaysBreak), not isinstance(result.doc, AlwaysBreak))'),
        ('nf-concat', 'implies(isinstance(result, Concat), not nrm_ab_list(result.docs) and not nrm_nil_list(result.docs))'),
        ('den', 'implies(flatok(m_, %s) and fillclean(%s), den(i_, m_, result, st_) == den(i_, m_, %s, st_))' % (X, X, X)),
        ('hlsafe', 'implies(hlsafe(%s), hlsafe(result))' % X),
        ('nohl', 'implies(nohl(%s), nohl(result))' % X),
        ('reach', 'reach_ab(result) == reach_ab(%s)' % X),
        ('flatok', 'implies(flatok(FLAT_MODE, %s), flatok(FLAT_MODE, result))' % X),
        ('fillclean', 'implies(fillclean(%s), fillclean(result))' % X),
        # C05 (lemma_norm_atoms of family layout): the atoms are returned as they are; the empty text becomes NIL
        ('atoms', 'implies(%s is NIL or %s is HARDLINE or (isinstance(%s, str) and len(%s) > 0), result == %s)' % (X, X, X, X, X)),
        ('empty', 'implies(isinstance(%s, str) and len(%s) == 0, result is NIL)' % (X, X)),
    ]


_Q = dict(i_='Int', m_='Mode', st_='St')
_SERVES = ['C04', 'C05', 'C06', 'C12']

_nd = C.contract(DOCTYPES, 'normalize_doc', params={'doc': 'Obj'}, returns='Obj', requires=['wf(doc)'],
                 ensures=_norm_ensures('doc'), forall=dict(_Q), decreases=['rank(doc)', '1'], serves=_SERVES,
                 defines=[('norm', 'result == norm(doc)')])
_nd.rec_group = 'norm'

# the virtual call doc.normalize(): every class's method satisfies the same contract
_virt = C.proto('Doc.normalize', params={'self': 'Obj'}, returns='Obj',
                requires=['wf(self)', 'not isinstance(self, str)'],
                ensures=_norm_ensures('self'), forall=dict(_Q), decreases=['rank(self)', '0'])
_virt.rec_group = 'norm'
U.method_hooks = dict(getattr(U, 'method_hooks', {}))
U.method_hooks[('Obj', 'normalize')] = lambda I, obj, args, kwargs, node: I.call_contract(_virt, [obj], {}, None)


def _method(cls, extra_requires=(), loops=None, locals_=None):
    c = C.contract(DOCTYPES, cls + '.normalize', params={'self': 'Obj'}, returns='Obj',
                   requires=['wf(self)'] + list(extra_requires),
                   ensures=_norm_ensures('self'), forall=dict(_Q), decreases=['rank(self)', '0'],
                   loops=loops, locals_=locals_, serves=_SERVES)
    c.rec_group = 'norm'
    return c


_method('Doc', ['self is NIL or self is HARDLINE or isinstance(self, Contextual)'])
_method('Annotated', ['isinstance(self, Annotated)'])
_method('Nest', ['isinstance(self, Nest)'])
_method('Group', ['isinstance(self, Group)'])
_method('AlwaysBreak', ['isinstance(self, AlwaysBreak)'])
_method('FlatChoice', ['isinstance(self, FlatChoice)'])

_COND = 'm_ is BREAK_MODE or not reach_ab_list(self.docs)'
_method('Concat', ['isinstance(self, Concat)'], locals_={'normalized_docs': 'ObjList'}, loops={0: dict(
    rest='rest', forall=dict(_Q),
    inv=[('wf', 'wflist(normalized_docs) and wflist(rest)'),
         ('pb-nonempty', 'implies(propagate_broken, not (not normalized_docs))'),
         ('rank', 'rank(rest) <= rank(self.docs)'),
         ('ab', 'nrm_ab_list(self.docs) == (propagate_broken or nrm_ab_list(rest))'),
         ('no-ab-item', 'propagate_broken or not nrm_ab_list(normalized_docs)'),
         ('no-ab-root', 'not fill_any_ab(normalized_docs)'),
         ('nil', 'nrm_nil_list(self.docs) == ((not normalized_docs) and nrm_nil_list(rest))'),
         ('nonnil', 'propagate_broken or (not normalized_docs) or not nrm_nil_list(normalized_docs)'),
         ('den', 'implies((%s) and fillclean_list(self.docs), denlist(i_, m_, rest, denlist(i_, m_, normalized_docs, st_)) '
                 '== denlist(i_, m_, self.docs, st_))' % _COND),
         ('hlsafe', 'implies(hlsafe_list(self.docs), hlsafe_list(normalized_docs) and hlsafe_list(rest))'),
         ('nohl', 'implies(nohl_list(self.docs), (propagate_broken or nohl_list(normalized_docs)) and nohl_list(rest))'),
         ('reach', 'reach_ab_list(self.docs) == (propagate_broken or reach_ab_list(normalized_docs) or reach_ab_list(rest))'),
         ('reach-rest', 'implies(reach_ab_list(rest), reach_ab_list(self.docs))'),
         ('noreach', 'implies(not reach_ab_list(self.docs), not reach_ab_list(normalized_docs) and not propagate_broken)'),
         ('fillclean', 'implies(fillclean_list(self.docs), fillclean_list(normalized_docs) and fillclean_list(rest))')],
)})

C.assume('normalisation is verified on values: the FlatChoice objects it returns are fresh, the lists it builds are local '
         '(alias freedom of normalized_docs is syntactic: one name, never stored elsewhere before the constructor call)')


# ---- Fill.normalize ---------------------------------------------------------------------------------
@_L([('xs', 'ObjList'), ('ys', 'ObjList')], ensures=['implies(not ys, app(xs, ys) == xs)'], triggers=['app(xs, ys)'],
    decreases=['len(xs)'])
def lemma_app_nil(xs, ys):
    if not xs:
        return
    lemma_app_nil(xs[1:], ys)


@_L([('xs', 'ObjList'), ('ys', 'ObjList'), ('zs', 'ObjList')], ensures=['app(app(xs, ys), zs) == app(xs, app(ys, zs))'],
    triggers=['app(app(xs, ys), zs)'], decreases=['len(xs)'])
def lemma_app_assoc(xs, ys, zs):
    if not xs:
        return
    lemma_app_assoc(xs[1:], ys, zs)


_method('Fill', ['isinstance(self, Fill)'], locals_={'normalized_docs': 'ObjList'}, loops={0: dict(
    rest='rest',
    inv=[('wf', 'wflist(normalized_docs) and wflist(rest)'),
         ('ab', 'fill_any_ab(self.docs) == (propagate_broken or fill_any_ab(rest))'),
         ('ab-kept', 'fill_any_ab(normalized_docs) == propagate_broken'),
         ('nil', 'fill_all_nil(self.docs) == ((not normalized_docs) and fill_all_nil(rest))'),
         ('no-nil', 'no_nil_item(normalized_docs)'),
         ('same', 'implies(no_nil_item(self.docs), app(normalized_docs, rest) == self.docs)'),
         ('hlsafe', 'implies(hlsafe_list(self.docs), hlsafe_list(normalized_docs) and hlsafe_list(rest))'),
         ('nohl', 'implies(nohl_list(self.docs), nohl_list(normalized_docs) and nohl_list(rest))'),
         ('itemsok', 'implies(itemsok(self.docs), itemsok(normalized_docs) and itemsok(rest))'),
         ('reach', 'reach_ab_list(self.docs) == (reach_ab_list(normalized_docs) or reach_ab_list(rest))'),
         ('fillclean', 'implies(fillclean_list(self.docs), fillclean_list(normalized_docs) and fillclean_list(rest))')],
)})

# ---- the lazy accessors of FlatChoice -------------------------------------------------------------------
for _name, _field in (('when_broken', '_when_broken'), ('when_flat', '_when_flat')):
    C.contract(DOCTYPES, 'FlatChoice.' + _name, params={'self': 'Obj'}, returns='Obj',
               requires=['isinstance(self, FlatChoice)', 'wf(self)'],
               ensures=[('cases', 'result == old(self).%s or result == norm(old(self).%s)' % (_field, _field)),
                        ('other-branch-kept', 'self.%s == old(self).%s' % (
                            '_when_flat' if _field == '_when_broken' else '_when_broken',
                            '_when_flat' if _field == '_when_broken' else '_when_broken'))],
               modifies=['self'], serves=_SERVES,
               note='the property getter: which branch it returns and when it normalises it (the cache fields it writes are '
                    'part of self; callers treat documents as values, see DESIGN 11.3)')
