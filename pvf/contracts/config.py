"""Family `config` (C18): the entry points and the configuration layers of prettyprinter/__init__.py.

For every value, every stream and EVERY combination of explicitly passed and defaulted settings (each setting is a
symbolic object that may or may not be the unset sentinel) and every state of the module-level defaults:

  pformat(v, ...)            returns  text(v, merged(explicit settings, defaults))
  pprint(v, stream, ...)     appends  text(v, merged(...)) + (end if end else '')   to the stream (sys.stdout if unset)
  cpprint(v, stream, ...)    appends  colored(sdocs_of(v, merged(...)), style) + end
  _merge_defaults            explicit arguments override the defaults, field by field
  set_default_config(...)    changes exactly the settings it is given and returns the new defaults
  get_default_config()       reports the current defaults
  pretty_repr(x)             is pformat(x) with every setting defaulted, when the type is registered

text(v, cfg) = render_text(sdocs_of(v, cfg)): python_to_sdocs and the renderers are external here (assumed contracts:
deterministic functions of their arguments - the purity part of C19 - and the renderer appends to its stream only).
Streams other than the local StringIO of pformat live in a ghost heap `__streams__` (object -> text written so far).
"""
import ast
import z3
from pvf.pyvc.universe import Universe
from pvf.pyvc.contract import ContractSet
from pvf.pyvc.interp import OutsideSubset, SymRaise, FuncVal, is_z3
from pvf.pyvc import interp as _interp

FIELDS = ('indent', 'width', 'ribbon_width', 'depth', 'max_seq_len', 'sort_dict_keys')     # key order of _default_config
SDOC_PARAMS = ('value', 'indent', 'width', 'depth', 'ribbon_width', 'max_seq_len', 'sort_dict_keys')

U = Universe('config')
U.uninterpreted('Val')          # any Python object: a setting, a stream, the printed value
U.uninterpreted('SDocs')
U.declare({
    'Cfg': ('record', [(f, 'Val') for f in FIELDS]),
    'LS': ('record', [('content', 'Str')]),                 # a local StringIO (value semantics: it never escapes)
})
U.dict_records = {'Cfg'}
_VAL_TRUTHY = z3.Function('val_truthy', U.sort('Val'), z3.BoolSort())
# bool(v) of an arbitrary setting is unrelated to `v is the sentinel`: a truthiness test where the identity test belongs fails its obligations
U.truthy = {'Val': lambda v: _VAL_TRUTHY(v)}
_VAL_LT = z3.Function('val_lt', U.sort('Val'), U.sort('Val'), z3.BoolSort())


def _order_hook(I, op, a, b):
    """ordering of two arbitrary settings: an uninterpreted relation (a clamp or a comparison in the configuration layer is
    explored, not rejected, and fails the postconditions that say the settings are stored / forwarded as given)"""
    if is_z3(a) and is_z3(b) and I.sort_of(a) == 'Val' and I.sort_of(b) == 'Val':
        if isinstance(op, ast.Lt):
            return _VAL_LT(a, b)
        if isinstance(op, ast.Gt):
            return _VAL_LT(b, a)
        if isinstance(op, ast.LtE):
            return z3.Not(_VAL_LT(b, a))
        return z3.Not(_VAL_LT(a, b))
    return None


U.order_hook = _order_hook
Heap = z3.ArraySort(U.sort('Val'), z3.StringSort())
U.sorts['Heap'] = Heap
UNSET = z3.Const('UNSET', U.sort('Val'))
STDOUT = z3.Const('STDOUT', U.sort('Val'))
U.consts['_UNSET_SENTINEL'] = UNSET
U.consts['STDOUT'] = STDOUT

C = ContractSet(U, 'config')
INIT = 'prettyprinter.__init__'
_G = {'_default_config': 'Cfg'}
_GS = {'_default_config': 'Cfg', '__streams__': 'Heap'}


@C.spec([('value', 'Val'), ('cfg', 'Cfg')], 'SDocs', opaque=True)
def sdocs_of(value, cfg):
    """python_to_sdocs(value, **cfg)"""
    raise NotImplementedError


@C.spec([('sdocs', 'SDocs')], 'Str', opaque=True)
def render_text(sdocs):
    """what default_render_to_stream writes"""
    raise NotImplementedError


@C.spec([('sdocs', 'SDocs'), ('style', 'Val')], 'Str', opaque=True)
def colored_text(sdocs, style):
    """what colored_render_to_stream writes"""
    raise NotImplementedError


@C.spec([('value', 'Val'), ('cfg', 'Cfg')], 'Str')
def text(value, cfg):
    return render_text(sdocs_of(value, cfg))


@C.spec([('a', 'Val'), ('d', 'Val')], 'Val')
def pick(a, d):
    """an explicit argument overrides the default"""
    if a is not _UNSET_SENTINEL:
        return a
    return d


@C.spec([('indent', 'Val'), ('width', 'Val'), ('depth', 'Val'), ('ribbon_width', 'Val'), ('max_seq_len', 'Val'),
         ('sort_dict_keys', 'Val'), ('dflt', 'Cfg')], 'Cfg')
def merged(indent, width, depth, ribbon_width, max_seq_len, sort_dict_keys, dflt):
    return Cfg(pick(indent, dflt.indent), pick(width, dflt.width), pick(ribbon_width, dflt.ribbon_width),
               pick(depth, dflt.depth), pick(max_seq_len, dflt.max_seq_len), pick(sort_dict_keys, dflt.sort_dict_keys))


@C.spec([('x', 'Val')], 'Bool', opaque=True)
def registered(x):
    """is_registered(type(x), check_superclasses=True, check_deferred=True, register_deferred=True)"""
    raise NotImplementedError


# ---- hooks: the Python the functions use --------------------------------------------------------
def _b_locals(I, args, kwargs, node):
    """locals() as the first statement of a function: its parameters"""
    names = getattr(I, 'argnames', None)
    if names is None:
        raise OutsideSubset('locals() outside a function under verification')
    for n in I.env:
        if n not in names and n not in (getattr(I.fn_contract, 'globals_', None) or {}) and not n.startswith('__'):
            raise OutsideSubset('locals() after a local variable (%s) was bound' % n)
    return {n: I.env[n] for n in names}


_interp.BUILTINS['locals'] = _b_locals


def _cfg_items(I, obj, args, kwargs, node):
    return tuple((f, z3.simplify(U.rget('Cfg', f, obj))) for f in FIELDS)


def _ls_getvalue(I, obj, args, kwargs, node):
    return U.rget('LS', 'content', obj)


def _val_write(I, obj, args, kwargs, node):
    """stream.write(s) on a heap stream"""
    s = I.coerce(args[0], 'Str')
    h = I.env['__streams__']
    I.env['__streams__'] = z3.Store(h, obj, z3.Concat(z3.Select(h, obj), s))
    return None


U.method_hooks = {('Cfg', 'items'): _cfg_items, ('LS', 'getvalue'): _ls_getvalue, ('Val', 'write'): _val_write}


def _setitem_cfg(I, base, slice_node, value):
    k = I.ev(slice_node)
    if not isinstance(k, str) or k not in FIELDS:
        raise OutsideSubset('store under a key outside the six settings (%r): the key set of the defaults would change' % (k,))
    return U.mk('Cfg', *[I.coerce(value, 'Val') if f == k else z3.simplify(U.rget('Cfg', f, base)) for f in FIELDS])


U.setitem_hooks = {'Cfg': _setitem_cfg}


def _dict_hook(I, node):
    """{**d}: a copy"""
    if len(node.keys) == 1 and node.keys[0] is None:
        d = I.ev(node.values[0])
        if is_z3(d) and I.sort_of(d) == 'Cfg':
            return d
    raise OutsideSubset('dict display shape')


U.dict_hook = _dict_hook
U.classmap['StringIO'] = ('LS', 'LS_mk')
U.class_hooks = {'StringIO': lambda I, args, kwargs: U.mk('LS', z3.StringVal(''))}


def _render_hook(colored):
    def hook(I, args, kwargs, node):
        stream, sdocs = args[0], args[1]
        if colored:
            style = kwargs.get('style', args[2] if len(args) > 2 else None)
            t = I.call_spec(C.specs['colored_text'], [sdocs, I.coerce(style, 'Val')], {})
        else:
            t = I.call_spec(C.specs['render_text'], [sdocs], {})
        if is_z3(stream) and I.sort_of(stream) == 'LS':
            tgt = node.args[0]
            if not isinstance(tgt, ast.Name):
                raise OutsideSubset('render into a stream that is not a variable')
            I.env[tgt.id] = U.mk('LS', z3.Concat(U.rget('LS', 'content', stream), t))
            return None
        h = I.env['__streams__']
        I.env['__streams__'] = z3.Store(h, stream, z3.Concat(z3.Select(h, stream), t))
        return None
    return hook


def _python_to_sdocs(I, args, kwargs, node):
    vals = dict(zip(SDOC_PARAMS, args))
    for k, v in kwargs.items():
        if k not in SDOC_PARAMS or k in vals:
            raise SymRaise('TypeError', 'python_to_sdocs() argument %s' % k)
        vals[k] = v
    for k in SDOC_PARAMS:
        if k not in vals:
            raise SymRaise('TypeError', 'python_to_sdocs() missing %s' % k)
    cfg = U.mk('Cfg', *[I.coerce(vals[f], 'Val') for f in FIELDS])
    return I.call_spec(C.specs['sdocs_of'], [I.coerce(vals['value'], 'Val'), cfg], {})


def _is_registered(I, args, kwargs, node):
    want = dict(check_superclasses=True, check_deferred=True, register_deferred=True)
    if kwargs != want or len(args) != 1 or not (isinstance(args[0], tuple) and args[0][:2] == ('opaque', 'type')):
        raise OutsideSubset('is_registered call shape')
    return I.call_spec(C.specs['registered'], [args[0][2]], {})


def _noop(I, args, kwargs, node):
    return None


def _identity_view(I, args, kwargs, node):
    return args[0]


def _object_repr(I, args, kwargs, node):
    return I.fresh('Str', 'object_repr')


C.extern = {INIT: {
    'default_render_to_stream': FuncVal('hook', 'default_render_to_stream', _render_hook(False)),
    'colored_render_to_stream': FuncVal('hook', 'colored_render_to_stream', _render_hook(True)),
    'python_to_sdocs': FuncVal('hook', 'python_to_sdocs', _python_to_sdocs),
    'is_registered': FuncVal('hook', 'is_registered', _is_registered),
    'set_default_style': FuncVal('hook', 'set_default_style', _noop),
    'MappingProxyType': FuncVal('hook', 'MappingProxyType', _identity_view),
}}
U.modules = {'sys': {'stdout': STDOUT}, 'warnings': {'warn': _noop}, 'object': {'__repr__': _object_repr}}
_interp.BUILTINS.setdefault('type', lambda I, args, kwargs, node: ('opaque', 'type', args[0]))


def _opaque_attr(I, obj, attr):
    if obj[1] == 'type' and attr in ('__name__', '__qualname__', '__module__'):
        return I.fresh('Str', 'tname')
    raise OutsideSubset('attribute %s on %r' % (attr, obj[1]))


U.opaque_attr = _opaque_attr
U.exc_lattice = {'UserWarning': 'Exception'}


# contract-language helpers over the stream heap
_interp.BUILTINS['hget'] = lambda I, args, kwargs, node: z3.Select(args[0], I.coerce(args[1], 'Val'))
_interp.BUILTINS['hput'] = lambda I, args, kwargs, node: z3.Store(args[0], I.coerce(args[1], 'Val'), I.coerce(args[2], 'Str'))

# ---- contracts ---------------------------------------------------------------------------------
_SET = ['indent', 'width', 'depth', 'ribbon_width', 'max_seq_len', 'sort_dict_keys']
_MERGED = 'merged(indent, width, depth, ribbon_width, max_seq_len, sort_dict_keys, _default_config)'
_UNSETS = {k: UNSET for k in _SET}

_md = C.contract(INIT, '_merge_defaults', params={k: 'Val' for k in _SET}, returns='Cfg',
                 ensures=[('merge', 'result == ' + _MERGED)] +
                         [(f, 'result.%s == (%s if %s is not _UNSET_SENTINEL else _default_config.%s)' % (f, f, f, f)) for f in FIELDS],
                 serves=['C18'])
_md.globals_ = dict(_G)

_pf = C.contract(INIT, 'pformat', params=dict(object='Val', indent='Val', width='Val', depth='Val', ribbon_width='Val',
                                             max_seq_len='Val', compact='Val', sort_dict_keys='Val'),
                 returns='Str',
                 ensures=[('text', 'result == text(object, %s)' % _MERGED)],
                 serves=['C18'])
_pf.globals_ = dict(_G)
_pf.defaults = dict(_UNSETS, compact=UNSET)

_TGT = '(STDOUT if stream is _UNSET_SENTINEL else stream)'
_pp = C.contract(INIT, 'pprint', params=dict(object='Val', stream='Val', indent='Val', width='Val', depth='Val', compact='Val',
                                            ribbon_width='Val', max_seq_len='Val', sort_dict_keys='Val', end='Str'),
                 modifies=['__streams__'],
                 ensures=[('writes-pformat-then-end',
                           '__streams__ == hput(old(__streams__), %s, hget(old(__streams__), %s) + text(object, %s) + (end if end else ""))'
                           % (_TGT, _TGT, _MERGED))],
                 serves=['C18'])
_pp.globals_ = dict(_GS)

_cp = C.contract(INIT, 'cpprint', params=dict(object='Val', stream='Val', indent='Val', width='Val', depth='Val', compact='Val',
                                             ribbon_width='Val', max_seq_len='Val', sort_dict_keys='Val', style='Val', end='Str'),
                 modifies=['__streams__'],
                 ensures=[('writes-colored-then-end',
                           '__streams__ == hput(old(__streams__), %s, hget(old(__streams__), %s) + '
                           'colored_text(sdocs_of(object, %s), style) + (end if end else ""))' % (_TGT, _TGT, _MERGED))],
                 serves=['C18', 'C16'])
_cp.globals_ = dict(_GS)

_sd = C.contract(INIT, 'set_default_config',
                 params=dict(style='Val', max_seq_len='Val', width='Val', ribbon_width='Val', depth='Val', sort_dict_keys='Val'),
                 returns='Cfg', modifies=['_default_config'],
                 ensures=[(f, '_default_config.%s == (%s if %s is not _UNSET_SENTINEL else old(_default_config).%s)' % (f, f, f, f))
                          for f in ('max_seq_len', 'width', 'ribbon_width', 'depth', 'sort_dict_keys')] +
                         [('indent', '_default_config.indent == old(_default_config).indent'),
                          ('returns-new-defaults', 'result == _default_config')],
                 serves=['C18'])
_sd.globals_ = dict(_G)

_gd = C.contract(INIT, 'get_default_config', params={}, returns='Cfg',
                 ensures=[('reports', 'result == _default_config')], serves=['C18'])
_gd.globals_ = dict(_G)

_pr = C.contract(INIT, 'pretty_repr', params=dict(instance='Val'), returns='Str',
                 ensures=[('is-pformat', 'implies(registered(instance), result == text(instance, merged(_UNSET_SENTINEL, _UNSET_SENTINEL, '
                                         '_UNSET_SENTINEL, _UNSET_SENTINEL, _UNSET_SENTINEL, _UNSET_SENTINEL, _default_config)))')],
                 serves=['C18'])
_pr.globals_ = dict(_G)

# ---- the PrettyPrinter shim: *args / **kwargs are stored and forwarded as they are ---------------------------
U.uninterpreted('Pack')         # a positional argument tuple
U.uninterpreted('KwPack')       # a keyword argument dict
U.declare({'PPObj': ('record', [('_args', 'Pack'), ('_kwargs', 'KwPack')])})


@C.spec([('object', 'Val'), ('a', 'Pack'), ('k', 'KwPack'), ('dflt', 'Cfg')], 'Str', opaque=True)
def pformat_packed(object, a, k, dflt):
    """pformat(object, *a, **k) under the defaults dflt"""
    raise NotImplementedError


@C.spec([('object', 'Val'), ('a', 'Pack'), ('k', 'KwPack'), ('dflt', 'Cfg'), ('h', 'Heap')], 'Heap', opaque=True)
def pprint_packed(object, a, k, dflt, h):
    """the streams after pprint(object, *a, **k) under the defaults dflt"""
    raise NotImplementedError


def _packed_call(I, fn, args, pack, kwpack, node):
    if not (is_z3(pack) and I.sort_of(pack) == 'Pack' and is_z3(kwpack) and I.sort_of(kwpack) == 'KwPack' and len(args) == 1):
        raise OutsideSubset('packed call shape')
    name = fn.name if isinstance(fn, FuncVal) else None
    obj = I.coerce(args[0], 'Val')
    if name == 'pformat':
        return I.call_spec(C.specs['pformat_packed'], [obj, pack, kwpack, I.env['_default_config']], {})
    if name == 'pprint':
        I.env['__streams__'] = I.call_spec(C.specs['pprint_packed'], [obj, pack, kwpack, I.env['_default_config'], I.env['__streams__']], {})
        return None
    raise OutsideSubset('packed call of %r' % (name,))


U.packed_call_hook = _packed_call

_pi = C.contract(INIT, 'PrettyPrinter.__init__', params=dict(self='PPObj', args='Pack', kwargs='KwPack'), modifies=['self'],
                 ensures=[('stores-args', 'self._args == args'), ('stores-kwargs', 'self._kwargs == kwargs')], serves=['C18'])
_pi.packs = {'args': 'Pack', 'kwargs': 'KwPack'}
_ppf = C.contract(INIT, 'PrettyPrinter.pformat', params=dict(self='PPObj', object='Val'), returns='Str',
                  ensures=[('forwards', 'result == pformat_packed(object, self._args, self._kwargs, _default_config)')], serves=['C18'])
_ppf.globals_ = dict(_G)
_ppp = C.contract(INIT, 'PrettyPrinter.pprint', params=dict(self='PPObj', object='Val'), modifies=['__streams__'],
                  ensures=[('forwards', '__streams__ == pprint_packed(object, self._args, self._kwargs, _default_config, old(__streams__))')],
                  serves=['C18'])
_ppp.globals_ = dict(_GS)
C.assume('PrettyPrinter(*A, **K).pformat(v) is proved to be pformat(v, *A, **K) with A and K stored and forwarded unchanged (opaque argument '
         'packs); binding the packs to the parameters of pformat is Python\'s call semantics, not modelled')

C.assume('python_to_sdocs(value, indent, width, depth, ribbon_width, max_seq_len, sort_dict_keys) is a deterministic function of its '
         'arguments (sdocs_of): no other setting and no hidden state is read (frame part: effect analysis; history part: bounded C19); '
         'the printer registry is not part of the model')
C.assume('default_render_to_stream / colored_render_to_stream append a text that is a function of (sdocs[, style]) to the stream they are '
         'given and touch no other stream; StringIO() is a new object that does not escape pformat')
C.assume('set_default_style does not touch _default_config (effect analysis: module-state obligations)')
C.assume('`end` is a str (None is treated by the code like the empty string: nothing is written)')
C.assume('_default_config always has exactly the six keys indent, width, ribbon_width, depth, max_seq_len, sort_dict_keys: checked for '
         'the module-level literal on every run (check_default_keys); preserved by set_default_config (its stores are proved to use those keys)')


# ---- declarations against the source ------------------------------------------------------------
def check_default_keys():
    from pvf.pyvc.run import module_ast
    src, tree = module_ast(INIT)
    for n in tree.body:
        if isinstance(n, ast.Assign) and isinstance(n.targets[0], ast.Name) and n.targets[0].id == '_default_config':
            if isinstance(n.value, ast.Dict) and all(isinstance(k, ast.Constant) for k in n.value.keys):
                got = tuple(k.value for k in n.value.keys)
                return got == FIELDS, got
    return False, None


def check_sdocs_signature():
    from pvf.pyvc.run import module_ast
    src, tree = module_ast('prettyprinter.prettyprinter')
    for n in tree.body:
        if isinstance(n, ast.FunctionDef) and n.name == 'python_to_sdocs':
            got = tuple(a.arg for a in n.args.args)
            ok = got == SDOC_PARAMS and not n.args.kwonlyargs and n.args.vararg is None and n.args.kwarg is None
            return ok, got
    return False, None


def check_sentinel_and_imports():
    """_UNSET_SENTINEL is one module-level instance; the names the hooks stand for are what the module imports"""
    from pvf.pyvc.run import module_ast
    src, tree = module_ast(INIT)
    found = {}
    for n in tree.body:
        if isinstance(n, ast.Assign) and isinstance(n.targets[0], ast.Name) and n.targets[0].id == '_UNSET_SENTINEL':
            found['sentinel'] = isinstance(n.value, ast.Call) and isinstance(n.value.func, ast.Name) and n.value.func.id == 'UnsetSentinel'
        if isinstance(n, ast.ImportFrom):
            for a in n.names:
                found[a.asname or a.name] = (n.module, a.name)
    want = {'default_render_to_stream': ('render', 'default_render_to_stream'),
            'colored_render_to_stream': ('color', 'colored_render_to_stream'),
            'python_to_sdocs': ('prettyprinter', 'python_to_sdocs'), 'is_registered': ('prettyprinter', 'is_registered'),
            'StringIO': ('io', 'StringIO'), 'MappingProxyType': ('types', 'MappingProxyType')}
    bad = {k: found.get(k) for k, v in want.items() if found.get(k) != v}
    n_assign = sum(1 for n in ast.walk(tree) if isinstance(n, (ast.Assign, ast.AugAssign, ast.AnnAssign))
                   for t in (n.targets if isinstance(n, ast.Assign) else [n.target])
                   if isinstance(t, ast.Name) and t.id == '_UNSET_SENTINEL')
    ok = found.get('sentinel') is True and not bad and n_assign == 1
    return ok, dict(sentinel=found.get('sentinel'), mismatched=bad, assignments=n_assign)


PRECHECKS = [check_default_keys, check_sdocs_signature, check_sentinel_and_imports]
