"""Contracts of the string-splitting family (C02, C12): str_to_lines, split_at.

str_to_lines is verified for ALL strings (z3 String = sequence of code points; bytes are the same thing with
another element type) and all max_len > 0: the yielded pieces concatenate to s, none is empty, the loop terminates.
Nothing about escaping is needed: escaped_len is an arbitrary non-negative function.
"""
import ast
import z3
from pvf.pyvc.universe import Universe
from pvf.pyvc.contract import ContractSet
from pvf.pyvc.interp import OutsideSubset, GenExp, is_z3
from pvf.pyvc import interp as _interp

U = Universe('strings')
U.uninterpreted('Pat')          # a compiled regular expression
U.uninterpreted('Quote')
U.declare({
    'OptStr': ('data', [('NoStr', []), ('SomeStr', [('v', 'Str')])]),
    'OptBool': ('data', [('NoBool', []), ('SomeBool', [('v', 'Bool')])]),
    'OptPat': ('data', [('NoPat', []), ('SomePat', [('v', 'Pat')])]),
    'Tagged': ('record', [('part', 'Str'), ('ws', 'Bool')]),
    'PartList': ('list', 'Str', 'fwd'),          # what pattern.split returns
    'TagList': ('list', 'Tagged', 'fwd'),        # the iterator over (part, is_whitespace)
    'Parts': ('list', 'Str', 'snoc'),            # curr_line_parts
    'Out': ('list', 'Str', 'snoc'),              # the yielded pieces
    'Pair': ('record', [('a', 'Str'), ('b', 'Str')]),
})
U.options = {'OptStr': 'Str', 'OptBool': 'Bool', 'OptPat': 'Pat'}
S_IS_STR = z3.Bool('S_IS_STR')
U.isinstance_hooks = {('Str', 'str'): lambda I, v: S_IS_STR, ('Str', 'bytes'): lambda I, v: z3.Not(S_IS_STR)}
for n in ('WHITESPACE_PATTERN_TEXT', 'NONWORD_PATTERN_TEXT', 'WHITESPACE_PATTERN_BYTES', 'NONWORD_PATTERN_BYTES'):
    U.consts[n] = z3.Const(n, U.sort('Pat'))

C = ContractSet(U, 'strings')
PP = 'prettyprinter.prettyprinter'


# ---- spec functions ---------------------------------------------------------------------------
@C.spec([('p', 'Pat'), ('s', 'Str')], 'PartList', opaque=True)
def psplit(p, s):
    return p.split(s)


@C.spec([('xs', 'PartList')], 'Str')
def joinl(xs):
    if not xs:
        return ''
    return xs[0] + joinl(xs[1:])


@C.spec([('xs', 'PartList'), ('b', 'Bool')], 'TagList')
def tag(xs, b):
    """zip(xs, cycle([b, not b]))"""
    if not xs:
        return []
    return cons((xs[0], b), tag(xs[1:], not b))


@C.spec([('ts', 'TagList')], 'Str')
def joint(ts):
    if not ts:
        return ''
    return ts[0][0] + joint(ts[1:])


@C.spec([('ps', 'Parts')], 'Str')
def joins(ps):
    """''.join(ps) for an append-only list"""
    if not ps:
        return ''
    return joins(ps[:-1]) + ps[-1]


@C.spec([('ps', 'Parts')], 'Bool')
def nonempty_parts(ps):
    if not ps:
        return True
    return len(ps[-1]) > 0 and nonempty_parts(ps[:-1])


@C.spec([('ps', 'Out')], 'Str')
def joino(ps):
    if not ps:
        return ''
    return joino(ps[:-1]) + ps[-1]


@C.spec([('ps', 'Out')], 'Bool')
def nonempty_out(ps):
    if not ps:
        return True
    return len(ps[-1]) > 0 and nonempty_out(ps[:-1])


@C.spec([('o', 'OptStr')], 'Str')
def opt(o):
    if o is None:
        return ''
    return unwrap(o)


@C.spec([('s', 'Str'), ('q', 'Quote')], 'Int', opaque=True)
def elen(s, q):
    """escaped_len(s, use_quote)"""
    return 0


# ---- lemmas ------------------------------------------------------------------------------------
@C.lemma([('p', 'Pat'), ('s', 'Str')], ensures=['joinl(psplit(p, s)) == s', 'len(psplit(p, s)) >= 1'],
         triggers=['psplit(p, s)'], trusted=True,
         note='re.Pattern.split with one capturing group returns the pieces between matches and the matches themselves: '
              'at least one element, and their concatenation is the input')
def lemma_psplit(p, s):
    pass


@C.lemma([('s', 'Str'), ('q', 'Quote')], ensures=['elen(s, q) >= 0'], triggers=['elen(s, q)'], trusted=True,
         note='escaped_len is len() of a string')
def lemma_elen(s, q):
    pass


@C.lemma([('xs', 'PartList'), ('b', 'Bool')], ensures=['joint(tag(xs, b)) == joinl(xs)', 'len(tag(xs, b)) == len(xs)'],
         triggers=['tag(xs, b)'], decreases=['len(xs)'])
def lemma_tag_join(xs, b):
    if not xs:
        return
    lemma_tag_join(xs[1:], not b)


@C.lemma([('ts', 'TagList')], ensures=['len(joint(ts)) >= 0'], triggers=['joint(ts)'])
def lemma_joint_len(ts):
    pass


# ---- hooks --------------------------------------------------------------------------------------
def _zip_hook(I, args):
    """zip(parts, cycle([b, not b]))  ->  tag(parts, b)"""
    a, b = args
    if is_z3(a) and I.sort_of(a) == 'PartList' and isinstance(b, GenExp) and b.kind == 'cycle' \
            and isinstance(b.items, list) and len(b.items) == 2:
        x, y = b.items
        bx = I.coerce(I.to_bool(x), 'Bool') if not is_z3(x) else x
        by = I.coerce(I.to_bool(y), 'Bool') if not is_z3(y) else y
        # the idiom alternates b, not b: check that the second element is the negation of the first
        if not z3.simplify(by == z3.Not(bx)).eq(z3.BoolVal(True)):
            s = z3.Solver()
            s.add(by == bx)
            if s.check() != z3.unsat:
                raise OutsideSubset('cycle([a, b]) with b != not a')
        return I.call_spec(C.specs['tag'], [a, bx], {})
    raise OutsideSubset('zip() shape')


U.zip_hook = _zip_hook


def _m_split(I, pat, args, kwargs, node):
    return I.call_spec(C.specs['psplit'], [pat, args[0]], {})


def _m_match(I, pat, args, kwargs, node):
    return ('opaque', 'match', I.fresh('Bool', 'matched'))


def _m_join(I, sep, args, kwargs, node):
    if not (z3.is_string_value(z3.simplify(sep)) and z3.simplify(sep).as_string() == ''):
        # `empty` is '' or b'': a symbolic If over two empty literals simplifies to ""
        s = z3.Solver()
        s.add(z3.Length(sep) != 0)
        for p in I.pc:
            s.add(p)
        if s.check() != z3.unsat:
            raise OutsideSubset('join with a non-empty separator')
    xs = args[0]
    sn = I.sort_of(xs)
    if sn == 'Parts':
        return I.call_spec(C.specs['joins'], [xs], {})
    raise OutsideSubset('join over %s' % sn)


U.method_hooks = {('Pat', 'split'): _m_split, ('Pat', 'match'): _m_match, ('Str', 'join'): _m_join}
_orig_to_bool = _interp.Interp.to_bool


def _to_bool(self, v):
    if isinstance(v, tuple) and len(v) == 3 and v[0] == 'opaque' and v[1] == 'match':
        return v[2]
    return _orig_to_bool(self, v)


_interp.Interp.to_bool = _to_bool

# ---- contracts ----------------------------------------------------------------------------------
C.contract(PP, 'escaped_len', params={'s': 'Str', 'use_quote': 'Quote'}, returns='Int',
           ensures=[('fn', 'result == elen(s, use_quote)')], trusted=True,
           note='len(escape_str_for_quote(..)): an unknown non-negative function here (escaping is decided by the bounded stand-in)',
           serves=['C02'])

C.contract(PP, 'split_at', params={'idx': 'Int', 'sequence': 'Str'}, returns='Pair',
           requires=['idx >= 0'],
           ensures=[('whole', 'result.a + result.b == sequence'),
                    ('cut', 'len(result.a) == min(idx, len(sequence))')],
           serves=['C02'])

_INV_CONTENT = 'joino(__out__) + joins(curr_line_parts) + opt(next_part) + joint(tagged_alternating) == s'

C.contract(
    PP, 'str_to_lines',
    params={'max_len': 'Int', 'use_quote': 'Quote', 's': 'Str', 'pattern': 'OptPat'},
    yields='Out',
    locals_={'next_part': 'OptStr', 'next_is_whitespace': 'OptBool', 'curr_line_parts': 'Parts', 'tagged_alternating': 'TagList'},
    requires=['max_len > 0', 'isinstance(s, str) or isinstance(s, bytes)'],
    ensures=[('concat', 'joino(result) == s'), ('no-empty-piece', 'nonempty_out(result)')],
    loops={0: dict(
        inv=[('content', _INV_CONTENT),
             ('pieces', 'nonempty_out(__out__)'),
             ('parts', 'nonempty_parts(curr_line_parts)'),
             ('len', '0 <= curr_line_len and curr_line_len < max_len'),
             ('empty', 'len(empty) == 0')],
        decreases=['len(joint(tagged_alternating)) + len(opt(next_part))', 'len(tagged_alternating)', 'len(curr_line_parts)'])},
    serves=['C02', 'C12'])

C.assume('str and bytes are both sequences; the proof is over z3 String and does not depend on the element type')
C.assume('the pieces are consumed by the caller (generator laziness is not modelled: the function is the sequence of its yields)')


# ---- determine_quote_strategy: which quote character a literal gets (C02) -----------------------------------------------------
count_f = z3.Function('count_occurrences', z3.StringSort(), z3.StringSort(), z3.IntSort())


def _count(I, s, q):
    q = I.coerce(q, 'Str')
    n = count_f(s, q)
    I.assume(n >= 0)
    I.assume((n > 0) == z3.Contains(s, q))          # str.count(q) > 0 iff q in s (q non-empty): definitional
    return n


U.method_hooks[('Str', 'count')] = lambda I, obj, args, kwargs, node: _count(I, obj, args[0])
_interp.BUILTINS['count_'] = lambda I, a, k, n: _count(I, I.coerce(a[0], 'Str'), a[1])

C.contract(
    PP, 'determine_quote_strategy', params={'s': 'Str'}, returns='Str',
    requires=['isinstance(s, str) or isinstance(s, bytes)'],
    ensures=[('a-quote-character', 'result == "\'" or result == \'"\''),
             ('single-unless-it-costs-more-escapes', 'implies(result == "\'", count_(s, "\'") <= count_(s, \'"\'))'),
             ('double-only-when-strictly-cheaper', 'implies(result == \'"\', count_(s, \'"\') < count_(s, "\'"))')],
    serves=['C02'])


# ---- pretty_str.evaluator: the width-dependent choice between one literal and several (C02, C08, C12) --------------------------
# The nested function that the layout calls with the current column.  What is stated: (1) a string that fits is ONE literal, (2) the
# splitter is only ever called with max_len >= 10 - its precondition max_len > 0, under which it is proved to terminate and to yield
# pieces that concatenate to s - and the pieces are what gets printed, (3) a string that could not be split is one literal, (4) an
# instance of a subclass is wrapped on every path.
U.uninterpreted('SDoc')
U.uninterpreted('CtxO')
U.uninterpreted('ClsO')
SD = U.sort('SDoc')
single_f = z3.Function('single_line_doc', z3.StringSort(), z3.IntSort(), SD)                       # pretty_single_line_str(s, indent)
pieces_f = z3.Function('pieces_doc', U.sort('Out'), z3.IntSort(), U.sort('Quote'), SD)            # intersperse(HARDLINE, literal of each piece)
wrapc_f = z3.Function('wrap_in_constructor', U.sort('ClsO'), SD, SD)                             # build_fncall(ctx, constructor, argdocs=[doc])
glue_f = z3.Function('multiline_glue', z3.StringSort(), z3.IntSort(), SD, SD)                      # always_break / nest / parens around the pieces
quote_f = z3.Function('quote_of', z3.StringSort(), U.sort('Quote'))
U.coerce_hooks = dict(getattr(U, 'coerce_hooks', {}))
U.coerce_hooks[('Str', 'Quote')] = lambda I, v: quote_f(v)
for _n in ('HARDLINE', 'LPAREN', 'RPAREN', 'NIL'):
    U.consts[_n] = z3.Const('SDOC_' + _n, SD)


def _h_single(I, args, kwargs, node):
    kw = dict(kwargs)
    s_ = I.coerce(args[0], 'Str')
    ind = I.coerce(args[1] if len(args) > 1 else kw.pop('indent'), 'Int')
    if kw and set(kw) != {'use_quote'}:
        raise OutsideSubset('pretty_single_line_str call shape')
    return single_f(s_, ind)


shows_f = z3.Function('pieces_shown_by', SD, U.sort('Out'))          # the literals a document prints, in order
has_pieces_f = z3.Function('prints_pieces', SD, z3.BoolSort())
is_wrap_f = z3.Function('is_wrapped_in', SD, U.sort('ClsO'), z3.BoolSort())


def _track(I):
    return I.__dict__.setdefault('_pieces_docs', {})


def _h_intersperse(I, args, kwargs, node):
    sep, g = args
    if not (isinstance(g, GenExp) and g.kind == 'genexp' and not g.ifs and is_z3(g.iter) and I.sort_of(g.iter) == 'Out'
            and isinstance(g.elt, ast.Call) and isinstance(g.elt.func, ast.Name) and g.elt.func.id == 'pretty_single_line_str'
            and isinstance(g.target, ast.Name) and g.elt.args and isinstance(g.elt.args[0], ast.Name) and g.elt.args[0].id == g.target.id):
        raise OutsideSubset('intersperse shape')
    kws = {k.arg: k.value for k in g.elt.keywords}
    saved = I.env
    I.env = dict(g.env)
    try:
        ind = I.coerce(I.ev(kws['indent']), 'Int')
        q = I.coerce(I.ev(kws['use_quote']), 'Quote')
    finally:
        I.env = saved
    d = pieces_f(g.iter, ind, q)
    I.assume(shows_f(d) == g.iter)          # definitional: one literal per piece, in order, separated by hard lines
    I.assume(has_pieces_f(d))
    _track(I)[d.get_id()] = d
    return d


def _flat(xs):
    for x in xs:
        if isinstance(x, tuple) and len(x) == 2 and x[0] == 'star':
            yield x[1]
        elif isinstance(x, (list, tuple)):
            for y in _flat(x):
                yield y
        else:
            yield x


def _glue(name):
    def h(I, args, kwargs, node):
        pcs = [x for x in _flat(list(args)) if is_z3(x) and x.get_id() in _track(I)]
        if len(pcs) != 1:
            raise OutsideSubset('%s: expected exactly one child that prints the pieces of the string' % name)
        d = glue_f(z3.StringVal(name), I.fresh('Int', 'glue'), pcs[0])
        I.assume(shows_f(d) == shows_f(pcs[0]))          # assumed of concat / nest / always_break: they add no literal and drop none
        I.assume(has_pieces_f(d) == has_pieces_f(pcs[0]))
        _track(I)[d.get_id()] = d
        return d
    return h


def _h_wrap(I, args, kwargs, node):
    docs = kwargs.get('argdocs')
    if not (isinstance(docs, list) and len(docs) == 1) or set(kwargs) != {'argdocs'} or len(args) != 2:
        raise OutsideSubset('build_fncall call shape in pretty_str')
    inner_ = I.coerce(docs[0], 'SDoc')
    cls = I.coerce(args[1], 'ClsO')
    r = wrapc_f(cls, inner_)
    I.assume(is_wrap_f(r, cls))
    I.assume(shows_f(r) == shows_f(inner_))
    I.assume(has_pieces_f(r) == has_pieces_f(inner_))
    if inner_.get_id() in _track(I):
        _track(I)[r.get_id()] = r
    return r


_interp.BUILTINS['single_'] = lambda I, a, k, n: single_f(I.coerce(a[0], 'Str'), I.coerce(a[1], 'Int'))
_interp.BUILTINS['wrap_'] = lambda I, a, k, n: wrapc_f(I.coerce(a[0], 'ClsO'), I.coerce(a[1], 'SDoc'))
_interp.BUILTINS['shows_pieces_'] = lambda I, a, k, n: has_pieces_f(I.coerce(a[0], 'SDoc'))
_interp.BUILTINS['pieces_of_'] = lambda I, a, k, n: shows_f(I.coerce(a[0], 'SDoc'))
_interp.BUILTINS['is_wrap_'] = lambda I, a, k, n: is_wrap_f(I.coerce(a[0], 'SDoc'), I.coerce(a[1], 'ClsO'))


C.extern = getattr(C, 'extern', {})
C.extern.setdefault(PP, {}).update({
    'pretty_single_line_str': _interp.FuncVal('hook', 'pretty_single_line_str', _h_single),
    'intersperse': _interp.FuncVal('hook', 'intersperse', _h_intersperse),
    'concat': _interp.FuncVal('hook', 'concat', _glue('concat')),
    'nest': _interp.FuncVal('hook', 'nest', _glue('nest')),
    'always_break': _interp.FuncVal('hook', 'always_break', _glue('always_break')),
    'build_fncall': _interp.FuncVal('hook', 'build_fncall', _h_wrap),
})


_ev = C.contract(
    PP, 'pretty_str.evaluator', params={'indent': 'Int', 'column': 'Int', 'page_width': 'Int', 'ribbon_width': 'Int'}, returns='SDoc',
    requires=[('a-str-or-bytes', 'isinstance(s, str) or isinstance(s, bytes)'),
              ('one-of-the-four-strategies', 'multiline_strategy == "MULTILINE_STRATEGY_PLAIN" or multiline_strategy == "MULTILINE_STRATEGY_HANG" or '
                                             'multiline_strategy == "MULTILINE_STRATEGY_PARENS" or multiline_strategy == "MULTILINE_STRATEGY_INDENTED"')],
    ensures=[('fits-is-one-literal', 'implies(len(s) + 2 <= min(page_width - column, indent + ribbon_width - column), '
                                     'result == (single_(s, prettyprinter_indent) if is_native_type else wrap_(constructor, single_(s, prettyprinter_indent))))'),
             ('otherwise-one-literal-or-pieces-that-concatenate-to-s',
              'result == single_(s, prettyprinter_indent) or result == wrap_(constructor, single_(s, prettyprinter_indent)) or '
              '(shows_pieces_(result) and joino(pieces_of_(result)) == s and nonempty_out(pieces_of_(result)) and len(pieces_of_(result)) >= 1)'),
             ('subclass-wrapped-or-plain-strategy', 'implies(not is_native_type, is_wrap_(result, constructor))')],
    serves=['C02', 'C08', 'C12'],
    note='closure variables s, ctx, constructor, is_native_type, prettyprinter_indent, multiline_strategy, split_pattern are inputs of the unit; '
         'the call of str_to_lines is checked against ITS precondition max_len > 0 (the floor of 10 columns) and its proved postcondition '
         '(pieces concatenate to s, none empty) is what the third clause rests on')
_ev.globals_ = {'s': 'Str', 'ctx': 'CtxO', 'constructor': 'ClsO', 'is_native_type': 'Bool', 'prettyprinter_indent': 'Int',
                'multiline_strategy': 'Str', 'split_pattern': 'OptPat'}
