"""Contracts of the string-splitting family (C02, C12): str_to_lines, split_at.

str_to_lines is verified for ALL strings (z3 String = sequence of code points; bytes are the same thing with
another element type) and all max_len > 0: the yielded pieces concatenate to s, none is empty, the loop terminates.
Nothing about escaping is needed: escaped_len is an arbitrary non-negative function.
"""
import ast
import z3
from pvf.pyvc.universe import Universe
from pvf.pyvc.contract import ContractSet
from pvf.pyvc.interp import OutsideSubset, GenExp, is_z3
from pvf.pyvc import interp as _interp

U = Universe('strings')
U.uninterpreted('Pat')          # a compiled regular expression
U.uninterpreted('Quote')
U.declare({
    'OptStr': ('data', [('NoStr', []), ('SomeStr', [('v', 'Str')])]),
    'OptBool': ('data', [('NoBool', []), ('SomeBool', [('v', 'Bool')])]),
    'OptPat': ('data', [('NoPat', []), ('SomePat', [('v', 'Pat')])]),
    'Tagged': ('record', [('part', 'Str'), ('ws', 'Bool')]),
    'PartList': ('list', 'Str', 'fwd'),          # what pattern.split returns
    'TagList': ('list', 'Tagged', 'fwd'),        # the iterator over (part, is_whitespace)
    'Parts': ('list', 'Str', 'snoc'),            # curr_line_parts
    'Out': ('list', 'Str', 'snoc'),              # the yielded pieces
    'Pair': ('record', [('a', 'Str'), ('b', 'Str')]),
})
U.options = {'OptStr': 'Str', 'OptBool': 'Bool', 'OptPat': 'Pat'}
S_IS_STR = z3.Bool('S_IS_STR')
U.isinstance_hooks = {('Str', 'str'): lambda I, v: S_IS_STR, ('Str', 'bytes'): lambda I, v: z3.Not(S_IS_STR)}
for n in ('WHITESPACE_PATTERN_TEXT', 'NONWORD_PATTERN_TEXT', 'WHITESPACE_PATTERN_BYTES', 'NONWORD_PATTERN_BYTES'):
    U.consts[n] = z3.Const(n, U.sort('Pat'))

C = ContractSet(U, 'strings')
PP = 'prettyprinter.prettyprinter'


# ---- spec functions ---------------------------------------------------------------------------
@C.spec([('p', 'Pat'), ('s', 'Str')], 'PartList', opaque=True)
def psplit(p, s):
    return p.split(s)


@C.spec([('xs', 'PartList')], 'Str')
def joinl(xs):
    if not xs:
        return ''
    return xs[0] + joinl(xs[1:])


@C.spec([('xs', 'PartList'), ('b', 'Bool')], 'TagList')
def tag(xs, b):
    """zip(xs, cycle([b, not b]))"""
    if not xs:
        return []
    return cons((xs[0], b), tag(xs[1:], not b))


@C.spec([('ts', 'TagList')], 'Str')
def joint(ts):
    if not ts:
        return ''
    return ts[0][0] + joint(ts[1:])


@C.spec([('ps', 'Parts')], 'Str')
def joins(ps):
    """''.join(ps) for an append-only list"""
    if not ps:
        return ''
    return joins(ps[:-1]) + ps[-1]


@C.spec([('ps', 'Parts')], 'Bool')
def nonempty_parts(ps):
    if not ps:
        return True
    return len(ps[-1]) > 0 and nonempty_parts(ps[:-1])


@C.spec([('ps', 'Out')], 'Str')
def joino(ps):
    if not ps:
        return ''
    return joino(ps[:-1]) + ps[-1]


@C.spec([('ps', 'Out')], 'Bool')
def nonempty_out(ps):
    if not ps:
        return True
    return len(ps[-1]) > 0 and nonempty_out(ps[:-1])


@C.spec([('o', 'OptStr')], 'Str')
def opt(o):
    if o is None:
        return ''
    return unwrap(o)


@C.spec([('s', 'Str'), ('q', 'Quote')], 'Int', opaque=True)
def elen(s, q):
    """escaped_len(s, use_quote)"""
    return 0


# ---- lemmas ------------------------------------------------------------------------------------
@C.lemma([('p', 'Pat'), ('s', 'Str')], ensures=['joinl(psplit(p, s)) == s', 'len(psplit(p, s)) >= 1'],
         triggers=['psplit(p, s)'], trusted=True,
         note='re.Pattern.split with one capturing group returns the pieces between matches and the matches themselves: '
              'at least one element, and their concatenation is the input')
def lemma_psplit(p, s):
    pass


@C.lemma([('s', 'Str'), ('q', 'Quote')], ensures=['elen(s, q) >= 0'], triggers=['elen(s, q)'], trusted=True,
         note='escaped_len is len() of a string')
def lemma_elen(s, q):
    pass


@C.lemma([('xs', 'PartList'), ('b', 'Bool')], ensures=['joint(tag(xs, b)) == joinl(xs)', 'len(tag(xs, b)) == len(xs)'],
         triggers=['tag(xs, b)'], decreases=['len(xs)'])
def lemma_tag_join(xs, b):
    if not xs:
        return
    lemma_tag_join(xs[1:], not b)


@C.lemma([('ts', 'TagList')], ensures=['len(joint(ts)) >= 0'], triggers=['joint(ts)'])
def lemma_joint_len(ts):
    pass


# ---- hooks --------------------------------------------------------------------------------------
def _zip_hook(I, args):
    """zip(parts, cycle([b, not b]))  ->  tag(parts, b)"""
    a, b = args
    if is_z3(a) and I.sort_of(a) == 'PartList' and isinstance(b, GenExp) and b.kind == 'cycle' \
            and isinstance(b.items, list) and len(b.items) == 2:
        x, y = b.items
        bx = I.coerce(I.to_bool(x), 'Bool') if not is_z3(x) else x
        by = I.coerce(I.to_bool(y), 'Bool') if not is_z3(y) else y
        # the idiom alternates b, not b: check that the second element is the negation of the first
        if not z3.simplify(by == z3.Not(bx)).eq(z3.BoolVal(True)):
            s = z3.Solver()
            s.add(by == bx)
            if s.check() != z3.unsat:
                raise OutsideSubset('cycle([a, b]) with b != not a')
        return I.call_spec(C.specs['tag'], [a, bx], {})
    raise OutsideSubset('zip() shape')


U.zip_hook = _zip_hook


def _m_split(I, pat, args, kwargs, node):
    return I.call_spec(C.specs['psplit'], [pat, args[0]], {})


def _m_match(I, pat, args, kwargs, node):
    return ('opaque', 'match', I.fresh('Bool', 'matched'))


def _m_join(I, sep, args, kwargs, node):
    if not (z3.is_string_value(z3.simplify(sep)) and z3.simplify(sep).as_string() == ''):
        # `empty` is '' or b'': a symbolic If over two empty literals simplifies to ""
        s = z3.Solver()
        s.add(z3.Length(sep) != 0)
        for p in I.pc:
            s.add(p)
        if s.check() != z3.unsat:
            raise OutsideSubset('join with a non-empty separator')
    xs = args[0]
    sn = I.sort_of(xs)
    if sn == 'Parts':
        return I.call_spec(C.specs['joins'], [xs], {})
    raise OutsideSubset('join over %s' % sn)


U.method_hooks = {('Pat', 'split'): _m_split, ('Pat', 'match'): _m_match, ('Str', 'join'): _m_join}
_orig_to_bool = _interp.Interp.to_bool


def _to_bool(self, v):
    if isinstance(v, tuple) and len(v) == 3 and v[0] == 'opaque' and v[1] == 'match':
        return v[2]
    return _orig_to_bool(self, v)


_interp.Interp.to_bool = _to_bool

# ---- contracts ----------------------------------------------------------------------------------
C.contract(PP, 'escaped_len', params={'s': 'Str', 'use_quote': 'Quote'}, returns='Int',
           ensures=[('fn', 'result == elen(s, use_quote)')], trusted=True,
           note='len(escape_str_for_quote(..)): an unknown non-negative function here (escaping is decided by the bounded stand-in)',
           serves=['C02'])

C.contract(PP, 'split_at', params={'idx': 'Int', 'sequence': 'Str'}, returns='Pair',
           requires=['idx >= 0'],
           ensures=[('whole', 'result.a + result.b == sequence'),
                    ('cut', 'len(result.a) == min(idx, len(sequence))')],
           serves=['C02'])

_INV_CONTENT = 'joino(__out__) + joins(curr_line_parts) + opt(next_part) + joint(tagged_alternating) == s'

C.contract(
    PP, 'str_to_lines',
    params={'max_len': 'Int', 'use_quote': 'Quote', 's': 'Str', 'pattern': 'OptPat'},
    yields='Out',
    locals_={'next_part': 'OptStr', 'next_is_whitespace': 'OptBool', 'curr_line_parts': 'Parts', 'tagged_alternating': 'TagList'},
    requires=['max_len > 0', 'isinstance(s, str) or isinstance(s, bytes)'],
    ensures=[('concat', 'joino(result) == s'), ('no-empty-piece', 'nonempty_out(result)')],
    loops={0: dict(
        inv=[('content', _INV_CONTENT),
             ('pieces', 'nonempty_out(__out__)'),
             ('parts', 'nonempty_parts(curr_line_parts)'),
             ('len', '0 <= curr_line_len and curr_line_len < max_len'),
             ('empty', 'len(empty) == 0')],
        decreases=['len(joint(tagged_alternating)) + len(opt(next_part))', 'len(tagged_alternating)', 'len(curr_line_parts)'])},
    serves=['C02', 'C12'])

C.assume('str and bytes are both sequences; the proof is over z3 String and does not depend on the element type')
C.assume('the pieces are consumed by the caller (generator laziness is not modelled: the function is the sequence of its yields)')


# ---- determine_quote_strategy: which quote character a literal gets (C02) -----------------------------------------------------
count_f = z3.Function('count_occurrences', z3.StringSort(), z3.StringSort(), z3.IntSort())


def _count(I, s, q):
    q = I.coerce(q, 'Str')
    n = count_f(s, q)
    I.assume(n >= 0)
    I.assume((n > 0) == z3.Contains(s, q))          # str.count(q) > 0 iff q in s (q non-empty): definitional
    return n


U.method_hooks[('Str', 'count')] = lambda I, obj, args, kwargs, node: _count(I, obj, args[0])
_interp.BUILTINS['count_'] = lambda I, a, k, n: _count(I, I.coerce(a[0], 'Str'), a[1])

C.contract(
    PP, 'determine_quote_strategy', params={'s': 'Str'}, returns='Str',
    requires=['isinstance(s, str) or isinstance(s, bytes)'],
    ensures=[('a-quote-character', 'result == "\'" or result == \'"\''),
             ('single-unless-it-costs-more-escapes', 'implies(result == "\'", count_(s, "\'") <= count_(s, \'"\'))'),
             ('double-only-when-strictly-cheaper', 'implies(result == \'"\', count_(s, \'"\') < count_(s, "\'"))')],
    serves=['C02'])
