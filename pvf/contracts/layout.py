"""Contracts of the layout family: fitting predicates, best_layout, normalisation, renderer.

Spec functions are written in the Python of the code they describe (isinstance, attribute reads,
xs[0] / xs[1:], stack[-1] / stack[:-1]) and have two interpretations: z3 terms (pyvc) and plain
Python over the real prettyprinter objects (monitor, replay, cross-check).
"""
import z3
from pvf.pyvc.contract import ContractSet
from pvf.pyvc.interp import is_z3
from .layout_sorts import make_universe

U = make_universe()
C = ContractSet(U, 'layout')
LAYOUT = 'prettyprinter.layout'
DOCTYPES = 'prettyprinter.doctypes'

# ------------------------------------------------------------------------------------------------
# hooks: the fixed translations of the few idioms that are not plain datatype operations


def _binop_hook(I, op, a, b):
    import ast
    if isinstance(op, ast.Mult) and is_z3(a) and I.sort_of(a) == 'Float':
        return U.float_mul(a, I.coerce(b, 'Int'))       # float * int: uninterpreted
    return None


U.binop_hook = _binop_hook
U.round_hook = lambda I, x: U.float_round(x)            # round(float): uninterpreted
U.len_hooks = {'Obj': lambda I, v: z3.Length(U.acc('Obj', 'Text', 's')(v))}     # len(doc) for a str doc


def _call_ctxfn(I, fn, args, kwargs, node):
    """doc.fn(indent=, column=, page_width=, ribbon_width=): an unknown pure function of its arguments."""
    names = ['indent', 'column', 'page_width', 'ribbon_width']
    vals = list(args) + [kwargs[n] for n in names[len(args):]]
    return I.call_spec(C.specs['apply_ctx'], [fn] + vals, {})


U.call_hooks = {'CtxFn': _call_ctxfn}

# ------------------------------------------------------------------------------------------------
# spec functions


@C.spec([('fn', 'CtxFn'), ('indent', 'Int'), ('column', 'Int'), ('pw', 'Int'), ('rw', 'Int')], 'Obj', opaque=True)
def apply_ctx(fn, indent, column, pw, rw):
    return fn(indent=indent, column=column, page_width=pw, ribbon_width=rw)


@C.spec([('fn', 'CtxFn')], 'Int', opaque=True)
def csize(fn):
    """ghost weight of a contextual function: a bound on the size of the documents it returns"""
    return 10 ** 9


@C.spec([('d', 'Obj')], 'Obj', opaque=True)
def norm(d):
    """the document normalize_doc returns for d (normalisation is a deterministic function of the document value;
    everything the proofs use about it is a proved or listed postcondition of normalize_doc)"""
    return normalize_doc(d)


@C.spec([('d', 'Obj')], 'Obj', opaque=True)
def acc_flat(d):
    """what the property FlatChoice.when_flat returns: the flat branch, or its normalisation (when it normalises is
    the accessor's business: lemma_acc_cases is all the proofs use)"""
    return d.when_flat


@C.spec([('d', 'Obj')], 'Obj', opaque=True)
def acc_broken(d):
    """what the property FlatChoice.when_broken returns: the broken branch, or its normalisation"""
    return d.when_broken


@C.spec([('stack', 'Stack'), ('i', 'Int'), ('m', 'Mode'), ('ds', 'ObjList')], 'Stack')
def push_rev(stack, i, m, ds):
    """stack.extend((i, m, d) for d in reversed(ds))"""
    if not ds:
        return stack
    return push_rev(stack, i, m, ds[1:]) + [(i, m, ds[0])]


@C.spec([('stack', 'Stack'), ('i', 'Int'), ('m', 'Mode'), ('ds', 'ObjList')], 'Stack')
def push_fwd(stack, i, m, ds):
    """stack.extend((i, m, d) for d in ds)   (not used by the unchanged code; exists so that an edit that drops
    `reversed` stays inside the subset and fails its obligations instead of becoming undecided)"""
    if not ds:
        return stack
    return push_fwd(stack + [(i, m, ds[0])], i, m, ds[1:])


# -- well-formedness: what may occur where -------------------------------------------------------
@C.spec([('d', 'Obj')], 'Bool')
def wf(d):
    """d is a document: no SDoc objects inside"""
    if isinstance(d, Concat):
        return wflist(d.docs)
    if isinstance(d, Fill):
        return wflist(d.docs)
    if isinstance(d, Nest):
        return wf(d.doc)
    if isinstance(d, Group):
        return wf(d.doc)
    if isinstance(d, AlwaysBreak):
        return wf(d.doc)
    if isinstance(d, Annotated):
        return wf(d.doc)
    if isinstance(d, FlatChoice):
        return wf(d._when_broken) and wf(d._when_flat)
    if isinstance(d, SLine):
        return False
    if isinstance(d, SAnnotationPush):
        return False
    if isinstance(d, SAnnotationPop):
        return False
    return True


@C.spec([('ds', 'ObjList')], 'Bool')
def wflist(ds):
    if not ds:
        return True
    return wf(ds[0]) and wflist(ds[1:])


@C.spec([('stack', 'Stack')], 'Bool')
def wf_stack(stack):
    """documents, or the SAnnotationPop markers best_layout pushes"""
    if not stack:
        return True
    return (isinstance(stack[-1][2], SAnnotationPop) or wf(stack[-1][2])) and wf_stack(stack[:-1])


# -- structural size (termination measures) ------------------------------------------------------
@C.spec([('d', 'Obj')], 'Int')
def size(d):
    if isinstance(d, Concat):
        return 1 + sizelist(d.docs)
    if isinstance(d, Fill):
        return 1 + sizelist(d.docs)
    if isinstance(d, Nest):
        return 1 + size(d.doc)
    if isinstance(d, Group):
        return 1 + size(d.doc)
    if isinstance(d, AlwaysBreak):
        return 1 + size(d.doc)
    if isinstance(d, Annotated):
        return 3 + size(d.doc)
    if isinstance(d, FlatChoice):
        # the accessors may return the branch or its normalisation: the measure covers both
        return 1 + max(size(d._when_broken), size(norm(d._when_broken))) + max(size(d._when_flat), size(norm(d._when_flat)))
    if isinstance(d, Contextual):
        return 2 + csize(d.fn)
    return 1


@C.spec([('ds', 'ObjList')], 'Int')
def sizelist(ds):
    """each item counts one extra: Fill(docs) is rewritten to items + Fill(rest)"""
    if not ds:
        return 0
    return 2 + size(ds[0]) + sizelist(ds[1:])


@C.spec([('stack', 'Stack')], 'Int')
def stack_size(stack):
    if not stack:
        return 0
    return 1 + size(stack[-1][2]) + stack_size(stack[:-1])


# -- the fitting predicates, compositionally ------------------------------------------------------
@C.spec([('mw', 'Int'), ('smart', 'Bool'), ('mnl', 'Int'), ('i', 'Int'), ('m', 'Mode'), ('d', 'Obj'), ('w', 'Int')], 'WR')
def walk(mw, smart, mnl, i, m, d, w):
    """Width walk over ONE document with w >= 0 characters left on the line.
    GO w': the document ended without a line break and w' >= 0 characters are left;
    FITS: a line break was reached in time; FAILS: the line overflowed or an AlwaysBreak came first.
    (smart: a hard line at indentation > mnl continues on the next line with PW - i characters.)"""
    if d is NIL:
        return WR(GO, w)
    if isinstance(d, str):
        if w - len(d) >= 0:
            return WR(GO, w - len(d))
        return WR(FAILS, 0)
    if isinstance(d, Concat):
        return walklist(mw, smart, mnl, i, m, d.docs, w)
    if isinstance(d, Annotated):
        return walk(mw, smart, mnl, i, m, d.doc, w)
    if isinstance(d, Fill):
        return walklist(mw, smart, mnl, i, m, d.docs, w)
    if isinstance(d, Nest):
        return walk(mw, smart, mnl, i + d.indent, m, d.doc, w)
    if isinstance(d, AlwaysBreak):
        return WR(FAILS, 0)
    if d is HARDLINE:
        if smart and i > mnl:
            if PW - i >= 0:
                return WR(GO, PW - i)
            return WR(FAILS, 0)
        return WR(FITS, 0)
    if isinstance(d, FlatChoice):
        if m is FLAT_MODE:
            return walk(mw, smart, mnl, i, m, acc_flat(d), w)
        return walk(mw, smart, mnl, i, m, acc_broken(d), w)
    if isinstance(d, Group):
        return walk(mw, smart, mnl, i, FLAT_MODE, d.doc, w)
    if isinstance(d, Contextual):
        return walk(mw, smart, mnl, i, m, norm(apply_ctx(d.fn, i, mw - w, PW, RW)), w)
    return WR(GO, w)


@C.spec([('mw', 'Int'), ('smart', 'Bool'), ('mnl', 'Int'), ('i', 'Int'), ('m', 'Mode'), ('ds', 'ObjList'), ('w', 'Int')], 'WR')
def walklist(mw, smart, mnl, i, m, ds, w):
    if not ds:
        return WR(GO, w)
    r = walk(mw, smart, mnl, i, m, ds[0], w)
    if r.status is GO:
        return walklist(mw, smart, mnl, i, m, ds[1:], r.w)
    return r


@C.spec([('mw', 'Int'), ('smart', 'Bool'), ('mnl', 'Int'), ('w', 'Int'), ('stack', 'Stack')], 'Bool')
def fits_stack(mw, smart, mnl, w, stack):
    """the rest of the line (the stack content, top first) fits into w >= 0 characters"""
    if not stack:
        return True
    r = walk(mw, smart, mnl, stack[-1][0], stack[-1][1], stack[-1][2], w)
    if r.status is GO:
        return fits_stack(mw, smart, mnl, r.w, stack[:-1])
    return r.status is FITS


@C.spec([('mw', 'Int'), ('smart', 'Bool'), ('mnl', 'Int'), ('stack', 'Stack')], 'Bool')
def fits(mw, smart, mnl, stack):
    return mw >= 0 and fits_stack(mw, smart, mnl, mw, stack)


# ------------------------------------------------------------------------------------------------
# lemmas

@C.lemma([('fn', 'CtxFn'), ('a', 'Int'), ('b', 'Int'), ('c', 'Int'), ('d', 'Int')],
         ensures=['wf(apply_ctx(fn, a, b, c, d))', 'size(apply_ctx(fn, a, b, c, d)) <= csize(fn)',
                  'size(norm(apply_ctx(fn, a, b, c, d))) <= csize(fn)', 'csize(fn) >= 0'],
         triggers=['apply_ctx(fn, a, b, c, d)'], trusted=True,
         note='user contextual functions are pure, return documents, and their results are bounded by a ghost weight')
def lemma_apply_ctx(fn, a, b, c, d):
    pass


@C.lemma([('d', 'Obj')],
         ensures=['acc_flat(d) == d._when_flat or acc_flat(d) == norm(d._when_flat)',
                  'acc_broken(d) == d._when_broken or acc_broken(d) == norm(d._when_broken)'],
         triggers=['acc_flat(d)', 'acc_broken(d)'], trusted=True,
         note='postcondition `cases` of the property getters FlatChoice.when_flat / when_broken, PROVED in family normalize')
def lemma_acc_cases(d):
    pass


@C.lemma([('d', 'Obj')], requires=['wf(d)'], ensures=['wf(norm(d))'],
         triggers=['norm(d)'], trusted=True,
         note='postcondition `wf` of normalize_doc, PROVED in family normalize (normalize_doc/return/post:wf); restated here over norm(d), '
              'the name of what normalize_doc returns')
def lemma_norm_wf_size(d):
    pass


@C.lemma([('d', 'Obj')], ensures=['size(d) >= 1'], triggers=['size(d)'], decreases=['rank(d)'], group='size')
def lemma_size_pos(d):
    if isinstance(d, Concat):
        lemma_sizelist_nonneg(d.docs)
    elif isinstance(d, Fill):
        lemma_sizelist_nonneg(d.docs)
    elif isinstance(d, Nest):
        lemma_size_pos(d.doc)
    elif isinstance(d, Group):
        lemma_size_pos(d.doc)
    elif isinstance(d, AlwaysBreak):
        lemma_size_pos(d.doc)
    elif isinstance(d, Annotated):
        lemma_size_pos(d.doc)
    elif isinstance(d, FlatChoice):
        lemma_size_pos(d._when_broken)
        lemma_size_pos(d._when_flat)
    elif isinstance(d, Contextual):
        lemma_apply_ctx(d.fn, 0, 0, 0, 0)


@C.lemma([('ds', 'ObjList')], ensures=['sizelist(ds) >= 0'], triggers=['sizelist(ds)'], decreases=['rank(ds)'], group='size')
def lemma_sizelist_nonneg(ds):
    if not ds:
        return
    lemma_size_pos(ds[0])
    lemma_sizelist_nonneg(ds[1:])


@C.lemma([('stack', 'Stack')], ensures=['stack_size(stack) >= 0'], triggers=['stack_size(stack)'], decreases=['len(stack)'])
def lemma_stack_size_nonneg(stack):
    if not stack:
        return
    lemma_stack_size_nonneg(stack[:-1])


@C.lemma([('stack', 'Stack'), ('i', 'Int'), ('m', 'Mode'), ('ds', 'ObjList')],
         ensures=['stack_size(push_rev(stack, i, m, ds)) == stack_size(stack) + sizelist(ds) - len(ds)',
                  'implies(wf_stack(stack) and wflist(ds), wf_stack(push_rev(stack, i, m, ds)))'],
         triggers=['push_rev(stack, i, m, ds)'], decreases=['len(ds)'])
def lemma_push_rev_size(stack, i, m, ds):
    if not ds:
        return
    lemma_push_rev_size(stack, i, m, ds[1:])


@C.lemma([('mw', 'Int'), ('smart', 'Bool'), ('mnl', 'Int'), ('w', 'Int'), ('stack', 'Stack'), ('i', 'Int'),
          ('m', 'Mode'), ('ds', 'ObjList')],
         ensures=['fits_stack(mw, smart, mnl, w, push_rev(stack, i, m, ds)) == '
                  '(fits_stack(mw, smart, mnl, walklist(mw, smart, mnl, i, m, ds, w).w, stack) '
                  ' if walklist(mw, smart, mnl, i, m, ds, w).status is GO '
                  ' else walklist(mw, smart, mnl, i, m, ds, w).status is FITS)'],
         triggers=['fits_stack(mw, smart, mnl, w, push_rev(stack, i, m, ds))'], decreases=['len(ds)'])
def lemma_fits_push_rev(mw, smart, mnl, w, stack, i, m, ds):
    if not ds:
        return
    lemma_fits_push_rev(mw, smart, mnl, walk(mw, smart, mnl, i, m, ds[0], w).w, stack, i, m, ds[1:])


# ------------------------------------------------------------------------------------------------
# function contracts

C.contract(DOCTYPES, 'normalize_doc',
           params={'doc': 'Obj'}, returns='Obj',
           requires=['wf(doc)'],
           ensures=[('fn', 'result == norm(doc)')],
           trusted=True,
           note='DEFINITION of the name norm: what normalize_doc returns (determinism of a structural function over the document '
                'value is assumed); its properties (lemma_norm_*) are the postconditions proved in family normalize',
           serves=['C04', 'C05', 'C06', 'C12'])

C.contract(DOCTYPES, 'FlatChoice.when_flat',
           params={'self': 'Obj'}, returns='Obj',
           requires=['isinstance(self, FlatChoice)', 'wf(self)'],
           ensures=[('fn', 'result == acc_flat(self)')],
           trusted=True,
           note='PROVED in family normalize (FlatChoice.when_flat/return/post:fn). The mutation of the cache fields of self is not '
                'modelled at call sites (documents are values there): it replaces a branch by its normalisation',
           serves=['C04', 'C05', 'C06', 'C12'])

C.contract(DOCTYPES, 'FlatChoice.when_broken',
           params={'self': 'Obj'}, returns='Obj',
           requires=['isinstance(self, FlatChoice)', 'wf(self)'],
           ensures=[('fn', 'result == acc_broken(self)')],
           trusted=True, note='PROVED in family normalize (FlatChoice.when_broken/return/post:fn)', serves=['C04', 'C05', 'C06', 'C12'])

U.attr_hooks = {
    ('Obj', 'when_flat'): lambda I, base: I.call_contract(C.fns[DOCTYPES + ':FlatChoice.when_flat'], [base], {}, None),
    ('Obj', 'when_broken'): lambda I, base: I.call_contract(C.fns[DOCTYPES + ':FlatChoice.when_broken'], [base], {}, None),
}


def _pred_contract(name, smart):
    sm = 'True' if smart else 'False'
    F0 = 'fits(max_width, %s, min_nesting_level, old(triplestack))' % sm
    return C.contract(
        LAYOUT, name,
        params={'page_width': 'Int', 'ribbon_frac': 'Float', 'min_nesting_level': 'Int',
                'max_width': 'Int', 'triplestack': 'Stack'},
        returns='Bool',
        requires=['page_width == PW', 'RW == max(0, min(PW, round(ribbon_frac * PW)))', 'wf_stack(triplestack)'],
        ensures=[('iff', 'result == %s' % F0)],
        modifies=['triplestack'],
        loops={0: dict(
            inv=[('wf', 'wf_stack(triplestack)'),
                 ('fits', 'implies(chars_left >= 0, fits_stack(max_width, %s, min_nesting_level, chars_left, triplestack) == %s)' % (sm, F0)),
                 ('over', 'implies(chars_left < 0, not %s)' % F0)],
            decreases=['stack_size(triplestack)'])},
        serves=['C05', 'C06', 'C12'])


_pred_contract('fast_fitting_predicate', False)
_pred_contract('smart_fitting_predicate', True)

C.assume('float multiplication and round() are uninterpreted; only the clamps the code applies are used')
C.assume('Contextual functions are pure and deterministic functions of (indent, column, page_width, ribbon_width) '
         'returning a document whose size is bounded by a ghost weight (lemma_apply_ctx, trusted)')

from . import layout_den  # noqa: E402,F401  (den, best_layout)
from . import layout_c05  # noqa: E402,F401  (C05: the fitting walk bounds the first line)
from . import layout_zone  # noqa: E402,F401  (C05: nested groups of a flat group stay flat)
