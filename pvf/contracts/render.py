"""Family `render` (C16, renderer clause of C04): default_render_to_stream and colored_render_to_stream.

The stream is the sequence of things written to it (`Pieces`): texts and, for the colored renderer, style escapes.
For every sdoc stream, every style, newline and separator:

  plain     stream' == stream ++ line_pieces(lines)                         (lines = as_lines(sdocs), each with the trailing blanks of
                                                                            its last text trimmed)
  colored   drop_styles(stream') == drop_styles(stream) ++ line_pieces(lines)      - removing the styling yields the plain rendering
            style_state(stream') is the reset state, and at every moment the style in effect is the color of the innermost open syntax
            token (the top of the color stack) or the reset state                  - restored when an inner token ends; nothing leaks
            rendering never raises

as_lines, rfind_idx (with the `is a str` predicate) and str.rstrip are shared by both renderers and external here.
"""
import ast
import z3
from pvf.pyvc.universe import Universe
from pvf.pyvc.contract import ContractSet
from pvf.pyvc.interp import OutsideSubset, SymRaise, FuncVal, is_z3, Closure
from pvf.pyvc import interp as _interp

U = Universe('render')
U.uninterpreted('TokId')
U.uninterpreted('OtherAnn')
U.uninterpreted('Color')
U.uninterpreted('Style')
U.uninterpreted('PygTok')
U.uninterpreted('Attrs')
U.declare({
    'Ann': ('data', [('Tok', [('t', 'TokId')]), ('NotTok', [('o', 'OtherAnn')])]),
    'SDoc': ('data', [('Text', [('s', 'Str')]), ('SLine', [('indent', 'Int')]), ('SAnnotationPush', [('value', 'Ann')]),
                      ('SAnnotationPop', [('value', 'Ann')])]),
    'Piece': ('data', [('PText', [('s', 'Str')]), ('PStyle', [('c', 'Color')])]),
    'OptColor': ('data', [('NoColor', []), ('SomeColor', [('v', 'Color')])]),
    'OptStyle': ('data', [('NoStyle', []), ('SomeStyle', [('v', 'Style')])]),
    'SDList': ('list', 'SDoc', 'fwd'),
    'LineList': ('list', 'SDList', 'fwd'),
    'PieceList': ('list', 'Piece', 'fwd'),
    'Pieces': ('list', 'Piece', 'snoc'),
    'ColorStack': ('list', 'Color', 'stack'),
})
U.options = {'OptColor': 'Color', 'OptStyle': 'Style'}
U.classmap['Token'] = ('Ann', 'Tok')
U.classmap['Text'] = ('SDoc', 'Text')
U.classmap['SLine'] = ('SDoc', 'SLine')
U.classmap['SAnnotationPush'] = ('SDoc', 'SAnnotationPush')
U.classmap['SAnnotationPop'] = ('SDoc', 'SAnnotationPop')
Cache = z3.ArraySort(U.sort('TokId'), U.sort('OptColor'))
U.sorts['Cache'] = Cache
RESETC = z3.Const('RESET', U.sort('Color'))
U.consts['RESET'] = RESETC

C = ContractSet(U, 'render')
RENDER = 'prettyprinter.render'
COLOR = 'prettyprinter.color'


# ---- vocabulary ---------------------------------------------------------------------------------
@C.spec([('sdocs', 'SDList')], 'LineList', opaque=True)
def split_lines(sdocs):
    """list(as_lines(sdocs)): a new line starts at every SLine"""
    raise NotImplementedError


@C.spec([('line', 'SDList')], 'Int', opaque=True)
def last_text_idx(line):
    """rfind_idx(lambda sdoc: isinstance(sdoc, str), line)"""
    raise NotImplementedError


@C.spec([('s', 'Str')], 'Str', opaque=True)
def rstripped(s):
    raise NotImplementedError


@C.spec([('sep', 'Str'), ('n', 'Int')], 'Str', opaque=True)
def rep(sep, n):
    """sep * n"""
    raise NotImplementedError


@C.spec([('xs', 'SDList'), ('i', 'Int')], 'SDoc', opaque=True)
def nth(xs, i):
    raise NotImplementedError


@C.spec([('xs', 'SDList'), ('i', 'Int'), ('v', 'SDoc')], 'SDList', opaque=True)
def set_nth(xs, i, v):
    """xs with xs[i] = v"""
    raise NotImplementedError


@C.spec([('line', 'SDList')], 'SDList')
def trimmed(line):
    """the line with the trailing blanks of its last text removed (the renderers do this in place)"""
    if last_text_idx(line) != -1:
        return set_nth(line, last_text_idx(line), Text(rstripped(nth(line, last_text_idx(line)).s)))
    return line


@C.spec([('nl', 'Str'), ('sep', 'Str'), ('out', 'Pieces'), ('xs', 'SDList')], 'Pieces')
def put_line(nl, sep, out, xs):
    """what the plain renderer writes for the items of one (trimmed) line, appended to out"""
    if not xs:
        return out
    if isinstance(xs[0], str):
        return put_line(nl, sep, out + [PText(xs[0].s)], xs[1:])
    if isinstance(xs[0], SLine):
        return put_line(nl, sep, out + [PText(nl + rep(sep, xs[0].indent))], xs[1:])
    return put_line(nl, sep, out, xs[1:])


@C.spec([('nl', 'Str'), ('sep', 'Str'), ('out', 'Pieces'), ('ls', 'LineList')], 'Pieces')
def put_lines(nl, sep, out, ls):
    if not ls:
        return out
    return put_lines(nl, sep, put_line(nl, sep, out, trimmed(ls[0])), ls[1:])


@C.spec([('out', 'Pieces')], 'Pieces')
def drop_styles(out):
    """the stream without the styling"""
    if not out:
        return out
    if isinstance(out[-1], PStyle):
        return drop_styles(out[:-1])
    return drop_styles(out[:-1]) + [out[-1]]


@C.spec([('out', 'Pieces')], 'Color')
def style_state(out):
    """the style in effect after everything written so far: the last style written, the reset state if none"""
    if not out:
        return RESET
    if isinstance(out[-1], PStyle):
        return out[-1].c
    return style_state(out[:-1])


@C.spec([('st', 'ColorStack')], 'Color')
def innermost(st):
    """the color of the innermost open syntax token; the reset state outside every token"""
    if not st:
        return RESET
    return st[-1]


@C.lemma([('line', 'SDList')], ensures=['implies(last_text_idx(line) != -1, isinstance(nth(line, last_text_idx(line)), str))'],
         triggers=['last_text_idx(line)'], trusted=True, note='rfind_idx returns the index of an element that satisfies the predicate, or -1')
def lemma_last_text(line):
    pass


@C.lemma([], ensures=['split_lines([]) == []'], triggers=[], trusted=True, note='as_lines yields nothing for an empty stream')
def lemma_split_empty():
    pass


# ---- the Python the renderers use ----------------------------------------------------------------
U.classmap['PStyle'] = ('Piece', 'PStyle')
U.classmap['PText'] = ('Piece', 'PText')


def _write(I, obj, args, kwargs, node):
    v = args[0]
    sn = I.sort_of(v)
    if sn == 'SDoc':
        if not I.choose_bool(U.is_('SDoc', 'Text', v), '@writes a str'):
            raise SymRaise('TypeError', 'write() of a non-str')
        piece = U.ctor('Piece', 'PText')(U.acc('SDoc', 'Text', 's')(v))
    elif sn == 'Str' or isinstance(v, str):
        piece = U.ctor('Piece', 'PText')(I.coerce(v, 'Str'))
    elif isinstance(v, tuple) and v[:1] == ('escstr',):
        piece = U.ctor('Piece', 'PStyle')(v[1])
    else:
        raise OutsideSubset('stream.write of %r' % (v,))
    I.rebind_target(node, U.cons('Pieces', piece, obj))
    return None


def _rstrip(I, obj, args, kwargs, node):
    if args:
        raise OutsideSubset('rstrip with arguments')
    if not I.choose_bool(U.is_('SDoc', 'Text', obj), '@rstrip of a str'):
        raise SymRaise('AttributeError', 'rstrip')
    return U.ctor('SDoc', 'Text')(I.call_spec(C.specs['rstripped'], [U.acc('SDoc', 'Text', 's')(obj)], {}))


U.method_hooks = {('Pieces', 'write'): _write, ('SDoc', 'rstrip'): _rstrip}


def _subscript_sdlist(I, base, sl):
    if isinstance(sl, ast.Slice):
        return I.list_subscript('SDList', base, sl)
    i = I.ev(sl)
    if isinstance(i, int):
        return I.list_subscript('SDList', base, sl)
    return I.call_spec(C.specs['nth'], [base, i], {})


def _setitem_sdlist(I, base, slice_node, value):
    return I.call_spec(C.specs['set_nth'], [base, I.coerce(I.ev(slice_node), 'Int'), I.coerce(value, 'SDoc')], {})


def _subscript_cache(I, base, sl):
    k = I.coerce(I.ev(sl), 'TokId')
    e = z3.Select(base, k)
    if not I.pure and not I.choose_bool(U.is_('OptColor', 'SomeColor', e), '@cached'):
        raise SymRaise('KeyError', 'color_cache miss')
    return U.acc('OptColor', 'SomeColor', 'v')(e)


def _setitem_cache(I, base, slice_node, value):
    return z3.Store(base, I.coerce(I.ev(slice_node), 'TokId'), U.ctor('OptColor', 'SomeColor')(I.coerce(value, 'Color')))


U.subscript_hooks = {'SDList': _subscript_sdlist, 'Cache': _subscript_cache}
U.setitem_hooks = {'SDList': _setitem_sdlist, 'Cache': _setitem_cache}


def _dict_hook(I, node):
    if not node.keys:
        return z3.K(U.sort('TokId'), U.ctor('OptColor', 'NoColor')())
    raise OutsideSubset('dict display shape')


U.dict_hook = _dict_hook


def _binop(I, op, a, b):
    if isinstance(op, ast.Mult) and I.sort_of(a) == 'Str' and (is_z3(b) or isinstance(b, int)) and I.sort_of(b) == 'Int':
        return I.call_spec(C.specs['rep'], [I.coerce(a, 'Str'), I.coerce(b, 'Int')], {})
    return None


U.binop_hook = _binop


def _as_lines(I, args, kwargs, node):
    return I.call_spec(C.specs['split_lines'], [I.coerce(args[0], 'SDList')], {})


def _rfind_idx(I, args, kwargs, node):
    pred, seq = args
    if not (isinstance(pred, Closure) and isinstance(pred.node, ast.Lambda)
            and ast.unparse(pred.node.body).replace(' ', '') == 'isinstance(sdoc,str)'):
        raise OutsideSubset('rfind_idx with another predicate')
    return I.call_spec(C.specs['last_text_idx'], [I.coerce(seq, 'SDList')], {})


def _b_str(I, args, kwargs, node):
    v = args[0]
    if I.U is U and is_z3(v) and I.sort_of(v) == 'Color':
        return ('escstr', v)
    raise OutsideSubset('str() of %r' % (v,))


_prev_str = _interp.BUILTINS.get('str')
_interp.BUILTINS['str'] = lambda I, a, k, n: _b_str(I, a, k, n) if (I.U is U or _prev_str is None) else _prev_str(I, a, k, n)

pyg_of = z3.Function('pyg_of', U.sort('TokId'), U.sort('PygTok'))
attrs_of = z3.Function('attrs_of', U.sort('Style'), U.sort('PygTok'), U.sort('Attrs'))
colorful_of = z3.Function('colorful_of', U.sort('Attrs'), U.sort('Color'))


def _tokmap_subscript(I, args, kwargs, node):
    raise OutsideSubset('unused')


class _TokMap:
    """_SYNTAX_TOKEN_TO_PYGMENTS_TOKEN: total on the tokens the printers emit (checked exhaustively by the bounded stand-in)"""


_TOKMAP = _TokMap()
_orig_subscript = _interp.Interp.ev_Subscript


def _subscript_patch(self, node):
    if isinstance(node.value, ast.Name) and node.value.id == '_SYNTAX_TOKEN_TO_PYGMENTS_TOKEN' and self.U is U:
        k = self.ev(node.slice)
        if is_z3(k) and self.sort_of(k) == 'Ann':
            if not self.pure and not self.choose_bool(U.is_('Ann', 'Tok', k), '@is a Token'):
                raise SymRaise('KeyError', 'not a syntax token')
            k = U.acc('Ann', 'Tok', 't')(k)
        return pyg_of(self.coerce(k, 'TokId'))
    return _orig_subscript(self, node)


_interp.Interp.ev_Subscript = _subscript_patch


def _style_for_token(I, obj, args, kwargs, node):
    return attrs_of(obj, args[0])


U.method_hooks[('Style', 'style_for_token')] = _style_for_token


def _styleattrs_to_colorful(I, args, kwargs, node):
    return colorful_of(args[0])


def _cache_key(I, v):
    """color_cache is keyed by the Token of the annotation"""
    return v


# keys of color_cache are annotation values known to be Tokens
_orig_cache_sub = _subscript_cache


def _subscript_cache2(I, base, sl):
    k = I.ev(sl)
    if is_z3(k) and I.sort_of(k) == 'Ann':
        k = U.acc('Ann', 'Tok', 't')(k)
    e = z3.Select(base, I.coerce(k, 'TokId'))
    if not I.pure and not I.choose_bool(U.is_('OptColor', 'SomeColor', e), '@cached'):
        raise SymRaise('KeyError', 'color_cache miss')
    return U.acc('OptColor', 'SomeColor', 'v')(e)


def _setitem_cache2(I, base, slice_node, value):
    k = I.ev(slice_node)
    if is_z3(k) and I.sort_of(k) == 'Ann':
        k = U.acc('Ann', 'Tok', 't')(k)
    return z3.Store(base, I.coerce(k, 'TokId'), U.ctor('OptColor', 'SomeColor')(I.coerce(value, 'Color')))


U.subscript_hooks['Cache'] = _subscript_cache2
U.setitem_hooks['Cache'] = _setitem_cache2
U.modules = {'colorful': {'reset': RESETC}}
_interp.BUILTINS.setdefault('list', lambda I, args, kwargs, node: args[0])

_EXT = {
    'as_lines': FuncVal('hook', 'as_lines', _as_lines),
    'rfind_idx': FuncVal('hook', 'rfind_idx', _rfind_idx),
    'styleattrs_to_colorful': FuncVal('hook', 'styleattrs_to_colorful', _styleattrs_to_colorful),
}
C.extern = {RENDER: dict(_EXT), COLOR: dict(_EXT)}

# ---- contracts ------------------------------------------------------------------------------------
_FINAL = 'put_lines(newline, separator, old(stream), split_lines(sdocs))'
_plain = C.contract(
    RENDER, 'default_render_to_stream', params={'stream': 'Pieces', 'sdocs': 'SDList', 'newline': 'Str', 'separator': 'Str'},
    modifies=['stream'],
    ensures=[('writes-the-lines', 'stream == ' + _FINAL)],
    locals_={'sdoc_line': 'SDList'},
    loops={
        0: dict(rest='rest_lines', modifies=['stream', 'sdoc_line'],
                inv=[('remaining', 'put_lines(newline, separator, stream, rest_lines) == ' + _FINAL)],
                decreases=['len(rest_lines)']),
        1: dict(rest='rest_items', modifies=['stream'],
                inv=[('remaining', 'put_lines(newline, separator, put_line(newline, separator, stream, rest_items), rest_lines) == ' + _FINAL)],
                decreases=['len(rest_items)']),
    },
    serves=['C16', 'C04'])
_plain.ghost_exit = ['lemma_split_empty()']
_plain.feas_timeout = 150        # pruning of infeasible branches is an optimisation only
_plain.shards = 8

_CFINAL = 'put_lines(newline, separator, drop_styles(old(stream)), split_lines(sdocs))'
_col = C.contract(
    COLOR, 'colored_render_to_stream',
    params={'stream': 'Pieces', 'sdocs': 'SDList', 'style': 'OptStyle', 'newline': 'Str', 'separator': 'Str'},
    requires=['style_state(stream) == RESET'],
    modifies=['stream'],
    ensures=[('plain-plus-styling', 'drop_styles(stream) == ' + _CFINAL),
             ('ends-reset', 'style_state(stream) == RESET')],
    locals_={'sdoc_line': 'SDList', 'colorstack': 'ColorStack', 'color_cache': 'Cache'},
    ghost={'depth': ('Int', '0')},          # number of syntax-token annotations that are open (pushed and not yet popped)
    loops={
        0: dict(rest='rest_lines', modifies=['stream', 'sdoc_line', 'colorstack', 'color_cache'],
                inv=[('remaining', 'put_lines(newline, separator, drop_styles(stream), rest_lines) == ' + _CFINAL),
                     ('innermost-token-style', 'style_state(stream) == innermost(colorstack)'),
                     ('one-color-per-open-token', 'len(colorstack) == depth and depth >= 0')],
                decreases=['len(rest_lines)']),
        1: dict(rest='rest_items', modifies=['stream', 'colorstack', 'color_cache'],
                inv=[('remaining', 'put_lines(newline, separator, put_line(newline, separator, drop_styles(stream), rest_items), rest_lines) == '
                      + _CFINAL),
                     ('innermost-token-style', 'style_state(stream) == innermost(colorstack)'),
                     ('one-color-per-open-token', 'len(colorstack) == depth and depth >= 0')],
                decreases=['len(rest_items)'],
                ghost_back=['''
if isinstance(sdoc, SAnnotationPush) and isinstance(sdoc.value, Token):
    depth = depth + 1
elif isinstance(sdoc, SAnnotationPop) and isinstance(sdoc.value, Token) and depth > 0:
    depth = depth - 1
''']),
    },
    serves=['C16'])
_col.globals_ = {'default_style': 'Style'}
_col.ghost_exit = ['lemma_split_empty()']
_col.feas_timeout = 150
_col.shards = 16

C.assume('as_lines, rfind_idx(is-a-str predicate) and str.rstrip are the same code for both renderers and are uninterpreted here '
         '(split_lines, last_text_idx, rstripped); a list item store is set_nth; separator * n is rep(separator, n)')
C.assume('_SYNTAX_TOKEN_TO_PYGMENTS_TOKEN is total on syntax tokens, style.style_for_token and styleattrs_to_colorful do not raise and do '
         'not write to the stream (the bounded stand-in runs every token x every pygments style); str(color) is one escape sequence')
C.assume('the stream is the sequence of pieces written to it; the style in effect is the last style piece (colorful.reset is the reset state)')
