"""Denotational semantics of documents (DESIGN 5.1) and the contract of best_layout (C04).

den(i, m, d, st) renders ONE document compositionally from state st = St(out, col, k, brk, fl): `out` the SDocs
emitted so far, `col` the output column, `k` the index of the next unused decision of the oracle.
It is written from the statement of C04: text fragments in document order, a line break indents by
the sum of the enclosing nest offsets, flat_choice by mode, always_break forces broken, annotations
are push/pop pairs around what they wrap, each group / fill step takes its mode from the oracle.
It knows nothing about stacks, reversal, pop markers or lookahead.
"""
import z3
from .layout import C, U, LAYOUT, DOCTYPES


@C.spec([('k', 'Int')], 'Bool', opaque=True)
def oracle(k):
    """the assignment flat(True)/broken(False) of the k-th decision (an arbitrary function)"""
    raise NotImplementedError


# -- which groups normalisation deletes (book-keeping: such groups consume no decision) -----------
@C.spec([('d', 'Obj')], 'Bool')
def nrm_nil(d):
    """normalisation reduces d to NIL"""
    if d is NIL:
        return True
    if isinstance(d, str):
        return len(d) == 0
    if isinstance(d, Concat):
        return nrm_nil_list(d.docs)
    if isinstance(d, Group):
        return nrm_nil(d.doc)
    if isinstance(d, Fill):
        return fill_all_nil(d.docs)
    return False


@C.spec([('ds', 'ObjList')], 'Bool')
def nrm_nil_list(ds):
    if not ds:
        return True
    return nrm_nil(ds[0]) and nrm_nil_list(ds[1:])


@C.spec([('ds', 'ObjList')], 'Bool')
def fill_all_nil(ds):
    """Fill.normalize keeps no item: every item is NIL, literally"""
    if not ds:
        return True
    return ds[0] is NIL and fill_all_nil(ds[1:])


@C.spec([('d', 'Obj')], 'Bool')
def nrm_ab(d):
    """normalisation turns d into an AlwaysBreak (hoisting through concat / nest / group / fill items)"""
    if isinstance(d, AlwaysBreak):
        return True
    if isinstance(d, Concat):
        return nrm_ab_list(d.docs)
    if isinstance(d, Nest):
        return nrm_ab(d.doc)
    if isinstance(d, Group):
        return nrm_ab(d.doc)
    if isinstance(d, Fill):
        return fill_any_ab(d.docs) and not fill_all_nil(d.docs)
    return False


@C.spec([('ds', 'ObjList')], 'Bool')
def nrm_ab_list(ds):
    if not ds:
        return False
    return nrm_ab(ds[0]) or nrm_ab_list(ds[1:])


@C.spec([('ds', 'ObjList')], 'Bool')
def fill_any_ab(ds):
    if not ds:
        return False
    return isinstance(ds[0], AlwaysBreak) or fill_any_ab(ds[1:])


# -- the denotation ---------------------------------------------------------------------------
@C.spec([('i', 'Int'), ('m', 'Mode'), ('d', 'Obj'), ('st', 'St')], 'St')
def den(i, m, d, st):
    if d is NIL:
        return st
    if isinstance(d, str):
        if len(d) == 0:
            return st           # an empty fragment is not observable (normalisation drops it)
        return St(st.out + [d], st.col + len(d), st.k, st.brk, st.fl)
    if d is HARDLINE:
        return St(st.out + [SLine(i)], i, st.k, True, st.fl if st.brk else st.col)
    if isinstance(d, Concat):
        return denlist(i, m, d.docs, st)
    if isinstance(d, Nest):
        return den(i + d.indent, m, d.doc, st)
    if isinstance(d, AlwaysBreak):
        return den(i, BREAK_MODE, d.doc, st)
    if isinstance(d, Annotated):
        return den_close(d.annotation, den(i, m, d.doc, St(st.out + [SAnnotationPush(d.annotation)], st.col, st.k, st.brk, st.fl)))
    if isinstance(d, FlatChoice):
        if m is FLAT_MODE:
            return den(i, m, d._when_flat, st)
        return den(i, m, d._when_broken, st)
    if isinstance(d, Group):
        if reach_ab(d.doc) or nrm_nil(d.doc):
            # forced content (an always_break is reachable in the flat rendering), or nothing to render: no decision
            return den(i, BREAK_MODE, d.doc, st)
        if oracle(st.k):
            return den(i, FLAT_MODE, d.doc, St(st.out, st.col, st.k + 1, st.brk, st.fl))
        return den(i, BREAK_MODE, d.doc, St(st.out, st.col, st.k + 1, st.brk, st.fl))
    if isinstance(d, Fill):
        return denfill(i, m, d.docs, st)
    if isinstance(d, Contextual):
        return den(i, m, apply_ctx(d.fn, i, st.col, PW, RW), st)
    if isinstance(d, SAnnotationPop):
        return St(st.out + [d], st.col, st.k, st.brk, st.fl)
    return st


@C.spec([('a', 'Ann'), ('st', 'St')], 'St')
def den_close(a, st):
    return St(st.out + [SAnnotationPop(a)], st.col, st.k, st.brk, st.fl)


@C.spec([('out', 'Out')], 'Out')
def erase_empty(out):
    """the emitted stream without empty text fragments"""
    if not out:
        return out
    if isinstance(out[-1], str) and len(out[-1]) == 0:
        return erase_empty(out[:-1])
    return erase_empty(out[:-1]) + [out[-1]]


@C.spec([('i', 'Int'), ('m', 'Mode'), ('ds', 'ObjList'), ('st', 'St')], 'St')
def denlist(i, m, ds, st):
    if not ds:
        return st
    return denlist(i, m, ds[1:], den(i, m, ds[0], st))


@C.spec([('b', 'Bool')], 'Mode')
def md(b):
    if b:
        return FLAT_MODE
    return BREAK_MODE


@C.spec([('i', 'Int'), ('m', 'Mode'), ('ds', 'ObjList'), ('st', 'St')], 'St')
def denfill(i, m, ds, st):
    """fill: per (content, separator) step the items take their modes from the oracle:
    a lone last content one decision; exactly two items one decision for both; otherwise two decisions
    (content, separator) taken together before either is rendered; the rest follows"""
    if not ds:
        return st
    if not ds[1:]:
        return den(i, md(oracle(st.k)), ds[0], St(st.out, st.col, st.k + 1, st.brk, st.fl))
    if not ds[2:]:
        return den(i, md(oracle(st.k)), ds[1], den(i, md(oracle(st.k)), ds[0], St(st.out, st.col, st.k + 1, st.brk, st.fl)))
    return denfill(i, m, ds[2:],
                   den(i, md(oracle(st.k + 1)), ds[1],
                       den(i, md(oracle(st.k)), ds[0], St(st.out, st.col, st.k + 2, st.brk, st.fl))))


@C.spec([('stack', 'Stack'), ('st', 'St')], 'St')
def dens(stack, st):
    """the stack content, top first"""
    if not stack:
        return st
    return dens(stack[:-1], den(stack[-1][0], stack[-1][1], stack[-1][2], st))


# -- hard lines inside groups (the carved shape, DESIGN section 7 row 12) ---------------------------
@C.spec([('d', 'Obj')], 'Bool')
def nohl(d):
    """no literal hard line is reachable when d is traversed in flat mode (stopping at always_break)"""
    if d is HARDLINE:
        return False
    if isinstance(d, Concat):
        return nohl_list(d.docs)
    if isinstance(d, Fill):
        return nohl_list(d.docs)
    if isinstance(d, Nest):
        return nohl(d.doc)
    if isinstance(d, Group):
        return nohl(d.doc)
    if isinstance(d, Annotated):
        return nohl(d.doc)
    if isinstance(d, FlatChoice):
        return nohl(d._when_flat)
    if isinstance(d, Contextual):
        return ctx_ok(d.fn)
    return True


@C.spec([('ds', 'ObjList')], 'Bool')
def nohl_list(ds):
    if not ds:
        return True
    return nohl(ds[0]) and nohl_list(ds[1:])


@C.spec([('fn', 'CtxFn')], 'Bool', opaque=True)
def ctx_ok(fn):
    """the contextual function only returns documents that are hlsafe and nohl"""
    return True


@C.spec([('d', 'Obj')], 'Bool')
def hlsafe(d):
    """no group and no fill item of d has a literal hard line in its flat rendering, and no fill item puts an
    always_break next to flat content (the carved shapes of C04)"""
    if isinstance(d, Concat):
        return hlsafe_list(d.docs)
    if isinstance(d, Fill):
        return hlsafe_list(d.docs) and nohl_list(d.docs) and itemsok(d.docs)
    if isinstance(d, Nest):
        return hlsafe(d.doc)
    if isinstance(d, AlwaysBreak):
        return hlsafe(d.doc)
    if isinstance(d, Annotated):
        return hlsafe(d.doc)
    if isinstance(d, Group):
        return nohl(d.doc) and hlsafe(d.doc)
    if isinstance(d, FlatChoice):
        return hlsafe(d._when_flat) and hlsafe(d._when_broken)
    if isinstance(d, Contextual):
        return ctx_ok(d.fn)
    return True


@C.spec([('ds', 'ObjList')], 'Bool')
def hlsafe_list(ds):
    if not ds:
        return True
    return hlsafe(ds[0]) and hlsafe_list(ds[1:])


@C.spec([('stack', 'Stack')], 'Bool')
def hlsafe_stack(stack):
    if not stack:
        return True
    return hlsafe(stack[-1][2]) and hlsafe_stack(stack[:-1])


# -- always_break next to flat content ---------------------------------------------------------------
@C.spec([('d', 'Obj')], 'Bool')
def reach_ab(d):
    """an always_break is reachable when d is traversed in flat mode (contextual documents are opaque)"""
    if isinstance(d, AlwaysBreak):
        return True
    if isinstance(d, Concat):
        return reach_ab_list(d.docs)
    if isinstance(d, Fill):
        return reach_ab_list(d.docs)
    if isinstance(d, Nest):
        return reach_ab(d.doc)
    if isinstance(d, Group):
        return reach_ab(d.doc)
    if isinstance(d, Annotated):
        return reach_ab(d.doc)
    if isinstance(d, FlatChoice):
        return reach_ab(d._when_flat)
    return False


@C.spec([('ds', 'ObjList')], 'Bool')
def reach_ab_list(ds):
    if not ds:
        return False
    return reach_ab(ds[0]) or reach_ab_list(ds[1:])


@C.spec([('m', 'Mode'), ('d', 'Obj')], 'Bool')
def flatok(m, d):
    """rendering d in mode m never shows the flat alternative of a choice next to an always_break:
    normalisation (which hoists always_break over its siblings) does not change such a rendering"""
    return m is BREAK_MODE or isinstance(d, AlwaysBreak) or not reach_ab(d)


@C.spec([('ds', 'ObjList')], 'Bool')
def itemsok(ds):
    if not ds:
        return True
    return (isinstance(ds[0], AlwaysBreak) or not reach_ab(ds[0])) and itemsok(ds[1:])


@C.spec([('stack', 'Stack')], 'Bool')
def flatok_stack(stack):
    if not stack:
        return True
    return flatok(stack[-1][1], stack[-1][2]) and flatok_stack(stack[:-1])


@C.spec([('d', 'Obj')], 'Bool')
def fillclean(d):
    """no fill has a NIL item (normalisation drops such items, which re-pairs contents and separators)"""
    if isinstance(d, Concat):
        return fillclean_list(d.docs)
    if isinstance(d, Fill):
        return no_nil_item(d.docs) and fillclean_list(d.docs)
    if isinstance(d, Nest):
        return fillclean(d.doc)
    if isinstance(d, Group):
        return fillclean(d.doc)
    if isinstance(d, AlwaysBreak):
        return fillclean(d.doc)
    if isinstance(d, Annotated):
        return fillclean(d.doc)
    if isinstance(d, FlatChoice):
        return fillclean(d._when_flat) and fillclean(d._when_broken)
    if isinstance(d, Contextual):
        return ctx_ok(d.fn)
    return True


@C.spec([('ds', 'ObjList')], 'Bool')
def fillclean_list(ds):
    if not ds:
        return True
    return fillclean(ds[0]) and fillclean_list(ds[1:])


@C.spec([('ds', 'ObjList')], 'Bool')
def no_nil_item(ds):
    if not ds:
        return True
    return ds[0] is not NIL and no_nil_item(ds[1:])



@C.spec([('stack', 'Stack')], 'Bool')
def fillclean_stack(stack):
    if not stack:
        return True
    return fillclean(stack[-1][2]) and fillclean_stack(stack[:-1])


# ------------------------------------------------------------------------------------------------
# lemmas

@C.lemma([('i', 'Int'), ('m', 'Mode'), ('d', 'Obj'), ('st', 'St')],
         requires=['wf(d)', 'flatok(m, d)', 'fillclean(d)'], ensures=['den(i, m, norm(d), st) == den(i, m, d, st)'],
         triggers=['den(i, m, norm(d), st)'], trusted=True,
         note='postcondition `den` of normalize_doc, PROVED in family normalize (normalize_doc/return/post:den and the methods it '
              'dispatches to): normalisation preserves the denotation wherever no flat alternative stands next to an always_break '
              '(flatok) and no fill has a NIL item (fillclean); restated over norm(d)')
def lemma_norm_den(i, m, d, st):
    pass


@C.lemma([('d', 'Obj')], requires=['wf(d)'],
         ensures=['implies(hlsafe(d), hlsafe(norm(d)))', 'implies(nohl(d), nohl(norm(d)))',
                  'reach_ab(norm(d)) == reach_ab(d)',
                  'implies(flatok(FLAT_MODE, d), flatok(FLAT_MODE, norm(d)))',
                  'implies(fillclean(d), fillclean(norm(d)))'],
         triggers=['norm(d)'], trusted=True,
         note='postconditions hlsafe / nohl / reach / flatok / fillclean of normalize_doc, PROVED in family normalize; restated over norm(d)')
def lemma_norm_shape(d):
    pass


@C.lemma([('i', 'Int'), ('m', 'Mode'), ('d', 'Obj'), ('st', 'St')],
         requires=['isinstance(d, FlatChoice)', 'wf(d)', 'flatok(m, d._when_flat)', 'fillclean(d._when_flat)'],
         ensures=['den(i, m, acc_flat(d), st) == den(i, m, d._when_flat, st)'],
         triggers=['den(i, m, acc_flat(d), st)'])
def lemma_acc_flat_den(i, m, d, st):
    lemma_norm_den(i, m, d._when_flat, st)


@C.lemma([('i', 'Int'), ('m', 'Mode'), ('d', 'Obj'), ('st', 'St')],
         requires=['isinstance(d, FlatChoice)', 'wf(d)', 'flatok(m, d._when_broken)', 'fillclean(d._when_broken)'],
         ensures=['den(i, m, acc_broken(d), st) == den(i, m, d._when_broken, st)'],
         triggers=['den(i, m, acc_broken(d), st)'])
def lemma_acc_broken_den(i, m, d, st):
    lemma_norm_den(i, m, d._when_broken, st)


@C.lemma([('fn', 'CtxFn'), ('a', 'Int'), ('b', 'Int'), ('c', 'Int'), ('d', 'Int')],
         requires=['ctx_ok(fn)'],
         ensures=['hlsafe(apply_ctx(fn, a, b, c, d))', 'nohl(apply_ctx(fn, a, b, c, d))',
                  'flatok(FLAT_MODE, apply_ctx(fn, a, b, c, d))', 'fillclean(apply_ctx(fn, a, b, c, d))'],
         triggers=['apply_ctx(fn, a, b, c, d)'], trusted=True,
         note='definition of ctx_ok: a premise about user contextual functions (align/hang of hlsafe documents satisfy it)')
def lemma_ctx_ok(fn, a, b, c, d):
    pass


@C.lemma([('i', 'Int'), ('m', 'Mode'), ('ds', 'ObjList'), ('st', 'St')],
         ensures=['denfill(i, m, ds, st) == denfill(i, BREAK_MODE, ds, st)'],
         triggers=['denfill(i, m, ds, st)'], decreases=['rank(ds)'])
def lemma_denfill_mode(i, m, ds, st):
    """the enclosing mode is irrelevant for a fill: every item takes its mode from the oracle"""
    if not ds:
        return
    if not ds[1:]:
        return
    if not ds[2:]:
        return
    lemma_denfill_mode(i, m, ds[2:], den(i, md(oracle(st.k + 1)), ds[1], den(i, md(oracle(st.k)), ds[0], St(st.out, st.col, st.k + 2, st.brk, st.fl))))


@C.lemma([('i', 'Int'), ('d', 'Obj'), ('st', 'St')],
         requires=['nrm_nil(d)'], ensures=['den(i, FLAT_MODE, d, st) == den(i, BREAK_MODE, d, st)'],
         triggers=['den(i, FLAT_MODE, d, st)'], decreases=['rank(d)'], group='nil')
def lemma_nil_mode(i, d, st):
    """a document that normalisation deletes renders the same in both modes"""
    if isinstance(d, Concat):
        lemma_nil_mode_list(i, d.docs, st)


@C.lemma([('i', 'Int'), ('ds', 'ObjList'), ('st', 'St')],
         requires=['nrm_nil_list(ds)'], ensures=['denlist(i, FLAT_MODE, ds, st) == denlist(i, BREAK_MODE, ds, st)'],
         triggers=['denlist(i, FLAT_MODE, ds, st)'], decreases=['rank(ds)'], group='nil')
def lemma_nil_mode_list(i, ds, st):
    if not ds:
        return
    lemma_nil_mode(i, ds[0], st)
    lemma_nil_mode_list(i, ds[1:], den(i, BREAK_MODE, ds[0], st))


@C.lemma([('rest', 'Stack'), ('i', 'Int'), ('m', 'Mode'), ('ds', 'ObjList'), ('st', 'St')],
         ensures=['dens(push_rev(rest, i, m, ds), st) == dens(rest, denlist(i, m, ds, st))'],
         triggers=['dens(push_rev(rest, i, m, ds), st)'], decreases=['len(ds)'])
def lemma_dens_push_rev(rest, i, m, ds, st):
    if not ds:
        return
    lemma_dens_push_rev(rest, i, m, ds[1:], den(i, m, ds[0], st))


@C.lemma([('stack', 'Stack'), ('i', 'Int'), ('m', 'Mode'), ('ds', 'ObjList')],
         ensures=['implies(hlsafe_stack(stack) and hlsafe_list(ds), hlsafe_stack(push_rev(stack, i, m, ds)))'],
         triggers=['push_rev(stack, i, m, ds)'], decreases=['len(ds)'])
def lemma_push_rev_hlsafe(stack, i, m, ds):
    if not ds:
        return
    lemma_push_rev_hlsafe(stack, i, m, ds[1:])


# -- a group whose content normalises to an always_break is never laid out flat ---------------------
_WQ = [('mw', 'Int'), ('smart', 'Bool'), ('mnl', 'Int'), ('i', 'Int')]


@C.lemma(_WQ + [('m', 'Mode'), ('d', 'Obj'), ('w', 'Int')],
         requires=['w >= 0', 'wf(d)'],
         ensures=['implies(walk(mw, smart, mnl, i, m, d, w).status is GO, walk(mw, smart, mnl, i, m, d, w).w >= 0)'],
         triggers=['walk(mw, smart, mnl, i, m, d, w)'], decreases=['size(d)'], group='go')
def lemma_go_nonneg(mw, smart, mnl, i, m, d, w):
    if isinstance(d, Concat):
        lemma_go_nonneg_list(mw, smart, mnl, i, m, d.docs, w)
    elif isinstance(d, Fill):
        lemma_go_nonneg_list(mw, smart, mnl, i, m, d.docs, w)
    elif isinstance(d, Annotated):
        lemma_go_nonneg(mw, smart, mnl, i, m, d.doc, w)
    elif isinstance(d, Nest):
        lemma_go_nonneg(mw, smart, mnl, i + d.indent, m, d.doc, w)
    elif isinstance(d, Group):
        lemma_go_nonneg(mw, smart, mnl, i, FLAT_MODE, d.doc, w)
    elif isinstance(d, FlatChoice):
        lemma_go_nonneg(mw, smart, mnl, i, m, acc_flat(d), w)
        lemma_go_nonneg(mw, smart, mnl, i, m, acc_broken(d), w)
    elif isinstance(d, Contextual):
        lemma_go_nonneg(mw, smart, mnl, i, m, norm(apply_ctx(d.fn, i, mw - w, PW, RW)), w)


@C.lemma(_WQ + [('m', 'Mode'), ('ds', 'ObjList'), ('w', 'Int')],
         requires=['w >= 0', 'wflist(ds)'],
         ensures=['implies(walklist(mw, smart, mnl, i, m, ds, w).status is GO, walklist(mw, smart, mnl, i, m, ds, w).w >= 0)'],
         triggers=['walklist(mw, smart, mnl, i, m, ds, w)'], decreases=['sizelist(ds)'], group='go')
def lemma_go_nonneg_list(mw, smart, mnl, i, m, ds, w):
    if not ds:
        return
    lemma_go_nonneg(mw, smart, mnl, i, m, ds[0], w)
    if walk(mw, smart, mnl, i, m, ds[0], w).status is GO:
        lemma_go_nonneg_list(mw, smart, mnl, i, m, ds[1:], walk(mw, smart, mnl, i, m, ds[0], w).w)




@C.lemma(_WQ + [('d', 'Obj'), ('w', 'Int')],
         requires=['nohl(d)', 'wf(d)'],
         ensures=['not (walk(mw, smart, mnl, i, FLAT_MODE, d, w).status is FITS)'],
         triggers=['walk(mw, smart, mnl, i, FLAT_MODE, d, w)'], decreases=['size(d)'], group='nofits')
def lemma_nofits(mw, smart, mnl, i, d, w):
    """without a hard line the flat walk never ends by reaching a line break"""
    if isinstance(d, Concat):
        lemma_nofits_list(mw, smart, mnl, i, d.docs, w)
    elif isinstance(d, Fill):
        lemma_nofits_list(mw, smart, mnl, i, d.docs, w)
    elif isinstance(d, Annotated):
        lemma_nofits(mw, smart, mnl, i, d.doc, w)
    elif isinstance(d, Nest):
        lemma_nofits(mw, smart, mnl, i + d.indent, d.doc, w)
    elif isinstance(d, Group):
        lemma_nofits(mw, smart, mnl, i, d.doc, w)
    elif isinstance(d, FlatChoice):
        lemma_nofits(mw, smart, mnl, i, acc_flat(d), w)
    elif isinstance(d, Contextual):
        lemma_nofits(mw, smart, mnl, i, norm(apply_ctx(d.fn, i, mw - w, PW, RW)), w)


@C.lemma(_WQ + [('ds', 'ObjList'), ('w', 'Int')],
         requires=['nohl_list(ds)', 'wflist(ds)'],
         ensures=['not (walklist(mw, smart, mnl, i, FLAT_MODE, ds, w).status is FITS)'],
         triggers=['walklist(mw, smart, mnl, i, FLAT_MODE, ds, w)'], decreases=['sizelist(ds)'], group='nofits')
def lemma_nofits_list(mw, smart, mnl, i, ds, w):
    if not ds:
        return
    lemma_nofits(mw, smart, mnl, i, ds[0], w)
    lemma_nofits_list(mw, smart, mnl, i, ds[1:], walk(mw, smart, mnl, i, FLAT_MODE, ds[0], w).w)


@C.lemma(_WQ + [('d', 'Obj'), ('w', 'Int')],
         requires=['reach_ab(d)', 'nohl(d)', 'w >= 0', 'wf(d)'],
         ensures=['walk(mw, smart, mnl, i, FLAT_MODE, d, w).status is FAILS'],
         triggers=['walk(mw, smart, mnl, i, FLAT_MODE, d, w)'], decreases=['size(d)'], group='forced')
def lemma_forced_fails(mw, smart, mnl, i, d, w):
    """content with an always_break reachable in its flat rendering, and no hard line in front of it, never fits
    (why a forced group is never laid out flat)"""
    if isinstance(d, Concat):
        lemma_forced_fails_list(mw, smart, mnl, i, d.docs, w)
    elif isinstance(d, Fill):
        lemma_forced_fails_list(mw, smart, mnl, i, d.docs, w)
    elif isinstance(d, Nest):
        lemma_forced_fails(mw, smart, mnl, i + d.indent, d.doc, w)
    elif isinstance(d, Group):
        lemma_forced_fails(mw, smart, mnl, i, d.doc, w)
    elif isinstance(d, Annotated):
        lemma_forced_fails(mw, smart, mnl, i, d.doc, w)
    elif isinstance(d, FlatChoice):
        lemma_forced_fails(mw, smart, mnl, i, acc_flat(d), w)


@C.lemma(_WQ + [('ds', 'ObjList'), ('w', 'Int')],
         requires=['reach_ab_list(ds)', 'nohl_list(ds)', 'w >= 0', 'wflist(ds)'],
         ensures=['walklist(mw, smart, mnl, i, FLAT_MODE, ds, w).status is FAILS'],
         triggers=['walklist(mw, smart, mnl, i, FLAT_MODE, ds, w)'], decreases=['sizelist(ds)'], group='forced')
def lemma_forced_fails_list(mw, smart, mnl, i, ds, w):
    if not ds:
        return
    if reach_ab(ds[0]):
        lemma_forced_fails(mw, smart, mnl, i, ds[0], w)
    elif walk(mw, smart, mnl, i, FLAT_MODE, ds[0], w).status is GO:
        lemma_forced_fails_list(mw, smart, mnl, i, ds[1:], walk(mw, smart, mnl, i, FLAT_MODE, ds[0], w).w)


@C.lemma(_WQ + [('d', 'Obj'), ('w', 'Int')],
         ensures=['implies(walk(mw, smart, mnl, i, FLAT_MODE, d, w).status is GO, not reach_ab(d))'],
         requires=['wf(d)'],
         triggers=['walk(mw, smart, mnl, i, FLAT_MODE, d, w)'], decreases=['size(d)'], group='goab')
def lemma_go_abfree(mw, smart, mnl, i, d, w):
    """a flat walk that runs through a whole document met no always_break"""
    if isinstance(d, Concat):
        lemma_go_abfree_list(mw, smart, mnl, i, d.docs, w)
    elif isinstance(d, Fill):
        lemma_go_abfree_list(mw, smart, mnl, i, d.docs, w)
    elif isinstance(d, Annotated):
        lemma_go_abfree(mw, smart, mnl, i, d.doc, w)
    elif isinstance(d, Nest):
        lemma_go_abfree(mw, smart, mnl, i + d.indent, d.doc, w)
    elif isinstance(d, Group):
        lemma_go_abfree(mw, smart, mnl, i, d.doc, w)
    elif isinstance(d, FlatChoice):
        lemma_go_abfree(mw, smart, mnl, i, acc_flat(d), w)


@C.lemma(_WQ + [('ds', 'ObjList'), ('w', 'Int')],
         ensures=['implies(walklist(mw, smart, mnl, i, FLAT_MODE, ds, w).status is GO, not reach_ab_list(ds))'],
         requires=['wflist(ds)'],
         triggers=['walklist(mw, smart, mnl, i, FLAT_MODE, ds, w)'], decreases=['sizelist(ds)'], group='goab')
def lemma_go_abfree_list(mw, smart, mnl, i, ds, w):
    if not ds:
        return
    lemma_go_abfree(mw, smart, mnl, i, ds[0], w)
    lemma_go_abfree_list(mw, smart, mnl, i, ds[1:], walk(mw, smart, mnl, i, FLAT_MODE, ds[0], w).w)


@C.lemma([('stack', 'Stack'), ('i', 'Int'), ('m', 'Mode'), ('ds', 'ObjList')],
         ensures=['implies(flatok_stack(stack) and (m is BREAK_MODE or not reach_ab_list(ds)), '
                  'flatok_stack(push_rev(stack, i, m, ds)))'],
         triggers=['push_rev(stack, i, m, ds)'], decreases=['len(ds)'])
def lemma_push_rev_flatok(stack, i, m, ds):
    if not ds:
        return
    lemma_push_rev_flatok(stack, i, m, ds[1:])


@C.lemma([('stack', 'Stack'), ('i', 'Int'), ('m', 'Mode'), ('ds', 'ObjList')],
         ensures=['implies(fillclean_stack(stack) and fillclean_list(ds), fillclean_stack(push_rev(stack, i, m, ds)))'],
         triggers=['push_rev(stack, i, m, ds)'], decreases=['len(ds)'])
def lemma_push_rev_fillclean(stack, i, m, ds):
    if not ds:
        return
    lemma_push_rev_fillclean(stack, i, m, ds[1:])


# ------------------------------------------------------------------------------------------------
# contracts: best_layout against den

C.proto('fitting_predicate',
        params={'page_width': 'Int', 'ribbon_frac': 'Float', 'min_nesting_level': 'Int',
                'max_width': 'Int', 'triplestack': 'Stack'},
        returns='Bool',
        requires=['page_width == PW', 'RW == max(0, min(PW, round(ribbon_frac * PW)))', 'wf_stack(triplestack)'],
        ensures=[('iff', 'result == fits(max_width, SMART, min_nesting_level, old(triplestack))')],
        modifies=['triplestack'],
        note='the common contract of fast_fitting_predicate (SMART False) and smart_fitting_predicate (SMART True)')

_FINAL = 'den(old(outcol), old(mode), old(doc), St([], old(outcol), 0, False, 0))'

C.contract(
    LAYOUT, 'best_layout',
    params={'doc': 'Obj', 'width': 'Int', 'ribbon_frac': 'Float', 'fitting_predicate': 'fn', 'outcol': 'Int', 'mode': 'Mode'},
    fnparams={'fitting_predicate': 'fitting_predicate'},
    yields='Out', locals_={'triplestack': 'Stack'},
    requires=['width == PW', 'RW == max(0, min(PW, round(ribbon_frac * PW)))', 'wf(doc)', 'hlsafe(doc)', 'flatok(mode, doc)',
              'fillclean(doc)'],
    ghost={'ok': ('Bool', 'True'), 'k': ('Int', '0'), 'gb': ('Bool', 'False'), 'gf': ('Int', '0')},
    ensures=[('den', 'implies(ok, erase_empty(result) == %s.out)' % _FINAL)],
    loops={0: dict(
        inv=[('wf', 'wf_stack(triplestack)'),
             ('hlsafe', 'hlsafe_stack(triplestack)'),
             ('flatok', 'flatok_stack(triplestack)'),
             ('fillclean', 'fillclean_stack(triplestack)'),
             ('rw', 'ribbon_width == RW'),
             ('den', 'implies(ok, dens(triplestack, St(erase_empty(__out__), outcol, k, gb, gf)) == %s)' % _FINAL)],
        decreases=['stack_size(triplestack)'],
        ghost_back=['''
if doc is HARDLINE:
    # St also records where the FIRST line of a rendering ended (fl) and whether it ended (brk): for the whole run here
    if not gb:
        gf = athead(outcol)
    gb = True
if isinstance(doc, Group):
    # C05 / C06: the mode the group continues in is FLAT exactly when the content of the group and what follows it on
    # the line fit into the available width (fits() is the compositional width semantics the predicates are proved
    # equal to): a group is laid out flat only if it fits, and broken only for one of the reasons fits() unfolds to
    assert (triplestack[-1][1] is FLAT_MODE) == fits(available_width, SMART, min_nesting_level, triplestack[:-1] + [(indent, FLAT_MODE, doc.doc)])
    assert available_width == min(width - outcol, indent + RW - outcol)
    if not (reach_ab(doc.doc) or nrm_nil(doc.doc)):
        ok = ok and (oracle(k) == (triplestack[-1][1] is FLAT_MODE))
        k = k + 1
    if triplestack[-1][1] is FLAT_MODE and classic_stack(triplestack):
        # C05: a group laid out flat never overflows.  What remains to be rendered is dens(triplestack, ...) (invariant
        # `den`); its first line - the one the text of this group is put on - ends at or before the page width and the
        # ribbon counted from the current indentation, whatever is decided later (any oracle).  Classic documents.
        lemma_fits_mono(available_width, min_nesting_level, available_width, triplestack)
        lemma_fits_bounds_line(available_width, min_nesting_level, available_width, triplestack, St(erase_empty(__out__), outcol, k, False, 0))
        lemma_indep_stack(triplestack, St(erase_empty(__out__), outcol, k, gb, gf), False, 0)
        assert lineend(dens(triplestack, St(erase_empty(__out__), outcol, k, False, 0))) <= min(width, indent + RW)
        assert implies(ok, dens(triplestack, St(erase_empty(__out__), outcol, k, False, 0)).out == FINAL_.out)
elif isinstance(doc, Fill):
    if doc.docs:
        if not doc.docs[1:]:
            ok = ok and (oracle(k) == (triplestack[-1][1] is FLAT_MODE))
            k = k + 1
        elif not doc.docs[2:]:
            ok = ok and (oracle(k) == (triplestack[-1][1] is FLAT_MODE)) and (oracle(k) == (triplestack[:-1][-1][1] is FLAT_MODE))
            k = k + 1
        else:
            ok = ok and (oracle(k) == (triplestack[-1][1] is FLAT_MODE)) and (oracle(k + 1) == (triplestack[:-1][-1][1] is FLAT_MODE))
            k = k + 2
'''.replace('FINAL_', _FINAL)])},
    serves=['C04', 'C05', 'C12'],
    note='ok records that the free oracle agrees with the decisions the engine took; the decision indices are distinct, '
         'so an oracle with ok == True exists for every run (meta-argument, DESIGN 5.1)')

C.fns[LAYOUT + ':best_layout'].shards = 12
C.assume('existence of an agreeing oracle: the recorded decisions have pairwise distinct indices k (k only grows), '
         'hence some oracle satisfies ok; the theorem exists O. output == den(doc, O) follows (meta-argument)')
C.assume('documents satisfy hlsafe (no literal hard line inside the flat rendering of a group); outside that shape the '
         'engine lays a forced group out flat: known finding, covered by the bounded reference matcher')
