"""C05, second part: a group nested in a group that was laid out flat is laid out flat too (classic documents, non-negative
nest offsets, no align) - so all the text of a flat group sits on the line bounded by the first part (layout_c05.py).

best_layout decides EVERY group again, also inside a flat group (known finding under align: the inner decision can come out
broken).  For classic documents with non-negative nests it cannot: while the content of a flat group is on top of the stack
(the "zone"), the rest of the line still fits the budget the enclosing decision verified,

    fits_stack(aw_g, SMART, mnl_g, aw_g - (outcol - col_g), triplestack),

and the inner decision asks for less: its available width is at least that budget (the indentation can only have grown),
its min_nesting_level is at least mnl_g, and the width parameter is irrelevant without contextual documents.
"""
from .layout import C, U
from . import layout_den, layout_c05  # noqa: F401


@C.spec([('d', 'Obj')], 'Bool')
def nnn(d):
    """every nest offset is non-negative (classic documents)"""
    if isinstance(d, Concat):
        return nnn_list(d.docs)
    if isinstance(d, Nest):
        return d.indent >= 0 and nnn(d.doc)
    if isinstance(d, Group):
        return nnn(d.doc)
    if isinstance(d, AlwaysBreak):
        return nnn(d.doc)
    return True


@C.spec([('ds', 'ObjList')], 'Bool')
def nnn_list(ds):
    if not ds:
        return True
    return nnn(ds[0]) and nnn_list(ds[1:])


@C.spec([('stack', 'Stack')], 'Bool')
def nnn_stack(stack):
    if not stack:
        return True
    return nnn(stack[-1][2]) and nnn_stack(stack[:-1])


@C.spec([('stack', 'Stack')], 'Bool')
def top_flat(stack):
    if not stack:
        return False
    return stack[-1][1] is FLAT_MODE


@C.spec([('stack', 'Stack')], 'Bool')
def all_break(stack):
    if not stack:
        return True
    return stack[-1][1] is BREAK_MODE and all_break(stack[:-1])


@C.spec([('stack', 'Stack')], 'Bool')
def shape(stack):
    """flat-mode entries (the content of the innermost flat group) on top, break-mode entries below"""
    if not stack:
        return True
    if stack[-1][1] is BREAK_MODE:
        return all_break(stack[:-1])
    return shape(stack[:-1])


@C.spec([('stack', 'Stack'), ('ig', 'Int')], 'Bool')
def zone(stack, ig):
    """the flat-mode entries on top are indented at least ig and contain no literal hard line"""
    if not stack:
        return True
    if stack[-1][1] is BREAK_MODE:
        return True
    return stack[-1][0] >= ig and nohl(stack[-1][2]) and zone(stack[:-1], ig)


# ---- push_rev keeps the stack predicates -----------------------------------------------------------------------
@C.lemma([('stack', 'Stack'), ('i', 'Int'), ('m', 'Mode'), ('ds', 'ObjList')],
         ensures=['implies(classic_stack(stack) and classic_list(ds), classic_stack(push_rev(stack, i, m, ds)))',
                  'implies(nnn_stack(stack) and nnn_list(ds), nnn_stack(push_rev(stack, i, m, ds)))',
                  'implies(m is BREAK_MODE and all_break(stack), all_break(push_rev(stack, i, m, ds)))',
                  'implies(m is FLAT_MODE and shape(stack), shape(push_rev(stack, i, m, ds)))',
                  'implies(m is BREAK_MODE and all_break(stack), shape(push_rev(stack, i, m, ds)))'],
         triggers=['push_rev(stack, i, m, ds)'], decreases=['len(ds)'])
def lemma_push_rev_preds(stack, i, m, ds):
    if not ds:
        return
    lemma_push_rev_preds(stack, i, m, ds[1:])


@C.lemma([('stack', 'Stack'), ('i', 'Int'), ('m', 'Mode'), ('ig', 'Int'), ('ds', 'ObjList')],
         requires=['zone(stack, ig)', 'm is BREAK_MODE or (i >= ig and nohl_list(ds))'],
         ensures=['zone(push_rev(stack, i, m, ds), ig)'],
         triggers=['zone(push_rev(stack, i, m, ds), ig)'], decreases=['len(ds)'])
def lemma_push_rev_zone(stack, i, m, ig, ds):
    if not ds:
        return
    lemma_push_rev_zone(stack, i, m, ig, ds[1:])


@C.lemma([('stack', 'Stack')], ensures=['implies(all_break(stack), not top_flat(stack) and shape(stack))'],
         triggers=['all_break(stack)'], decreases=['len(stack)'])
def lemma_all_break_top(stack):
    if not stack:
        return
    lemma_all_break_top(stack[:-1])


# ---- the width parameter is irrelevant without contextual documents ------------------------------------------------
_P = [('mw', 'Int'), ('mw2', 'Int'), ('smart', 'Bool'), ('mnl', 'Int')]


@C.lemma(_P + [('i', 'Int'), ('m', 'Mode'), ('d', 'Obj'), ('w', 'Int')], requires=['classic(d)'],
         ensures=['walk(mw, smart, mnl, i, m, d, w) == walk(mw2, smart, mnl, i, m, d, w)'],
         triggers=[], decreases=['size(d)'], group='mwfree')
def lemma_mw_free(mw, mw2, smart, mnl, i, m, d, w):
    if isinstance(d, Concat):
        lemma_mw_free_list(mw, mw2, smart, mnl, i, m, d.docs, w)
    elif isinstance(d, Nest):
        lemma_mw_free(mw, mw2, smart, mnl, i + d.indent, m, d.doc, w)
    elif isinstance(d, Group):
        lemma_mw_free(mw, mw2, smart, mnl, i, FLAT_MODE, d.doc, w)
    elif isinstance(d, FlatChoice):
        lemma_acc_cases(d)
        lemma_norm_atoms(d._when_flat)
        lemma_norm_atoms(d._when_broken)


@C.lemma(_P + [('i', 'Int'), ('m', 'Mode'), ('ds', 'ObjList'), ('w', 'Int')], requires=['classic_list(ds)'],
         ensures=['walklist(mw, smart, mnl, i, m, ds, w) == walklist(mw2, smart, mnl, i, m, ds, w)'],
         triggers=[], decreases=['sizelist(ds)'], group='mwfree')
def lemma_mw_free_list(mw, mw2, smart, mnl, i, m, ds, w):
    if not ds:
        return
    lemma_mw_free(mw, mw2, smart, mnl, i, m, ds[0], w)
    lemma_mw_free_list(mw, mw2, smart, mnl, i, m, ds[1:], walk(mw, smart, mnl, i, m, ds[0], w).w)


@C.lemma(_P + [('w', 'Int'), ('stack', 'Stack')], requires=['classic_stack(stack)'],
         ensures=['fits_stack(mw, smart, mnl, w, stack) == fits_stack(mw2, smart, mnl, w, stack)'],
         triggers=[], decreases=['len(stack)'])
def lemma_mw_free_stack(mw, mw2, smart, mnl, w, stack):
    if not stack:
        return
    lemma_mw_free(mw, mw2, smart, mnl, stack[-1][0], stack[-1][1], stack[-1][2], w)
    lemma_mw_free_stack(mw, mw2, smart, mnl, walk(mw, smart, mnl, stack[-1][0], stack[-1][1], stack[-1][2], w).w, stack[:-1])


# ---- more width left, or a larger min_nesting_level, never turns "fits" into "does not fit" ------------------------------
_Q = [('mw', 'Int'), ('smart', 'Bool'), ('mnl', 'Int'), ('mnl2', 'Int')]
_MONO = ('implies({a}.status is GO, ({b}.status is GO and {b}.w >= {a}.w) or {b}.status is FITS)',
         'implies({a}.status is FITS, {b}.status is FITS)')


def _mono(fn, tail):
    a = '%s(mw, smart, mnl, %s, w)' % (fn, tail)
    b = '%s(mw, smart, mnl2, %s, w2)' % (fn, tail)
    return [c.format(a=a, b=b) for c in _MONO]


@C.lemma(_Q + [('i', 'Int'), ('m', 'Mode'), ('d', 'Obj'), ('w', 'Int'), ('w2', 'Int')],
         requires=['classic(d)', 'wf(d)', '0 <= w', 'w <= w2', 'mnl <= mnl2'],
         ensures=_mono('walk', 'i, m, d'), triggers=[], decreases=['size(d)'], group='easier')
def lemma_easier(mw, smart, mnl, mnl2, i, m, d, w, w2):
    """a walk with at least as much width and at least as large a min_nesting_level gets at least as far"""
    if isinstance(d, Concat):
        lemma_easier_list(mw, smart, mnl, mnl2, i, m, d.docs, w, w2)
    elif isinstance(d, Nest):
        lemma_easier(mw, smart, mnl, mnl2, i + d.indent, m, d.doc, w, w2)
    elif isinstance(d, Group):
        lemma_easier(mw, smart, mnl, mnl2, i, FLAT_MODE, d.doc, w, w2)
    elif isinstance(d, FlatChoice):
        lemma_acc_cases(d)
        lemma_norm_atoms(d._when_flat)
        lemma_norm_atoms(d._when_broken)


@C.lemma(_Q + [('i', 'Int'), ('m', 'Mode'), ('ds', 'ObjList'), ('w', 'Int'), ('w2', 'Int')],
         requires=['classic_list(ds)', 'wflist(ds)', '0 <= w', 'w <= w2', 'mnl <= mnl2'],
         ensures=_mono('walklist', 'i, m, ds'), triggers=[], decreases=['sizelist(ds)'], group='easier')
def lemma_easier_list(mw, smart, mnl, mnl2, i, m, ds, w, w2):
    if not ds:
        return
    lemma_easier(mw, smart, mnl, mnl2, i, m, ds[0], w, w2)
    lemma_go_nonneg(mw, smart, mnl, i, m, ds[0], w)
    if walk(mw, smart, mnl, i, m, ds[0], w).status is GO and walk(mw, smart, mnl2, i, m, ds[0], w2).status is GO:
        lemma_easier_list(mw, smart, mnl, mnl2, i, m, ds[1:], walk(mw, smart, mnl, i, m, ds[0], w).w,
                          walk(mw, smart, mnl2, i, m, ds[0], w2).w)


@C.lemma(_Q + [('w', 'Int'), ('w2', 'Int'), ('stack', 'Stack')],
         requires=['classic_stack(stack)', 'wf_stack(stack)', '0 <= w', 'w <= w2', 'mnl <= mnl2'],
         ensures=['implies(fits_stack(mw, smart, mnl, w, stack), fits_stack(mw, smart, mnl2, w2, stack))'],
         triggers=[], decreases=['len(stack)'])
def lemma_easier_stack(mw, smart, mnl, mnl2, w, w2, stack):
    if not stack:
        return
    lemma_easier(mw, smart, mnl, mnl2, stack[-1][0], stack[-1][1], stack[-1][2], w, w2)
    lemma_go_nonneg(mw, smart, mnl, stack[-1][0], stack[-1][1], stack[-1][2], w)
    if walk(mw, smart, mnl, stack[-1][0], stack[-1][1], stack[-1][2], w).status is GO and walk(mw, smart, mnl2, stack[-1][0], stack[-1][1], stack[-1][2], w2).status is GO:
        lemma_easier_stack(mw, smart, mnl, mnl2, walk(mw, smart, mnl, stack[-1][0], stack[-1][1], stack[-1][2], w).w,
                           walk(mw, smart, mnl2, stack[-1][0], stack[-1][1], stack[-1][2], w2).w, stack[:-1])


@C.lemma([('d', 'Obj')], requires=['classic(d)'], ensures=['wf(d)'], triggers=[], decreases=['rank(d)'], group='cwf')
def lemma_classic_wf(d):
    if isinstance(d, Concat):
        lemma_classic_wf_list(d.docs)
    elif isinstance(d, Nest):
        lemma_classic_wf(d.doc)
    elif isinstance(d, Group):
        lemma_classic_wf(d.doc)
    elif isinstance(d, AlwaysBreak):
        lemma_classic_wf(d.doc)


@C.lemma([('ds', 'ObjList')], requires=['classic_list(ds)'], ensures=['wflist(ds)'], triggers=[], decreases=['rank(ds)'], group='cwf')
def lemma_classic_wf_list(ds):
    if not ds:
        return
    lemma_classic_wf(ds[0])
    lemma_classic_wf_list(ds[1:])


# ---- the budget invariant and the assertion --------------------------------------------------------------------------
# The invariants below roughly triple the work for best_layout; they serve C05 only.  The driver switches them off for the
# other properties that best_layout serves (PVF_LAYOUT_ZONE=0); the lemmas above are verified in every run of the family.
import os as _os  # noqa: E402
ZONE_ON = _os.environ.get('PVF_LAYOUT_ZONE', '1') != '0'
BL = C.fns['prettyprinter.layout:best_layout']
if ZONE_ON:
    BL.ghost.update({
        'cl': ('Bool', 'classic(norm(doc)) and nnn(norm(doc)) and mode is BREAK_MODE'),     # scope of this part of the proof: the NORMAL FORM is classic
        'zg': ('Bool', 'False'),      # a flat decision has been recorded
        'cg': ('Int', '0'), 'ig': ('Int', '0'), 'awg': ('Int', '0'), 'mnlg': ('Int', '0'),   # column, indentation, available width, min_nesting_level at it
    })
    _H = 'implies(cl and top_flat(triplestack), '
    from pvf.pyvc.contract import clauses  # noqa: E402
    BL.loops[0].inv = list(BL.loops[0].inv) + clauses('Z', [
        ('classic', 'implies(cl, classic_stack(triplestack) and nnn_stack(triplestack) and shape(triplestack))'),
        ('zone-decision', _H + 'zg and outcol >= cg and awg - (outcol - cg) >= 0 and awg == min(width - cg, ig + RW - cg) and mnlg == min(cg, ig))'),
        ('zone-entries', _H + 'zone(triplestack, ig))'),
        ('line-budget', _H + 'fits_stack(awg, SMART, mnlg, awg - (outcol - cg), triplestack))'),
    ])
    BL.loops[0].ghost_back = list(BL.loops[0].ghost_back) + ['''
    if cl and isinstance(doc, Group):
        if mode is FLAT_MODE:
            # a group inside the content of a flat group: what the enclosing decision verified covers this decision
            lemma_mw_free_stack(awg, available_width, SMART, mnlg, awg - (outcol - cg), triplestack[:-1] + [(indent, FLAT_MODE, doc.doc)])
            lemma_easier_stack(available_width, SMART, mnlg, min_nesting_level, awg - (outcol - cg), available_width,
                               triplestack[:-1] + [(indent, FLAT_MODE, doc.doc)])
            assert triplestack[-1][1] is FLAT_MODE
        elif triplestack[-1][1] is FLAT_MODE:
            zg = True
            cg = outcol
            ig = indent
            awg = available_width
            mnlg = min_nesting_level
    ''']
