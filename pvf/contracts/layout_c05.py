"""C05: a group laid out flat keeps its line within the page and the ribbon.

St records where the first line of a rendering ends (`fl`, once `brk`).  For CLASSIC documents (text, concat, nest,
group, line / softline = flat_choice(HARDLINE, text-or-nil), hardline, always_break) the compositional width walk of the
fitting predicates is an upper bound of the actual first line under EVERY oracle (a later group that the engine breaks
ends the line earlier).  With "the engine's output is den" (C04) this gives C05 at the moment a group is decided flat:
the line on which its text sits ends at or before min(W, indent + R).
"""
from .layout import C, U
from . import layout_den  # noqa: F401


@C.spec([('st', 'St')], 'Int')
def lineend(st):
    """the column at which the first line of the rendering ended (or the current column if it has not ended)"""
    if st.brk:
        return st.fl
    return st.col


@C.spec([('d', 'Obj')], 'Bool')
def classic(d):
    """the classic algebra of the statement of C05, without align (contextual documents are evaluated at different
    columns by the predicate and by the engine; they are covered by the bounded stand-in)"""
    if d is NIL:
        return True
    if isinstance(d, str):
        return True
    if d is HARDLINE:
        return True
    if isinstance(d, Concat):
        return classic_list(d.docs)
    if isinstance(d, Nest):
        return classic(d.doc)
    if isinstance(d, Group):
        return classic(d.doc)
    if isinstance(d, AlwaysBreak):
        return classic(d.doc)
    if isinstance(d, FlatChoice):
        # line / softline: broken = a hard line, flat = a text or nothing
        return d._when_broken is HARDLINE and (d._when_flat is NIL or isinstance(d._when_flat, str))
    return False


@C.spec([('ds', 'ObjList')], 'Bool')
def classic_list(ds):
    if not ds:
        return True
    return classic(ds[0]) and classic_list(ds[1:])


@C.spec([('stack', 'Stack')], 'Bool')
def classic_stack(stack):
    if not stack:
        return True
    return classic(stack[-1][2]) and classic_stack(stack[:-1])


# ---- what the accessors return for line / softline ---------------------------------------------------
@C.lemma([('d', 'Obj')],
         ensures=['implies(d is NIL or d is HARDLINE or (isinstance(d, str) and len(d) > 0), norm(d) == d)',
                  'implies(isinstance(d, str) and len(d) == 0, norm(d) is NIL)'],
         triggers=['norm(d)'], trusted=True,
         note='postcondition `atoms` of normalize_doc, PROVED in family normalize: NIL, HARDLINE and non-empty text are returned unchanged, the empty text becomes NIL')
def lemma_norm_atoms(d):
    pass


# ---- once the first line has ended, nothing changes where it ended ------------------------------------------
@C.lemma([('i', 'Int'), ('m', 'Mode'), ('d', 'Obj'), ('st', 'St')],
         requires=['classic(d)', 'st.brk'],
         ensures=['den(i, m, d, st).brk', 'den(i, m, d, st).fl == st.fl'],
         triggers=['den(i, m, d, st)'], decreases=['rank(d)'], group='frozen')
def lemma_frozen(i, m, d, st):
    if isinstance(d, Concat):
        lemma_frozen_list(i, m, d.docs, st)
    elif isinstance(d, Nest):
        lemma_frozen(i + d.indent, m, d.doc, st)
    elif isinstance(d, AlwaysBreak):
        lemma_frozen(i, BREAK_MODE, d.doc, st)
    elif isinstance(d, Group):
        lemma_frozen(i, BREAK_MODE, d.doc, st)
        lemma_frozen(i, FLAT_MODE, d.doc, St(st.out, st.col, st.k + 1, st.brk, st.fl))
        lemma_frozen(i, BREAK_MODE, d.doc, St(st.out, st.col, st.k + 1, st.brk, st.fl))
    elif isinstance(d, FlatChoice):
        lemma_frozen(i, m, d._when_flat, st)
        lemma_frozen(i, m, d._when_broken, st)


@C.lemma([('i', 'Int'), ('m', 'Mode'), ('ds', 'ObjList'), ('st', 'St')],
         requires=['classic_list(ds)', 'st.brk'],
         ensures=['denlist(i, m, ds, st).brk', 'denlist(i, m, ds, st).fl == st.fl'],
         triggers=['denlist(i, m, ds, st)'], decreases=['rank(ds)'], group='frozen')
def lemma_frozen_list(i, m, ds, st):
    if not ds:
        return
    lemma_frozen(i, m, ds[0], st)
    lemma_frozen_list(i, m, ds[1:], den(i, m, ds[0], st))


@C.lemma([('stack', 'Stack'), ('st', 'St')],
         requires=['classic_stack(stack)', 'st.brk'],
         ensures=['dens(stack, st).brk', 'dens(stack, st).fl == st.fl'],
         triggers=['dens(stack, st)'], decreases=['len(stack)'])
def lemma_frozen_stack(stack, st):
    if not stack:
        return
    lemma_frozen(stack[-1][0], stack[-1][1], stack[-1][2], st)
    lemma_frozen_stack(stack[:-1], den(stack[-1][0], stack[-1][1], stack[-1][2], st))


# ---- the smart predicate is at least as strict as the fast one -----------------------------------------------
_WM = [('mw', 'Int'), ('mnl', 'Int'), ('i', 'Int'), ('m', 'Mode')]


@C.lemma(_WM + [('d', 'Obj'), ('w', 'Int')],
         requires=['classic(d)'],
         ensures=['implies(walk(mw, False, mnl, i, m, d, w).status is GO, walk(mw, True, mnl, i, m, d, w) == walk(mw, False, mnl, i, m, d, w))',
                  'implies(walk(mw, False, mnl, i, m, d, w).status is FAILS, walk(mw, True, mnl, i, m, d, w).status is FAILS)'],
         triggers=['walk(mw, True, mnl, i, m, d, w)'], decreases=['size(d)'], group='mono')
def lemma_walk_mono(mw, mnl, i, m, d, w):
    if isinstance(d, Concat):
        lemma_walk_mono_list(mw, mnl, i, m, d.docs, w)
    elif isinstance(d, Nest):
        lemma_walk_mono(mw, mnl, i + d.indent, m, d.doc, w)
    elif isinstance(d, Group):
        lemma_walk_mono(mw, mnl, i, FLAT_MODE, d.doc, w)
    elif isinstance(d, FlatChoice):
        lemma_walk_mono(mw, mnl, i, m, acc_flat(d), w)
        lemma_walk_mono(mw, mnl, i, m, acc_broken(d), w)


@C.lemma(_WM + [('ds', 'ObjList'), ('w', 'Int')],
         requires=['classic_list(ds)'],
         ensures=['implies(walklist(mw, False, mnl, i, m, ds, w).status is GO, walklist(mw, True, mnl, i, m, ds, w) == walklist(mw, False, mnl, i, m, ds, w))',
                  'implies(walklist(mw, False, mnl, i, m, ds, w).status is FAILS, walklist(mw, True, mnl, i, m, ds, w).status is FAILS)'],
         triggers=['walklist(mw, True, mnl, i, m, ds, w)'], decreases=['sizelist(ds)'], group='mono')
def lemma_walk_mono_list(mw, mnl, i, m, ds, w):
    if not ds:
        return
    lemma_walk_mono(mw, mnl, i, m, ds[0], w)
    lemma_walk_mono_list(mw, mnl, i, m, ds[1:], walk(mw, False, mnl, i, m, ds[0], w).w)


@C.lemma([('mw', 'Int'), ('mnl', 'Int'), ('w', 'Int'), ('stack', 'Stack')],
         requires=['classic_stack(stack)'],
         ensures=['implies(fits_stack(mw, True, mnl, w, stack), fits_stack(mw, False, mnl, w, stack))'],
         triggers=['fits_stack(mw, True, mnl, w, stack)'], decreases=['len(stack)'])
def lemma_fits_mono(mw, mnl, w, stack):
    if not stack:
        return
    lemma_walk_mono(mw, mnl, stack[-1][0], stack[-1][1], stack[-1][2], w)
    lemma_fits_mono(mw, mnl, walk(mw, False, mnl, stack[-1][0], stack[-1][1], stack[-1][2], w).w, stack[:-1])


# ---- the fast walk only consumes width
@C.lemma([('mw', 'Int'), ('mnl', 'Int'), ('i', 'Int'), ('m', 'Mode'), ('ds', 'ObjList'), ('w', 'Int')],
         requires=['w >= 0', 'wflist(ds)'],
         ensures=['implies(walklist(mw, False, mnl, i, m, ds, w).status is GO, walklist(mw, False, mnl, i, m, ds, w).w <= w)'],
         triggers=[], decreases=['sizelist(ds)'], group='le')
def lemma_walklist_le(mw, mnl, i, m, ds, w):
    if not ds:
        return
    lemma_walk_le(mw, mnl, i, m, ds[0], w)
    if walk(mw, False, mnl, i, m, ds[0], w).status is GO:
        lemma_walklist_le(mw, mnl, i, m, ds[1:], walk(mw, False, mnl, i, m, ds[0], w).w)


@C.lemma([('mw', 'Int'), ('mnl', 'Int'), ('i', 'Int'), ('m', 'Mode'), ('d', 'Obj'), ('w', 'Int')],
         requires=['w >= 0', 'wf(d)'],
         ensures=['implies(walk(mw, False, mnl, i, m, d, w).status is GO, walk(mw, False, mnl, i, m, d, w).w <= w)'],
         triggers=[], decreases=['size(d)'], group='le')
def lemma_walk_le(mw, mnl, i, m, d, w):
    """the fast walk only consumes width"""
    if isinstance(d, Concat):
        lemma_walklist_le(mw, mnl, i, m, d.docs, w)
    elif isinstance(d, Fill):
        lemma_walklist_le(mw, mnl, i, m, d.docs, w)
    elif isinstance(d, Annotated):
        lemma_walk_le(mw, mnl, i, m, d.doc, w)
    elif isinstance(d, Nest):
        lemma_walk_le(mw, mnl, i + d.indent, m, d.doc, w)
    elif isinstance(d, Group):
        lemma_walk_le(mw, mnl, i, FLAT_MODE, d.doc, w)
    elif isinstance(d, FlatChoice):
        lemma_walk_le(mw, mnl, i, m, acc_flat(d), w)
        lemma_walk_le(mw, mnl, i, m, acc_broken(d), w)
    elif isinstance(d, Contextual):
        lemma_walk_le(mw, mnl, i, m, norm(apply_ctx(d.fn, i, mw - w, PW, RW)), w)


# ---- the walk bounds the actual first line --------------------------------------------------------------------
_LB = [('mw', 'Int'), ('mnl', 'Int'), ('iw', 'Int'), ('idn', 'Int'), ('mwk', 'Mode'), ('mdn', 'Mode')]
_REL = 'mdn is mwk or (mwk is FLAT_MODE and mdn is BREAK_MODE)'
_GO = ('implies(walk(mw, False, mnl, iw, mwk, d, w).status is GO, '
       'walk(mw, False, mnl, iw, mwk, d, w).w <= w and '
       '(den(idn, mdn, d, st).fl <= st.col + (w - walk(mw, False, mnl, iw, mwk, d, w).w) if den(idn, mdn, d, st).brk '
       ' else den(idn, mdn, d, st).col == st.col + (w - walk(mw, False, mnl, iw, mwk, d, w).w)))')
_FITS = ('implies(walk(mw, False, mnl, iw, mwk, d, w).status is FITS, '
         'den(idn, mdn, d, st).brk and den(idn, mdn, d, st).fl <= st.col + w)')


@C.lemma(_LB + [('d', 'Obj'), ('w', 'Int'), ('st', 'St')],
         requires=['classic(d)', 'wf(d)', 'w >= 0', 'not st.brk', _REL],
         ensures=[_GO, _FITS],
         triggers=[],
         decreases=['size(d)'], group='bound')
def lemma_bound(mw, mnl, iw, idn, mwk, mdn, d, w, st):
    """walk in mode mwk (all groups flat) vs den in mode mdn (groups by the oracle), independent indentations"""
    if isinstance(d, Concat):
        lemma_bound_list(mw, mnl, iw, idn, mwk, mdn, d.docs, w, st)
    elif isinstance(d, Nest):
        lemma_bound(mw, mnl, iw + d.indent, idn + d.indent, mwk, mdn, d.doc, w, st)
    elif isinstance(d, Group):
        lemma_bound(mw, mnl, iw, idn, FLAT_MODE, BREAK_MODE, d.doc, w, st)
        lemma_bound(mw, mnl, iw, idn, FLAT_MODE, FLAT_MODE, d.doc, w, St(st.out, st.col, st.k + 1, st.brk, st.fl))
        lemma_bound(mw, mnl, iw, idn, FLAT_MODE, BREAK_MODE, d.doc, w, St(st.out, st.col, st.k + 1, st.brk, st.fl))
    elif isinstance(d, FlatChoice):
        lemma_acc_cases(d)
        lemma_norm_atoms(d._when_flat)
        lemma_norm_atoms(d._when_broken)


@C.lemma(_LB + [('ds', 'ObjList'), ('w', 'Int'), ('st', 'St')],
         requires=['classic_list(ds)', 'wflist(ds)', 'w >= 0', 'not st.brk', _REL],
         ensures=[_GO.replace('walk(', 'walklist(').replace(', d, w)', ', ds, w)').replace('den(idn, mdn, d, st)', 'denlist(idn, mdn, ds, st)'),
                  _FITS.replace('walk(', 'walklist(').replace(', d, w)', ', ds, w)').replace('den(idn, mdn, d, st)', 'denlist(idn, mdn, ds, st)')],
         triggers=[], decreases=['sizelist(ds)'], group='bound')
def lemma_bound_list(mw, mnl, iw, idn, mwk, mdn, ds, w, st):
    if not ds:
        return
    lemma_bound(mw, mnl, iw, idn, mwk, mdn, ds[0], w, st)
    if walk(mw, False, mnl, iw, mwk, ds[0], w).status is GO:
        if den(idn, mdn, ds[0], st).brk:
            lemma_frozen_list(idn, mdn, ds[1:], den(idn, mdn, ds[0], st))
            lemma_walklist_le(mw, mnl, iw, mwk, ds[1:], walk(mw, False, mnl, iw, mwk, ds[0], w).w)
        else:
            lemma_bound_list(mw, mnl, iw, idn, mwk, mdn, ds[1:], walk(mw, False, mnl, iw, mwk, ds[0], w).w, den(idn, mdn, ds[0], st))
    elif walk(mw, False, mnl, iw, mwk, ds[0], w).status is FITS:
        lemma_frozen_list(idn, mdn, ds[1:], den(idn, mdn, ds[0], st))


@C.lemma([('mw', 'Int'), ('mnl', 'Int'), ('w', 'Int'), ('stack', 'Stack'), ('st', 'St')],
         requires=['classic_stack(stack)', 'wf_stack(stack)', 'w >= 0', 'not st.brk', 'fits_stack(mw, False, mnl, w, stack)'],
         ensures=['lineend(dens(stack, st)) <= st.col + w'],
         triggers=[], decreases=['len(stack)'])
def lemma_fits_bounds_line(mw, mnl, w, stack, st):
    """what fits, fits: the line the stack content starts on ends within the width the predicate was given"""
    if not stack:
        return
    lemma_bound(mw, mnl, stack[-1][0], stack[-1][0], stack[-1][1], stack[-1][1], stack[-1][2], w, st)
    if walk(mw, False, mnl, stack[-1][0], stack[-1][1], stack[-1][2], w).status is GO:
        if den(stack[-1][0], stack[-1][1], stack[-1][2], st).brk:
            lemma_frozen_stack(stack[:-1], den(stack[-1][0], stack[-1][1], stack[-1][2], st))
        else:
            lemma_fits_bounds_line(mw, mnl, walk(mw, False, mnl, stack[-1][0], stack[-1][1], stack[-1][2], w).w, stack[:-1],
                                   den(stack[-1][0], stack[-1][1], stack[-1][2], st))
    else:
        lemma_frozen_stack(stack[:-1], den(stack[-1][0], stack[-1][1], stack[-1][2], st))


# ---- what is emitted does not depend on the first-line book-keeping ---------------------------------------------
_IND = [('i', 'Int'), ('m', 'Mode')]
_BF = [('st', 'St'), ('b', 'Bool'), ('f', 'Int')]


def _indep(fn, head):
    a = '%s(%s, St(st.out, st.col, st.k, b, f))' % (fn, head)
    o = '%s(%s, st)' % (fn, head)
    return ['%s.out == %s.out' % (a, o), '%s.col == %s.col' % (a, o), '%s.k == %s.k' % (a, o)]


@C.lemma(_IND + [('d', 'Obj')] + _BF, requires=['wf(d)'], ensures=_indep('den', 'i, m, d'), triggers=[], decreases=['size(d)'], group='indep')
def lemma_indep(i, m, d, st, b, f):
    """brk / fl are pure book-keeping: the emitted stream, the column and the decision index do not depend on them"""
    if isinstance(d, Concat):
        lemma_indep_list(i, m, d.docs, st, b, f)
    elif isinstance(d, Fill):
        lemma_indep_fill(i, m, d.docs, st, b, f)
    elif isinstance(d, Nest):
        lemma_indep(i + d.indent, m, d.doc, st, b, f)
    elif isinstance(d, AlwaysBreak):
        lemma_indep(i, BREAK_MODE, d.doc, st, b, f)
    elif isinstance(d, Annotated):
        lemma_indep(i, m, d.doc, St(st.out + [SAnnotationPush(d.annotation)], st.col, st.k, st.brk, st.fl), b, f)
    elif isinstance(d, Group):
        lemma_indep(i, BREAK_MODE, d.doc, st, b, f)
        lemma_indep(i, FLAT_MODE, d.doc, St(st.out, st.col, st.k + 1, st.brk, st.fl), b, f)
        lemma_indep(i, BREAK_MODE, d.doc, St(st.out, st.col, st.k + 1, st.brk, st.fl), b, f)
    elif isinstance(d, FlatChoice):
        lemma_indep(i, m, d._when_flat, st, b, f)
        lemma_indep(i, m, d._when_broken, st, b, f)
    elif isinstance(d, Contextual):
        lemma_indep(i, m, apply_ctx(d.fn, i, st.col, PW, RW), st, b, f)


@C.lemma(_IND + [('ds', 'ObjList')] + _BF, requires=['wflist(ds)'], ensures=_indep('denlist', 'i, m, ds'), triggers=[],
         decreases=['sizelist(ds)'], group='indep')
def lemma_indep_list(i, m, ds, st, b, f):
    if not ds:
        return
    lemma_indep(i, m, ds[0], st, b, f)
    lemma_indep_list(i, m, ds[1:], den(i, m, ds[0], st), den(i, m, ds[0], St(st.out, st.col, st.k, b, f)).brk,
                     den(i, m, ds[0], St(st.out, st.col, st.k, b, f)).fl)


@C.lemma(_IND + [('ds', 'ObjList')] + _BF, requires=['wflist(ds)'], ensures=_indep('denfill', 'i, m, ds'), triggers=[],
         decreases=['sizelist(ds)'], group='indep')
def lemma_indep_fill(i, m, ds, st, b, f):
    if not ds:
        return
    if not ds[1:]:
        lemma_indep(i, md(oracle(st.k)), ds[0], St(st.out, st.col, st.k + 1, st.brk, st.fl), b, f)
    elif not ds[2:]:
        lemma_indep(i, md(oracle(st.k)), ds[0], St(st.out, st.col, st.k + 1, st.brk, st.fl), b, f)
        lemma_indep(i, md(oracle(st.k)), ds[1], den(i, md(oracle(st.k)), ds[0], St(st.out, st.col, st.k + 1, st.brk, st.fl)),
                    den(i, md(oracle(st.k)), ds[0], St(st.out, st.col, st.k + 1, b, f)).brk,
                    den(i, md(oracle(st.k)), ds[0], St(st.out, st.col, st.k + 1, b, f)).fl)
    else:
        lemma_indep(i, md(oracle(st.k)), ds[0], St(st.out, st.col, st.k + 2, st.brk, st.fl), b, f)
        lemma_indep(i, md(oracle(st.k + 1)), ds[1], den(i, md(oracle(st.k)), ds[0], St(st.out, st.col, st.k + 2, st.brk, st.fl)),
                    den(i, md(oracle(st.k)), ds[0], St(st.out, st.col, st.k + 2, b, f)).brk,
                    den(i, md(oracle(st.k)), ds[0], St(st.out, st.col, st.k + 2, b, f)).fl)
        lemma_indep_fill(i, m, ds[2:],
                         den(i, md(oracle(st.k + 1)), ds[1], den(i, md(oracle(st.k)), ds[0], St(st.out, st.col, st.k + 2, st.brk, st.fl))),
                         den(i, md(oracle(st.k + 1)), ds[1], den(i, md(oracle(st.k)), ds[0], St(st.out, st.col, st.k + 2, b, f))).brk,
                         den(i, md(oracle(st.k + 1)), ds[1], den(i, md(oracle(st.k)), ds[0], St(st.out, st.col, st.k + 2, b, f))).fl)


@C.lemma([('stack', 'Stack')] + _BF, requires=['wf_stack(stack)'], ensures=_indep('dens', 'stack'), triggers=[], decreases=['len(stack)'])
def lemma_indep_stack(stack, st, b, f):
    if not stack:
        return
    if not isinstance(stack[-1][2], SAnnotationPop):
        lemma_indep(stack[-1][0], stack[-1][1], stack[-1][2], st, b, f)
    lemma_indep_stack(stack[:-1], den(stack[-1][0], stack[-1][1], stack[-1][2], st),
                      den(stack[-1][0], stack[-1][1], stack[-1][2], St(st.out, st.col, st.k, b, f)).brk,
                      den(stack[-1][0], stack[-1][1], stack[-1][2], St(st.out, st.col, st.k, b, f)).fl)


# ---- align: the evaluator of the contextual document sets the indentation to the column --------------------------------
_al = C.contract('prettyprinter.doc', 'align.evaluator',
                 params={'indent': 'Int', 'column': 'Int', 'page_width': 'Int', 'ribbon_width': 'Int'}, returns='Obj',
                 ensures=[('nest-to-the-column', 'isinstance(result, Nest) and result.indent == column - indent and result.doc == doc'),
                          ('breaks-at-the-column', 'den(indent, m_, result, st_) == den(column, m_, doc, st_)')],
                 forall={'m_': 'Mode', 'st_': 'St'},
                 serves=['C04'],
                 note='`doc` is the free variable of the closure: a line break inside align(doc) is indented to the column at which the '
                      'aligned document starts, whatever the enclosing indentation is (also when the column is left of it)')
_al.globals_ = {'doc': 'Obj'}
