"""Family `printers` (C01, C08, C10, C11, C17): the bundled printers for scalars and for list / tuple / set, and pretty_call_alt.

The value being printed is a symbolic Python object (sort Val) with an uninterpreted class, length and item list; what the
builders return (build_fncall, sequence_of_docs, annotate, general_identifier, pretty_python_value) is NAMED by opaque spec
functions, so a postcondition says *which* document a printer returns as a term over those names:

  * C01  special floats are printed as a call float('inf') / float('-inf') / float('nan'); a one-element tuple keeps its
         dangling comma (dangle == (len == 1) unless a trailing comment takes its place)
  * C08  an instance of a subclass is the call <qualified class name>(<literal of the base value>), also when empty, also at the
         depth cut
  * C10  exactly the first min(len, N) items reach the element printer, in order; the truncation comment exists iff len > N and
         carries len - N; nested contexts keep max_seq_len
  * C11  depth_left == 0 gives the placeholder and no element is printed; elements are printed with depth_left - 1
  * C17  pretty_call_alt prints every positional and keyword argument, in order, through pretty_python_value

Everything is for ALL values, classes, lengths, contexts.
"""
import ast
import z3
from pvf.pyvc.universe import Universe
from pvf.pyvc.contract import ContractSet
from pvf.pyvc.interp import OutsideSubset, SymRaise, FuncVal, GenExp, is_z3
from pvf.pyvc import interp as _interp

U = Universe('printers')
for s in ('Val', 'Cls', 'Tok', 'Doc', 'Strategy'):
    U.uninterpreted(s)
U.declare({
    'OptInt': ('data', [('NoInt', []), ('SomeInt', [('v', 'Int')])]),
    'OptStr': ('data', [('NoStr', []), ('SomeStr', [('v', 'Str')])]),
    'Ctx': ('record', [('indent', 'Int'), ('depth_left', 'Int'), ('multiline_strategy', 'Strategy'), ('max_seq_len', 'OptInt'),
                       ('sort_dict_keys', 'Bool')]),
    'Arg': ('data', [('AVal', [('v', 'Val')]), ('AStr', [('s', 'Str')]), ('AEllipsis', [])]),
    'ArgList': ('list', 'Arg', 'fwd'),
    'ValList': ('list', 'Val', 'fwd'),
    'DocList': ('list', 'Doc', 'fwd'),
    'Kw': ('record', [('name', 'Str'), ('value', 'Val')]),
    'KwList': ('list', 'Kw', 'fwd'),
    'KwDoc': ('record', [('name', 'Str'), ('doc', 'Doc')]),
    'KwDocList': ('list', 'KwDoc', 'fwd'),
})
U.options = {'OptInt': 'Int', 'OptStr': 'Str'}
U.ctor_names = {'AVal': ('Arg', 'AVal'), 'AStr': ('Arg', 'AStr'), 'AEllipsis': ('Arg', 'AEllipsis')}

C = ContractSet(U, 'printers')
PP = 'prettyprinter.prettyprinter'

V, CL, D = U.sort('Val'), U.sort('Cls'), U.sort('Doc')
for n in ('float', 'int', 'bool', 'tuple', 'list', 'set', 'dict', 'str', 'bytes', 'frozenset'):
    U.consts[n] = z3.Const('CLS_' + n, CL)
CLS = {n: U.consts[n] for n in ('float', 'int', 'bool', 'tuple', 'list', 'set', 'dict', 'str', 'bytes', 'frozenset')}
for n in ('INF_FLOAT', 'NEG_INF_FLOAT'):
    U.consts[n] = z3.Const(n, V)
for n in ('LBRACKET', 'RBRACKET', 'LPAREN', 'RPAREN', 'LBRACE', 'RBRACE', 'ELLIPSIS', 'NONE_DOC', 'COMMA', 'NIL'):
    U.consts[n] = z3.Const('DOC_' + n, D)
for n in ('MULTILINE_STRATEGY_PLAIN', 'MULTILINE_STRATEGY_HANG'):
    U.consts[n] = z3.Const(n, U.sort('Strategy'))
TOKENS = {}


class _Tokens(dict):
    def __contains__(self, k):
        return True

    def __getitem__(self, k):
        if k not in TOKENS:
            TOKENS[k] = z3.Const('Token_' + k, U.sort('Tok'))
        return TOKENS[k]


# ---- names for what the builders return (opaque: nothing is known about them but that they are functions) ----------------
@C.spec([('v', 'Val')], 'Cls', opaque=True)
def cls_of(v):
    return type(v)


@C.spec([('v', 'Val')], 'Int', opaque=True)
def vlen(v):
    return len(v)


@C.spec([('v', 'Val')], 'ValList', opaque=True)
def items(v):
    """list(v): the items in iteration order"""
    return list(v)


@C.spec([('v', 'Val')], 'Bool', opaque=True)
def is_nan(v):
    return v != v


@C.spec([('v', 'Val')], 'Bool', opaque=True)
def is_tuple(v):
    return isinstance(v, tuple)


@C.spec([('v', 'Val')], 'Bool', opaque=True)
def is_list(v):
    return isinstance(v, list)


@C.spec([('v', 'Val')], 'Bool', opaque=True)
def is_set(v):
    return isinstance(v, set)


@C.spec([('v', 'Val')], 'Bool', opaque=True)
def is_cnamedtuple(v):
    return False


@C.spec([('v', 'Val')], 'Bool', opaque=True)
def is_namedtuple(v):
    return False


@C.spec([('v', 'Val')], 'Str', opaque=True)
def float_repr(v):
    return float.__repr__(v)


@C.spec([('v', 'Val')], 'Str', opaque=True)
def int_repr(v):
    return int.__repr__(v)


@C.spec([('value', 'Val'), ('ctx', 'Ctx')], 'Doc', opaque=True)
def doc_of(value, ctx):
    """pretty_python_value(value, ctx)"""
    return None


@C.spec([('a', 'Arg'), ('ctx', 'Ctx')], 'Doc', opaque=True)
def argdoc_of(a, ctx):
    """pretty_python_value(<argument object>, ctx) for an argument given as a constant ('inf', ...)"""
    return None


@C.spec([('ctx', 'Ctx'), ('cls', 'Cls'), ('args', 'ArgList')], 'Doc', opaque=True)
def call_alt(ctx, cls, args):
    """pretty_call_alt(ctx, cls, args=args)"""
    return None


@C.spec([('ctx', 'Ctx'), ('fndoc', 'Doc'), ('argdocs', 'DocList'), ('kwargdocs', 'KwDocList'), ('hug', 'Bool'), ('tc', 'OptStr')],
        'Doc', opaque=True)
def fncall(ctx, fndoc, argdocs, kwargdocs, hug, tc):
    """build_fncall(ctx, fndoc, argdocs=, kwargdocs=, hug_sole_arg=, trailing_comment=)"""
    return None


@C.spec([('cls', 'Cls')], 'Doc', opaque=True)
def ident(cls):
    """general_identifier(cls): the qualified name"""
    return None


@C.spec([('tok', 'Tok'), ('text', 'Str')], 'Doc', opaque=True)
def annot(tok, text):
    return None


@C.spec([('ds', 'DocList')], 'Doc', opaque=True)
def cat(ds):
    """concat([...])"""
    return None


@C.spec([('text', 'Str')], 'Doc', opaque=True)
def comment_doc(text):
    """commentdoc(text)"""
    return None


@C.spec([('ctx', 'Ctx'), ('left', 'Doc'), ('els', 'DocList'), ('right', 'Doc'), ('dangle', 'Bool'), ('force_break', 'Bool')], 'Doc',
        opaque=True)
def seq_doc(ctx, left, els, right, dangle, force_break):
    """sequence_of_docs(ctx, left, els, right, dangle=, force_break=)"""
    return None


@C.spec([('v', 'Val'), ('ctx', 'Ctx'), ('tc', 'OptStr')], 'Doc', opaque=True)
def namedtuple_doc(v, ctx, tc):
    return None


@C.spec([('v', 'Val'), ('ctx', 'Ctx'), ('tc', 'OptStr')], 'Doc', opaque=True)
def cnamedtuple_doc(v, ctx, tc):
    return None


@C.spec([('ctx', 'Ctx'), ('s', 'Strategy')], 'Ctx')
def nested(ctx, s):
    """ctx.nested_call().use_multiline_strategy(s): one level deeper, everything else (max_seq_len!) kept"""
    return Ctx(ctx.indent, ctx.depth_left - 1, s, ctx.max_seq_len, ctx.sort_dict_keys)


# ---- list-level spec functions ---------------------------------------------------------------------------------------------
@C.spec([('n', 'Int'), ('xs', 'ValList')], 'ValList')
def take_n(n, xs):
    """list(islice(xs, n)) for n >= 0"""
    if n <= 0 or not xs:
        return []
    return cons(xs[0], take_n(n - 1, xs[1:]))


@C.spec([('n', 'OptInt'), ('xs', 'ValList')], 'ValList')
def taken(n, xs):
    """take(n, xs) of prettyprinter.utils: islice(xs, n); n None = everything"""
    if n is None:
        return xs
    return take_n(unwrap(n), xs)


@C.spec([('xs', 'ValList'), ('ctx', 'Ctx')], 'DocList')
def map_doc(xs, ctx):
    """[pretty_python_value(x, ctx) for x in xs]"""
    if not xs:
        return []
    return cons(doc_of(xs[0], ctx), map_doc(xs[1:], ctx))


@C.spec([('xs', 'ArgList'), ('ctx', 'Ctx')], 'DocList')
def map_argdoc(xs, ctx):
    if not xs:
        return []
    return cons(argdoc_of(xs[0], ctx), map_argdoc(xs[1:], ctx))


@C.spec([('xs', 'KwList'), ('ctx', 'Ctx')], 'KwDocList')
def map_kwdoc(xs, ctx):
    """[(name, pretty_python_value(v, ctx)) for name, v in kwargs]"""
    if not xs:
        return []
    return cons(KwDoc(xs[0].name, doc_of(xs[0].value, ctx)), map_kwdoc(xs[1:], ctx))


@C.spec([('ds', 'DocList'), ('d', 'Doc')], 'DocList')
def snoc_doc(ds, d):
    """chain(ds, [d])"""
    if not ds:
        return cons(d, ds)
    return cons(ds[0], snoc_doc(ds[1:], d))


@C.spec([('xs', 'ValList')], 'Int')
def vl_len(xs):
    if not xs:
        return 0
    return 1 + vl_len(xs[1:])


@C.spec([('xs', 'DocList')], 'Int')
def dl_len(xs):
    if not xs:
        return 0
    return 1 + dl_len(xs[1:])


@C.spec([('k', 'Int')], 'Str', opaque=True)
def trunc_text(k):
    """'...and {} more elements'.format(k)"""
    return '...and {} more elements'.format(k)


# ---- lemmas that tie the spec functions to the statement of C10 (proved by induction) ---------------------------------------
@C.lemma([('xs', 'ValList')], ensures=['vl_len(xs) >= 0'], triggers=['vl_len(xs)'], decreases=['len(xs)'])
def lemma_vl_len(xs):
    if xs:
        lemma_vl_len(xs[1:])


@C.lemma([('n', 'Int'), ('xs', 'ValList')], ensures=['vl_len(take_n(n, xs)) == (0 if n <= 0 else (n if n <= vl_len(xs) else vl_len(xs)))'],
         triggers=['take_n(n, xs)'], decreases=['len(xs)'])
def lemma_take_len(n, xs):
    """exactly min(len, N) elements"""
    if n > 0 and xs:
        lemma_take_len(n - 1, xs[1:])


@C.lemma([('n', 'Int'), ('xs', 'ValList')], ensures=['implies(n >= vl_len(xs), take_n(n, xs) == xs)'],
         triggers=['take_n(n, xs)'], decreases=['len(xs)'])
def lemma_take_all(n, xs):
    """a limit larger than the container changes nothing (so None and a large N agree)"""
    if xs:
        lemma_take_all(n - 1, xs[1:])


@C.lemma([('xs', 'ValList'), ('ctx', 'Ctx')], ensures=['dl_len(map_doc(xs, ctx)) == vl_len(xs)'],
         triggers=['map_doc(xs, ctx)'], decreases=['len(xs)'])
def lemma_map_len(xs, ctx):
    """one document per element"""
    if xs:
        lemma_map_len(xs[1:], ctx)


@C.lemma([('v', 'Val')], ensures=['INF_FLOAT != NEG_INF_FLOAT', 'implies(is_nan(v), v != INF_FLOAT and v != NEG_INF_FLOAT)'],
         triggers=['cls_of(v)'], trusted=True,
         note='IEEE: +inf, -inf and nan are three different things (INF_FLOAT / NEG_INF_FLOAT are float("inf") / float("-inf"): checked '
              'against the module source by check_float_consts)')
def lemma_float_classes(v):
    pass


# ---- hooks: how the Python the printers use is read ---------------------------------------------------------------------------
def _spec(name, *args):
    return lambda I: I.call_spec(C.specs[name], list(args), {})


def S(I, name, *args):
    return I.call_spec(C.specs[name], list(args), {})


def _b_type(I, args, kwargs, node):
    v = args[0]
    if is_z3(v) and I.sort_of(v) == 'Val':
        return S(I, 'cls_of', v)
    raise OutsideSubset('type() of %r' % (v,))


def _len_val(I, v):
    n = S(I, 'vlen', v)
    I.assume(n >= 0)
    I.assume(n == S(I, 'vl_len', S(I, 'items', v)))        # len(v) == len(list(v)): definitional for the containers printed here
    return n


truthy_f = z3.Function('truthy', V, z3.BoolSort())          # bool(v); for the containers tied to the length by a precondition
U.len_hooks = {'Val': _len_val}
U.truthy = {'Val': lambda v: truthy_f(v)}
_interp.BUILTINS['truthy'] = lambda I, a, k, n: truthy_f(I.coerce(a[0], 'Val'))
U.isinstance_hooks = {('Val', 'tuple'): lambda I, v: S(I, 'is_tuple', v), ('Val', 'list'): lambda I, v: S(I, 'is_list', v),
                      ('Val', 'set'): lambda I, v: S(I, 'is_set', v)}
inst_of = z3.Function('inst_of', V, CL, z3.BoolSort())
for _n in ('float', 'int', 'bool', 'dict', 'str', 'bytes', 'frozenset'):
    U.isinstance_hooks[('Val', _n)] = (lambda c: (lambda I, v: inst_of(v, c)))(CLS[_n])      # nothing known: an arbitrary fact


def _cls_repr(I, base):
    """float.__repr__ / int.__repr__"""
    def call(I2, args, kwargs, node):
        if base is CLS['float'] or base.eq(CLS['float']):
            return S(I2, 'float_repr', args[0])
        if base.eq(CLS['int']):
            return S(I2, 'int_repr', args[0])
        raise OutsideSubset('__repr__ of another class')
    return FuncVal('hook', '__repr__', call)


U.attr_hooks = {('Cls', '__repr__'): _cls_repr}


def _isnan(I, args, kwargs, node):
    return S(I, 'is_nan', I.coerce(args[0], 'Val'))


def _to_arg(I, a):
    if a is Ellipsis:
        return U.ctor('Arg', 'AEllipsis')()
    if isinstance(a, str):
        return U.ctor('Arg', 'AStr')(z3.StringVal(a))
    if is_z3(a) and I.sort_of(a) == 'Val':
        return U.ctor('Arg', 'AVal')(a)
    if is_z3(a) and I.sort_of(a) == 'Arg':
        return a
    raise OutsideSubset('argument object %r' % (a,))


def _to_list(I, sort, xs, conv=None):
    if is_z3(xs):
        return I.coerce(xs, sort)
    if isinstance(xs, (tuple, list)):
        t = U.nil(sort)
        for x in reversed(list(xs)):
            t = U.cons(sort, conv(I, x) if conv else I.coerce(x, U.lists[sort].elem), t)
        return t
    raise OutsideSubset('sequence %r for %s' % (xs, sort))


def _optstr(I, v):
    if v is None:
        return U.ctor('OptStr', 'NoStr')()
    if isinstance(v, str):
        return U.ctor('OptStr', 'SomeStr')(z3.StringVal(v))
    if is_z3(v) and I.sort_of(v) == 'Str':
        return U.ctor('OptStr', 'SomeStr')(v)
    return I.coerce(v, 'OptStr')


def _docs(I, xs):
    """argument documents: a tuple / list of Doc terms, a DocList term, or a generator expression over a symbolic list"""
    if isinstance(xs, GenExp):
        return _gen_to_list(I, xs)
    return _to_list(I, 'DocList', xs)


def _h_call_alt(I, args, kwargs, node):
    kw = dict(kwargs)
    a = list(args)
    ctx, cls = a[0], a[1]
    argv = a[2] if len(a) > 2 else kw.pop('args', ())
    if len(a) > 3 or kw or (is_z3(argv) and I.sort_of(argv) == 'ValList'):
        # the full call shape (keyword arguments / trailing comment): through the CONTRACT of pretty_call_alt
        return I.call_contract(C.fns[PP + ':pretty_call_alt'], list(args), dict(kwargs), node)
    return S(I, 'call_alt', I.coerce(ctx, 'Ctx'), I.coerce(cls, 'Cls'), _to_list(I, 'ArgList', argv, _to_arg))


def _h_fncall(I, args, kwargs, node):
    kw = dict(kwargs)
    a = list(args)
    names = ['ctx', 'fndoc', 'argdocs', 'kwargdocs', 'hug_sole_arg', 'trailing_comment']
    for i, x in enumerate(a):
        kw[names[i]] = x
    unknown = set(kw) - set(names)
    if unknown:
        raise OutsideSubset('build_fncall keyword %s' % sorted(unknown))
    kwd = kw.get('kwargdocs', ())
    if isinstance(kwd, GenExp):
        kwd = _gen_to_list(I, kwd)
    else:
        kwd = _to_list(I, 'KwDocList', kwd)
    return S(I, 'fncall', I.coerce(kw['ctx'], 'Ctx'), I.coerce(kw['fndoc'], 'Doc'), _docs(I, kw.get('argdocs', ())), kwd,
             I.coerce(I.to_bool(kw.get('hug_sole_arg', False)), 'Bool') if not isinstance(kw.get('hug_sole_arg', False), bool)
             else z3.BoolVal(kw.get('hug_sole_arg', False)),
             _optstr(I, kw.get('trailing_comment', None)))


def _h_ident(I, args, kwargs, node):
    return S(I, 'ident', I.coerce(args[0], 'Cls'))


def _h_annotate(I, args, kwargs, node):
    return S(I, 'annot', I.coerce(args[0], 'Tok'), I.coerce(args[1], 'Str'))


def _h_concat(I, args, kwargs, node):
    return S(I, 'cat', _docs(I, args[0]))


def _h_commentdoc(I, args, kwargs, node):
    return S(I, 'comment_doc', I.coerce(args[0], 'Str'))


def _h_ppv(I, args, kwargs, node):
    a = list(args)
    kw = dict(kwargs)
    v = a[0]
    ctx = a[1] if len(a) > 1 else kw.pop('ctx')
    if kw or len(a) > 2:
        raise OutsideSubset('pretty_python_value call shape')
    ctx = I.coerce(ctx, 'Ctx')
    if is_z3(v) and I.sort_of(v) == 'Val':
        return S(I, 'doc_of', v, ctx)
    return S(I, 'argdoc_of', _to_arg(I, v), ctx)


def _gen_to_list(I, g):
    """(f(x) for x in <symbolic list>) -> map term.  The element expression is evaluated once on a fresh element; the result must be
    doc_of(x, c) / argdoc_of(x, c) / (name, argdoc_of(AVal(v), c)) with c independent of x - otherwise the function leaves the subset."""
    if g.kind != 'genexp' or g.ifs:
        raise OutsideSubset('generator shape')
    it = g.iter
    if isinstance(it, (tuple, list)):
        # constant sequence: evaluate element-wise
        out = []
        saved = I.env
        for x in it:
            I.env = dict(g.env)
            I.assign(g.target, x)
            out.append(I.ev(g.elt))
        I.env = saved
        return out
    sn = I.sort_of(it)
    if sn == 'Val':
        it, sn = S(I, 'items', it), 'ValList'          # iterating a container: its items in iteration order
    if sn not in ('ValList', 'ArgList', 'KwList'):
        raise OutsideSubset('generator over %s' % sn)
    x = I.fresh(U.lists[sn].elem, 'el')
    saved = I.env
    I.env = dict(g.env)
    try:
        if sn == 'KwList':
            I.assign(g.target, (U.rget('Kw', 'name', x), U.rget('Kw', 'value', x)))
        else:
            I.assign(g.target, x)
        r = I.ev(g.elt)
    finally:
        I.env = saved

    def free_of(t, x):
        todo, seen = [t], set()
        while todo:
            u = todo.pop()
            if u.get_id() in seen:
                continue
            seen.add(u.get_id())
            if u.eq(x):
                return False
            todo.extend(u.children())
        return True
    if sn == 'KwList':
        if not (isinstance(r, tuple) and len(r) == 2 and is_z3(r[0]) and r[0].eq(U.rget('Kw', 'name', x))):
            raise OutsideSubset('keyword generator element')
        d = r[1]
        want = C.specs['doc_of']
        if not (z3.is_app(d) and d.decl().eq(I.translator.decl_of(want)) and d.arg(0).eq(U.rget('Kw', 'value', x))
                and free_of(d.arg(1), x)):
            raise OutsideSubset('keyword generator element is not pretty_python_value(v, c)')
        return S(I, 'map_kwdoc', it, d.arg(1))
    name = 'doc_of' if sn == 'ValList' else 'argdoc_of'
    if not (is_z3(r) and z3.is_app(r) and r.decl().eq(I.translator.decl_of(C.specs[name])) and r.arg(0).eq(x) and free_of(r.arg(1), x)):
        raise OutsideSubset('generator element is not pretty_python_value(x, c)')
    return S(I, 'map_doc' if sn == 'ValList' else 'map_argdoc', it, r.arg(1))


C.extern = {PP: {
    'pretty_call_alt': FuncVal('hook', 'pretty_call_alt', _h_call_alt),
    'build_fncall': FuncVal('hook', 'build_fncall', _h_fncall),
    'general_identifier': FuncVal('hook', 'general_identifier', _h_ident),
    'annotate': FuncVal('hook', 'annotate', _h_annotate),
    'concat': FuncVal('hook', 'concat', _h_concat),
    'commentdoc': FuncVal('hook', 'commentdoc', _h_commentdoc),
    'pretty_python_value': FuncVal('hook', 'pretty_python_value', _h_ppv),
}}
U.modules = {'math': {'isnan': _isnan}, 'Token': _Tokens()}
_prev_type = _interp.BUILTINS.get('type')
_interp.BUILTINS['type'] = lambda I, a, k, n: (_b_type(I, a, k, n) if I.U is U else _prev_type(I, a, k, n))


# ---- scalars ---------------------------------------------------------------------------------------------------------------------
def _wrapped(inner):
    """C08: the subclass wrapper around the literal of the base value"""
    return 'fncall(ctx, ident(cls_of(value)), [%s], [], False, None)' % inner


_FL = 'annot(Token.NUMBER_FLOAT, float_repr(value))'
C.contract(
    PP, 'pretty_float', params={'value': 'Val', 'ctx': 'Ctx'}, returns='Doc',
    ensures=[('depth-placeholder', 'implies(ctx.depth_left == 0, result == call_alt(ctx, cls_of(value), [AEllipsis()]))'),
             ('pos-inf-is-a-call', 'implies(ctx.depth_left != 0 and value == INF_FLOAT, result == call_alt(ctx, cls_of(value), [AStr("inf")]))'),
             ('neg-inf-is-a-call', 'implies(ctx.depth_left != 0 and value == NEG_INF_FLOAT, result == call_alt(ctx, cls_of(value), [AStr("-inf")]))'),
             ('nan-is-a-call', 'implies(ctx.depth_left != 0 and is_nan(value), result == call_alt(ctx, cls_of(value), [AStr("nan")]))'),
             ('finite-float-literal', 'implies(ctx.depth_left != 0 and value != INF_FLOAT and value != NEG_INF_FLOAT and not is_nan(value) '
                                      'and cls_of(value) == float, result == %s)' % _FL),
             ('finite-subclass-keeps-class', 'implies(ctx.depth_left != 0 and value != INF_FLOAT and value != NEG_INF_FLOAT and not is_nan(value) '
                                             'and cls_of(value) != float, result == %s)' % _wrapped(_FL))],
    serves=['C01', 'C08', 'C11'])
_IL = 'annot(Token.NUMBER_INT, int_repr(value))'
C.contract(
    PP, 'pretty_int', params={'value': 'Val', 'ctx': 'Ctx'}, returns='Doc',
    ensures=[('depth-placeholder', 'implies(ctx.depth_left == 0, result == call_alt(ctx, cls_of(value), [AEllipsis()]))'),
             ('int-literal', 'implies(ctx.depth_left != 0 and cls_of(value) == int, result == %s)' % _IL),
             ('subclass-keeps-class', 'implies(ctx.depth_left != 0 and cls_of(value) != int, result == %s)' % _wrapped(_IL))],
    serves=['C01', 'C08', 'C11'])
_BL = 'annot(Token.KEYWORD_CONSTANT, ("True" if truthy(value) else "False"))'
C.contract(
    PP, 'pretty_bool', params={'value': 'Val', 'ctx': 'Ctx'}, returns='Doc',
    ensures=[('bool-literal', 'implies(cls_of(value) == bool, result == %s)' % _BL),
             ('subclass-keeps-class', 'implies(cls_of(value) != bool, result == %s)' % _wrapped(_BL))],
    serves=['C01', 'C08'])
C.contract(PP, 'pretty_none', params={'value': 'Val', 'ctx': 'Ctx'}, returns='Doc', ensures=[('none', 'result == NONE_DOC')], serves=['C01'])
C.contract(PP, 'pretty_ellipsis', params={'value': 'Val', 'ctx': 'Ctx'}, returns='Doc', ensures=[('ellipsis', 'result == ELLIPSIS')],
           serves=['C01'])


# ---- declarations checked against the source on every run ---------------------------------------------------------------------
def check_float_consts():
    """INF_FLOAT = float('inf'), NEG_INF_FLOAT = float('-inf'), NONE_DOC = annotate(Token.KEYWORD_CONSTANT, 'None'), bound once"""
    from pvf.pyvc.run import module_ast
    src, tree = module_ast(PP)
    want = {'INF_FLOAT': "float('inf')", 'NEG_INF_FLOAT': "float('-inf')", 'NONE_DOC': "annotate(Token.KEYWORD_CONSTANT, 'None')"}
    got = {}
    for n in ast.walk(tree):
        tg = n.targets if isinstance(n, ast.Assign) else ([n.target] if isinstance(n, (ast.AugAssign, ast.AnnAssign)) else [])
        for t in tg:
            for nm in ast.walk(t):
                if isinstance(nm, ast.Name) and nm.id in want:
                    got.setdefault(nm.id, []).append(ast.unparse(n.value) if getattr(n, 'value', None) is not None else '?')
        if isinstance(n, ast.Global) and set(n.names) & set(want):
            return False, 'global rebinding of %s' % sorted(set(n.names) & set(want))
    ok = all(got.get(k) == [v] for k, v in want.items())
    return ok, got


PRECHECKS = [check_float_consts]

C.assume('the documents the builders return (build_fncall, sequence_of_docs, annotate, concat, general_identifier, commentdoc, '
         'pretty_python_value) are named by uninterpreted functions of their arguments: what text they denote is decided by the '
         'bounded stand-ins, not here; the builders are deterministic in their arguments')
C.assume('depth_left is an integer here: float("inf") behaves as an arbitrary positive integer under the comparisons with 0 and the '
         'decrement the printers perform')
C.assume('`value == INF_FLOAT` is IEEE equality with +inf (a float subclass that overrides __eq__ is outside the model)')


# ==== list / tuple / set ==========================================================================================================
U.ctor_names.update({'SomeStr': ('OptStr', 'SomeStr'), 'NoStr': ('OptStr', 'NoStr')})


@C.lemma([('k', 'Int')], ensures=['len(trunc_text(k)) > 0'], triggers=['trunc_text(k)'], trusted=True,
         note='the truncation notice is a non-empty text: a format template with one placeholder, filled with an integer')
def lemma_trunc_text(k):
    pass


@C.spec([('tc', 'OptStr')], 'Bool')
def has_text(tc):
    """`if trailing_comment:`"""
    return tc is not None and len(unwrap(tc)) > 0


@C.spec([('tc', 'OptStr'), ('N', 'OptInt'), ('n', 'Int')], 'OptStr')
def eff_tc(tc, N, n):
    """C10: the trailing comment after truncation - the notice with exactly n - N exists iff n > N; a comment the caller attached
    is kept after it"""
    if N is not None and n > unwrap(N):
        if tc is not None and len(unwrap(tc)) > 0:
            return SomeStr(trunc_text(n - unwrap(N)) + '. ' + unwrap(tc))
        return SomeStr(trunc_text(n - unwrap(N)))
    return tc


def _format_hook(I, template, args, kwargs, node):
    """'<text with exactly one placeholder>'.format(<int>): the notice text, a function of the integer (the wording is not pinned)"""
    import string
    fields = [f for f in string.Formatter().parse(template) if f[1] is not None]
    if len(fields) == 1 and len(args) == 1 and not kwargs and is_z3(args[0]) and I.sort_of(args[0]) == 'Int':
        return S(I, 'trunc_text', args[0])
    return None


U.format_hook = _format_hook


def _order_hook(I, op, a, b):
    """len(value) > ctx.max_seq_len: an int against an Optional int (None is a TypeError)"""
    ch = False
    if is_z3(a) and I.sort_of(a) == 'OptInt':
        a, ch = I.coerce(a, 'Int'), True
    if is_z3(b) and I.sort_of(b) == 'OptInt':
        b, ch = I.coerce(b, 'Int'), True
    if not ch:
        return None
    return {ast.Lt: a < b, ast.LtE: a <= b, ast.Gt: a > b, ast.GtE: a >= b}[type(op)]


U.order_hook = _order_hook


def _binop_hook(I, op, a, b):
    if isinstance(op, (ast.Add, ast.Sub)):
        ch = False
        for sn_opt, sn in (('OptInt', 'Int'), ('OptStr', 'Str')):
            if is_z3(a) and I.sort_of(a) == sn_opt:
                a, ch = I.coerce(a, sn), True
            if is_z3(b) and I.sort_of(b) == sn_opt:
                b, ch = I.coerce(b, sn), True
        if ch:
            return I._binop(op, a, b)
    return None


U.binop_hook = _binop_hook

# the two context methods: the clauses proved in family `context` (there over the real depth type; here depth_left is an integer)
_NC = C.contract(PP, 'PrettyContext.nested_call', params={'self': 'Ctx'}, returns='Ctx', trusted=True,
                 ensures=[('depth', 'result.depth_left == self.depth_left - 1'),
                          ('rest', 'result.indent == self.indent and result.multiline_strategy == self.multiline_strategy and '
                                   'result.max_seq_len == self.max_seq_len and result.sort_dict_keys == self.sort_dict_keys')],
                 note='PROVED in family context (same clauses: depth_left - 1, every other field kept); restated here because this family '
                      'abstracts depth_left to an integer', serves=['C10', 'C11'])
_UMS = C.contract(PP, 'PrettyContext.use_multiline_strategy', params={'self': 'Ctx', 'strategy': 'Strategy'}, returns='Ctx', trusted=True,
                  ensures=[('strategy', 'result.multiline_strategy == strategy'),
                           ('rest', 'result.indent == self.indent and result.depth_left == self.depth_left and '
                                    'result.max_seq_len == self.max_seq_len and result.sort_dict_keys == self.sort_dict_keys')],
                  note='PROVED in family context (same clauses)', serves=['C10', 'C11'])
U.method_hooks = {
    ('Ctx', 'nested_call'): lambda I, obj, args, kwargs, node: I.call_contract(_NC, [obj] + list(args), kwargs, None),
    ('Ctx', 'use_multiline_strategy'): lambda I, obj, args, kwargs, node: I.call_contract(_UMS, [obj] + list(args), kwargs, None),
}


def check_ctx_clauses():
    """the restated clauses are the ones family context proves"""
    from pvf.contracts import context as K
    want = {'PrettyContext.nested_call': {'result.depth_left == self.depth_left - 1'},
            'PrettyContext.use_multiline_strategy': {'result.multiline_strategy == strategy'}}
    for q, need in want.items():
        c = K.C.fns[PP + ':' + q]
        srcs = {cl.src for cl in c.ensures}
        rest = [cl.src for cl in c.ensures if cl.name == 'rest']
        if not need <= srcs or not rest or 'result.max_seq_len == self.max_seq_len' not in rest[0] or c.trusted:
            return False, q
    return True, None


PRECHECKS.append(check_ctx_clauses)


def _h_take(I, args, kwargs, node):
    n, it = args
    if is_z3(it) and I.sort_of(it) == 'Val':
        it = S(I, 'items', it)
    return S(I, 'taken', I.coerce(n, 'OptInt') if not (n is None) else U.ctor('OptInt', 'NoInt')(), I.coerce(it, 'ValList'))


def _h_chain(I, args, kwargs, node):
    a, b = args
    t = _docs(I, a)
    if isinstance(t, list):
        t = _to_list(I, 'DocList', t)
    if not isinstance(b, (list, tuple)):
        raise OutsideSubset('chain() with a symbolic second operand')
    for x in b:
        t = S(I, 'snoc_doc', t, I.coerce(x, 'Doc'))
    return t


def _h_seq(I, args, kwargs, node):
    names = ['ctx', 'left', 'docs', 'right', 'dangle', 'force_break']
    kw = dict(kwargs)
    for i, x in enumerate(args):
        kw[names[i]] = x
    if set(kw) - set(names):
        raise OutsideSubset('sequence_of_docs keyword')

    def b(x):
        x = I.to_bool(x)
        return z3.BoolVal(x) if isinstance(x, bool) else x
    els = _docs(I, kw['docs'])
    if isinstance(els, list):
        els = _to_list(I, 'DocList', els)
    return S(I, 'seq_doc', I.coerce(kw['ctx'], 'Ctx'), I.coerce(kw['left'], 'Doc'), els, I.coerce(kw['right'], 'Doc'),
             b(kw.get('dangle', False)), b(kw.get('force_break', False)))


def _h_named(which):
    def h(I, args, kwargs, node):
        v, ctx = args[0], args[1]
        tc = _optstr(I, kwargs.get('trailing_comment', None))
        if which == 'cnamedtuple_doc':
            # may raise anything (field names cannot be resolved): the caller falls back to the plain tuple
            if not I.choose_bool(I.fresh('Bool', 'cnamedtuple_ok'), '@pretty_cnamedtuple returns'):
                raise SymRaise('Exception', 'pretty_cnamedtuple failed')
        return S(I, which, v, I.coerce(ctx, 'Ctx'), tc)
    return h


def _list_hook(I, v):
    if is_z3(v) and I.sort_of(v) == 'Val':
        return S(I, 'items', v)
    raise OutsideSubset('list() of %r' % (v,))


U.list_hook = _list_hook
C.extern[PP].update({
    'take': FuncVal('hook', 'take', _h_take),
    'chain': FuncVal('hook', 'chain', _h_chain),
    'sequence_of_docs': FuncVal('hook', 'sequence_of_docs', _h_seq),
    '_is_cnamedtuple': FuncVal('hook', '_is_cnamedtuple', lambda I, a, k, n: S(I, 'is_cnamedtuple', a[0])),
    '_is_namedtuple': FuncVal('hook', '_is_namedtuple', lambda I, a, k, n: S(I, 'is_namedtuple', a[0])),
    'pretty_cnamedtuple': FuncVal('hook', 'pretty_cnamedtuple', _h_named('cnamedtuple_doc')),
    'pretty_namedtuple': FuncVal('hook', 'pretty_namedtuple', _h_named('namedtuple_doc')),
})

_PLAIN = '(not is_tuple(value) or (not is_cnamedtuple(value) and not is_namedtuple(value)))'
_LEFT = '(LBRACKET if is_list(value) else (LPAREN if is_tuple(value) else LBRACE))'
_RIGHT = '(RBRACKET if is_list(value) else (RPAREN if is_tuple(value) else RBRACE))'
_NATIVE = '(cls_of(value) == tuple or cls_of(value) == list or cls_of(value) == set)'
_LT = '(is_list(value) or is_tuple(value))'
_TC = 'eff_tc(trailing_comment, ctx.max_seq_len, vlen(value))'
_HAS = 'has_text(%s)' % _TC
_ELS0 = ('map_doc(taken(ctx.max_seq_len, items(value)), nested(ctx, (MULTILINE_STRATEGY_PLAIN if vlen(value) == 1 else '
         'MULTILINE_STRATEGY_HANG)))')
_ELS = '(snoc_doc(%s, comment_doc(unwrap(%s))) if %s else %s)' % (_ELS0, _TC, _HAS, _ELS0)
_DANGLE = '(is_tuple(value) and not is_list(value) and vlen(value) == 1 and not %s)' % _HAS
_LIT = 'seq_doc(ctx, %s, %s, %s, %s, %s)' % (_LEFT, _ELS, _RIGHT, _DANGLE, _HAS)
_PLACEHOLDER = 'cat([%s, ELLIPSIS, %s])' % (_LEFT, _RIGHT)


def _wrap(lit):
    return '(%s if %s else fncall(ctx, ident(cls_of(value)), [%s], [], True, None))' % (lit, _NATIVE, lit)


_pbi = C.contract(
    PP, 'pretty_bracketable_iterable', params={'value': 'Val', 'ctx': 'Ctx', 'trailing_comment': 'OptStr'}, returns='Doc',
    requires=[('a-list-tuple-or-set', 'is_tuple(value) or is_list(value) or is_set(value)'),
              ('container-truthiness', 'truthy(value) == (vlen(value) != 0)'),
              ('limit-at-least-one', 'ctx.max_seq_len is None or unwrap(ctx.max_seq_len) >= 1')],
    ensures=[
        ('namedtuple-goes-to-its-printer', 'implies(is_tuple(value) and not is_cnamedtuple(value) and is_namedtuple(value), '
                                           'result == namedtuple_doc(value, ctx, trailing_comment))'),
        ('empty-with-comment', 'implies(%s and vlen(value) == 0 and %s, result == (seq_doc(ctx, %s, [comment_doc(unwrap(%s))], %s, False, True) '
                               'if %s and %s else fncall(ctx, ident(cls_of(value)), [], [], False, %s)))'
         % (_PLAIN, _HAS, _LEFT, _TC, _RIGHT, _NATIVE, _LT, _TC)),
        ('empty-keeps-class', 'implies(%s and vlen(value) == 0 and not %s, result == (cat([%s, %s]) if %s and %s else '
                              'call_alt(ctx, cls_of(value), [])))' % (_PLAIN, _HAS, _LEFT, _RIGHT, _NATIVE, _LT)),
        ('depth-cut-placeholder-keeps-class', 'implies(%s and vlen(value) != 0 and ctx.depth_left == 0, result == (%s if %s else '
                                              'call_alt(ctx, cls_of(value), [AEllipsis()])))' % (_PLAIN, _wrap(_PLACEHOLDER), _LT)),
        ('first-min-len-N-elements-one-level-deeper-notice-iff-longer-class-kept',
         'implies(%s and vlen(value) != 0 and ctx.depth_left != 0, result == %s)' % (_PLAIN, _wrap(_LIT))),
    ],
    serves=['C01', 'C08', 'C10', 'C11'])
_pbi.defaults = {'trailing_comment': None}
_pbi.shards = 8
C.assume('a value handed to pretty_bracketable_iterable is a list, tuple or set (the registry dispatches only those); its truthiness is '
         'len != 0; len(value) == len(list(value)); iteration order is the order of list(value)')
C.assume('the namedtuple printers (pretty_namedtuple, pretty_cnamedtuple) are named, not verified; pretty_cnamedtuple may raise any '
         'Exception, after which the value is printed as a plain tuple')


def _call_cls(I, fn, args, kwargs, node):
    """bool(x) / list(x): the names are class constants here (`constructor is float`), so calls are routed to the builtins"""
    for n in ('bool', 'list'):
        if fn.eq(CLS[n]):
            return _interp.BUILTINS[n](I, args, kwargs, node)
    raise OutsideSubset('call of a class object')


U.call_hooks = {'Cls': _call_cls}


# ==== pretty_call_alt (C17, C11) ====================================================================================================
@C.spec([('v', 'Val')], 'Val', opaque=True)
def unwrapped(v):
    """unwrap_comments(v)[0]: the value under comment() / trailing_comment() annotations"""
    return v


KW_IS_DICT = z3.Function('kwargs_is_dict', U.sort('KwList'), z3.BoolSort())       # whether kwargs was given as a dict / OrderedDict
U.isinstance_hooks[('KwList', 'dict')] = lambda I, v: KW_IS_DICT(v)
U.isinstance_hooks[('KwList', 'OrderedDict')] = lambda I, v: KW_IS_DICT(v)
U.consts['DICT_KEY_ORDER_SUPPORTED'] = z3.Bool('DICT_KEY_ORDER_SUPPORTED')              # sys.version_info >= (3, 6): either way
U.consts['UserWarning'] = z3.Const('CLS_UserWarning', CL)
U.modules['warnings'] = {'warn': lambda I, a, k, n: None}
U.method_hooks[('KwList', 'items')] = lambda I, obj, args, kwargs, node: obj            # the pairs of a dict, in its order


def _h_unwrap_comments(I, args, kwargs, node):
    v = I.coerce(args[0], 'Val')
    return (S(I, 'unwrapped', v), ('opaque', 'comment', v), ('opaque', 'trailing_comment', v))


C.extern[PP]['unwrap_comments'] = FuncVal('hook', 'unwrap_comments', _h_unwrap_comments)
_HUG = ('(not kwargs and len(args) == 1 and (cls_of(unwrapped(args[0])) == list or cls_of(unwrapped(args[0])) == dict or '
        'cls_of(unwrapped(args[0])) == tuple))')
_pca = C.contract(
    PP, 'pretty_call_alt', params={'ctx': 'Ctx', 'fn': 'Cls', 'args': 'ValList', 'kwargs': 'KwList', 'trailing_comment': 'OptStr'},
    returns='Doc',
    ensures=[('depth-cut-placeholder-keeps-the-name', 'implies(ctx.depth_left <= 0, result == cat([ident(fn), LPAREN, ELLIPSIS, RPAREN]))'),
             ('hugged-sole-argument-consumes-no-level', 'implies(ctx.depth_left > 0 and %s, result == fncall(ctx, ident(fn), '
                                                        '[doc_of(args[0], ctx)], [], True, trailing_comment))' % _HUG),
             ('name-then-every-positional-then-every-keyword-argument-in-order',
              'implies(ctx.depth_left > 0 and not %s, result == fncall(ctx, ident(fn), map_doc(args, nested(ctx, MULTILINE_STRATEGY_HANG)), '
              'map_kwdoc(kwargs, nested(ctx, MULTILINE_STRATEGY_HANG)), False, trailing_comment))' % _HUG)],
    serves=['C17', 'C11'])
_pca.defaults = {'args': [], 'kwargs': [], 'trailing_comment': None}
C.assume('pretty_call_alt: args is a sequence of values, kwargs a sequence of (name, value) pairs or a dict (its items, in its order); '
         'the callable is identified by general_identifier(fn) (named, not verified here)')


def _h_sorted(I, args, kwargs, node):
    """sorted(xs): some list of the same sort about which nothing is known (an unrelated order)"""
    xs = args[0]
    if is_z3(xs) and I.sort_of(xs) in ('KwList', 'ValList'):
        sn = I.sort_of(xs)
        return z3.Function('sorted_' + sn, U.sort(sn), U.sort(sn))(xs)
    raise OutsideSubset('sorted() of %r' % (xs,))


C.extern[PP]['sorted'] = FuncVal('hook', 'sorted', _h_sorted)


# ==== general_identifier: the qualified name printed for a class / callable (C08, C17) ==========================================
@C.spec([('c', 'Cls')], 'OptStr', opaque=True)
def mod_of(c):
    """c.__module__ (None for methods of built-in types)"""
    return c.__module__


@C.spec([('c', 'Cls')], 'Str', opaque=True)
def qualname_of(c):
    return c.__qualname__


@C.spec([('c', 'Cls')], 'Bool', opaque=True)
def has_self(c):
    return hasattr(c, '__self__')


@C.spec([('c', 'Cls')], 'Val', opaque=True)
def self_of(c):
    return c.__self__


U.attr_hooks[('Cls', '__module__')] = lambda I, base: S(I, 'mod_of', base)
U.attr_hooks[('Cls', '__qualname__')] = lambda I, base: S(I, 'qualname_of', base)
U.attr_hooks[('Cls', '__self__')] = lambda I, base: S(I, 'self_of', base)
U.consts['IMPLICIT_MODULES'] = ('__main__', 'builtins')          # the set display of the source (checked by check_implicit_modules)


def _h_callable(I, args, kwargs, node):
    if is_z3(args[0]) and I.sort_of(args[0]) == 'Cls':
        return True
    raise OutsideSubset('callable() of %r' % (args[0],))


def _h_hasattr(I, args, kwargs, node):
    if is_z3(args[0]) and I.sort_of(args[0]) == 'Cls' and args[1] == '__self__':
        return S(I, 'has_self', args[0])
    raise OutsideSubset('hasattr shape')


def _str_or_none_text(I, a):
    """str(a) inside format(): None prints as 'None'"""
    if isinstance(a, str):
        return z3.StringVal(a)
    if is_z3(a) and I.sort_of(a) == 'Str':
        return a
    if is_z3(a) and I.sort_of(a) == 'OptStr':
        return z3.If(U.is_('OptStr', 'SomeStr', a), U.acc('OptStr', 'SomeStr', 'v')(a), z3.StringVal('None'))
    return None


def _format_hook2(I, template, args, kwargs, node):
    import string
    parts = list(string.Formatter().parse(template))
    fields = [f for f in parts if f[1] is not None]
    if fields and all(f[1] == '' and not f[2] and not f[3] for f in fields) and len(fields) == len(args) and not kwargs:
        texts = [_str_or_none_text(I, a) for a in args]
        if all(t is not None for t in texts):
            out, i = [], 0
            for lit, field, spec, conv in parts:
                if lit:
                    out.append(z3.StringVal(lit))
                if field is not None:
                    out.append(texts[i])
                    i += 1
            return out[0] if len(out) == 1 else z3.Concat(*out)
    return _format_hook(I, template, args, kwargs, node)


U.format_hook = _format_hook2
_interp.BUILTINS.setdefault('callable', lambda I, a, k, n: _h_callable(I, a, k, n))
_interp.BUILTINS.setdefault('hasattr', lambda I, a, k, n: _h_hasattr(I, a, k, n))
C.extern[PP].update({
    'identifier': FuncVal('hook', 'identifier', lambda I, a, k, n: S(I, 'annot', _Tokens()['NAME_FUNCTION'],
                                                                      I.coerce(a[0], 'Str'))),
    'builtin_identifier': FuncVal('hook', 'builtin_identifier', lambda I, a, k, n: S(I, 'annot', _Tokens()['NAME_BUILTIN'],
                                                                                      I.coerce(a[0], 'Str'))),
})
_M = '(mod_of(s) if (mod_of(s) is not None or not has_self(s)) else mod_of(cls_of(self_of(s))))'
C.contract(
    PP, 'general_identifier', params={'s': 'Cls'}, returns='Doc',
    ensures=[('builtins-unqualified', 'implies(%s == "builtins", result == annot(Token.NAME_BUILTIN, qualname_of(s)))' % _M),
             ('main-unqualified', 'implies(%s == "__main__", result == annot(Token.NAME_FUNCTION, qualname_of(s)))' % _M),
             ('otherwise-the-own-module-dot-qualname',
              'implies(%s is not None and %s != "builtins" and %s != "__main__", '
              'result == annot(Token.NAME_FUNCTION, unwrap(%s) + "." + qualname_of(s)))' % (_M, _M, _M, _M))],
    serves=['C08', 'C17'],
    note='for a class or callable: exactly its own __module__ and __qualname__ (the text evaluates to the object where the module is '
         'imported); a plain string argument is not covered')


def check_implicit_modules():
    from pvf.pyvc.run import module_ast
    src, tree = module_ast(PP)
    got = []
    for n in ast.walk(tree):
        tg = n.targets if isinstance(n, ast.Assign) else ([n.target] if isinstance(n, (ast.AugAssign, ast.AnnAssign)) else [])
        for t in tg:
            if isinstance(t, ast.Name) and t.id == 'IMPLICIT_MODULES':
                try:
                    got.append(tuple(sorted(ast.literal_eval(n.value))))
                except Exception:      # noqa
                    got.append(ast.unparse(n.value))
    return got == [('__main__', 'builtins')], got


PRECHECKS.append(check_implicit_modules)

U.modules['sys'] = {'modules': z3.Const('sys_modules', z3.SetSort(z3.StringSort()))}       # which modules are loaded: any set of names


# ==== frozenset: the call frozenset([...]) around the list of its items (C01, C08, C10) ===========================================
@C.spec([('xs', 'ValList')], 'Val', opaque=True)
def list_val(xs):
    """the list object list(value) handed on to the list printer"""
    return list(xs)


def _list_hook2(I, v):
    if is_z3(v) and I.sort_of(v) == 'Val':
        return S(I, 'list_val', S(I, 'items', v)) if getattr(I, 'list_as_value', False) else S(I, 'items', v)
    raise OutsideSubset('list() of %r' % (v,))


def _to_arg2(I, a):
    if is_z3(a) and I.sort_of(a) == 'ValList':
        return U.ctor('Arg', 'AVal')(S(I, 'list_val', a))          # a list built from the items, passed as an argument object
    return _to_arg_base(I, a)


_to_arg_base = _to_arg
_to_arg = _to_arg2
C.contract(
    PP, 'pretty_frozenset', params={'value': 'Val', 'ctx': 'Ctx'}, returns='Doc',
    requires=[('container-truthiness', 'truthy(value) == (vlen(value) != 0)')],
    ensures=[('non-empty-is-the-call-around-the-list-of-all-items',
              'implies(vlen(value) != 0, result == call_alt(ctx, cls_of(value), [AVal(list_val(items(value)))]))'),
             ('empty-keeps-class', 'implies(vlen(value) == 0, result == call_alt(ctx, cls_of(value), []))')],
    serves=['C01', 'C08', 'C10'],
    note='the whole item list is handed to the list printer under the same context (which truncates it and states the count: proved for '
         'pretty_bracketable_iterable); a copy that drops items here is refuted')


# ==== pretty_dict (C10, C11, C08): which keys and values reach the printers, under which contexts ==================================
# The document pretty_dict builds is glue around the key / value documents (commas, comments, flat_choice variants): the glue is not
# named here.  What IS stated: the LOG of printer calls - a ghost list of (value, context) the hooks append to - and the notice.
U.declare({
    'CallRec': ('record', [('v', 'Val'), ('c', 'Ctx'), ('strkey', 'Bool')]),
    'CallLog': ('list', 'CallRec', 'snoc'),
    'ValSnoc': ('list', 'Val', 'snoc'),
    'PairRec': ('record', [('k', 'Val'), ('v', 'Val'), ('kdoc', 'Doc'), ('vdoc', 'Doc'), ('kcomment', 'OptStr'), ('vcomment', 'OptStr')]),
    'PairList': ('list', 'PairRec', 'snoc'),
    'DocSnoc': ('list', 'Doc', 'snoc'),
    'EnumRec': ('record', [('idx', 'Int'), ('tup', 'PairRec')]),
    'EnumList': ('list', 'EnumRec', 'fwd'),
})


@C.spec([('d', 'Val'), ('k', 'Val')], 'Val', opaque=True)
def dget(d, k):
    return d[k]


@C.spec([('k', 'Val'), ('ctx', 'Ctx')], 'Doc', opaque=True)
def str_doc(k, ctx):
    """pretty_str(k, ctx=ctx)"""
    return None


@C.spec([('d', 'Doc')], 'Bool', opaque=True)
def commented(d):
    return True


@C.spec([('d', 'Doc')], 'Str', opaque=True)
def comment_of(d):
    return d.annotation.value


@C.spec([('d', 'Doc')], 'Doc', opaque=True)
def inner(d):
    return d.doc


@C.spec([('xs', 'ValList')], 'ValList', opaque=True)
def sorted_ks(xs):
    """sorted(xs, key=_AlwaysSortable)"""
    return sorted(xs)


@C.spec([('s', 'ValSnoc'), ('f', 'ValList')], 'ValList')
def app_sf(s, f):
    """the keys looked up so far, followed by the keys still to come"""
    if not s:
        return f
    return app_sf(s[:-1], cons(s[-1], f))


@C.spec([('log', 'CallLog'), ('ctx', 'Ctx')], 'Bool')
def all_ok(log, ctx):
    """every key and value is printed under a context that keeps max_seq_len, sort_dict_keys and indent and is exactly one level
    deeper (a str / bytes key is printed at the level of the dict: `not a nested call on purpose` - the depth of such a key is a known
    finding of C11 decided by the bounded stand-in and not claimed here)"""
    if not log:
        return True
    return (log[-1].c.max_seq_len == ctx.max_seq_len and log[-1].c.sort_dict_keys == ctx.sort_dict_keys and log[-1].c.indent == ctx.indent
            and (log[-1].strkey or log[-1].c.depth_left == ctx.depth_left - 1)
            and implies(log[-1].strkey, log[-1].c.depth_left == ctx.depth_left) and all_ok(log[:-1], ctx))


def _log(I, v, ctx, strkey=False):
    if 'log_' in I.env:
        I.env['log_'] = U.cons('CallLog', U.mk('CallRec', v, ctx, z3.BoolVal(strkey)), I.env['log_'])


_h_ppv_base = _h_ppv


def _h_ppv2(I, args, kwargs, node):
    r = _h_ppv_base(I, args, kwargs, node)
    if z3.is_app(r) and r.decl().eq(I.translator.decl_of(C.specs['doc_of'])):
        _log(I, r.arg(0), r.arg(1))
    return r


def _h_pretty_str(I, args, kwargs, node):
    kw = dict(kwargs)
    k = I.coerce(args[0], 'Val')
    ctx = I.coerce(args[1] if len(args) > 1 else kw.pop('ctx'), 'Ctx')
    if kw or len(args) > 2:
        raise OutsideSubset('pretty_str call shape')
    _log(I, k, ctx, strkey=True)
    return S(I, 'str_doc', k, ctx)


def _h_unnamed(name):
    def h(I, args, kwargs, node):
        return I.fresh('Doc', name)          # glue: some document (nothing is claimed about it)
    return h


_h_concat_base = _h_concat


def _h_concat2(I, args, kwargs, node):
    try:
        return _h_concat_base(I, args, kwargs, node)
    except OutsideSubset:
        return I.fresh('Doc', 'concat')      # children that are plain strings or an accumulated list: unnamed glue


_h_commentdoc_base = _h_commentdoc


def _h_commentdoc2(I, args, kwargs, node):
    if 'tcnote_' in I.env and node is not None and node.args and isinstance(node.args[0], ast.Name) and node.args[0].id == 'trailing_comment':
        I.env['tcnote_'] = _optstr(I, I.coerce(args[0], 'Str'))        # the comment that closes the dict: the notice / attached comment
    return _h_commentdoc_base(I, args, kwargs, node)


def _subscript_val(I, base, sl):
    k = I.coerce(I.ev(sl), 'Val')
    if 'keys_' in I.env:
        I.env['keys_'] = U.cons('ValSnoc', k, I.env['keys_'])
    return S(I, 'dget', base, k)


def _h_sorted2(I, args, kwargs, node):
    xs = args[0]
    key = kwargs.get('key')
    if is_z3(xs) and I.sort_of(xs) == 'ValList' and isinstance(key, tuple) and key[:2] == ('opaque', '_AlwaysSortable') and len(kwargs) == 1:
        return S(I, 'sorted_ks', xs)
    if kwargs:
        raise OutsideSubset('sorted() with other keywords')
    return _h_sorted(I, args, kwargs, node)


def _b_enumerate(I, args, kwargs, node):
    return GenExp('enumerate', arg=args[0])


def _for_hook(I, it, s):
    """for idx, tup in enumerate(pairs): an ARBITRARY list of (index, pair) records - an over-approximation of the pairs collected
    before (nothing the contract states depends on which pair is which)"""
    if isinstance(it, GenExp) and it.kind == 'enumerate' and is_z3(it.arg) and I.sort_of(it.arg) == 'PairList':
        return I.fresh('EnumList', 'enumerated')
    return None


U.for_hook = _for_hook
U.subscript_hooks = {'Val': _subscript_val}
U.method_hooks[('Val', 'keys')] = lambda I, obj, args, kwargs, node: S(I, 'items', obj)       # the keys, in the dict's order
U.attr_hooks[('Doc', 'annotation')] = lambda I, base: ('opaque', 'annotation', base)
U.attr_hooks[('Doc', 'doc')] = lambda I, base: S(I, 'inner', base)


def _opaque_attr(I, obj, attr):
    if obj[1] == 'annotation' and attr == 'value':
        return S(I, 'comment_of', obj[2])
    raise OutsideSubset('attribute %s of %r' % (attr, obj[1]))


U.opaque_attr = _opaque_attr
_interp.BUILTINS.setdefault('enumerate', _b_enumerate)
for _n in ('COLON', 'LINE', 'HARDLINE', 'SOFTLINE'):
    U.consts[_n] = z3.Const('DOC_' + _n, D)
U.consts['MULTILINE_STRATEGY_PARENS'] = z3.Const('MULTILINE_STRATEGY_PARENS', U.sort('Strategy'))
U.consts['MULTILINE_STRATEGY_INDENTED'] = z3.Const('MULTILINE_STRATEGY_INDENTED', U.sort('Strategy'))
C.extern[PP].update({
    'pretty_python_value': FuncVal('hook', 'pretty_python_value', _h_ppv2),
    'pretty_str': FuncVal('hook', 'pretty_str', _h_pretty_str),
    'concat': FuncVal('hook', 'concat', _h_concat2),
    'commentdoc': FuncVal('hook', 'commentdoc', _h_commentdoc2),
    'sorted': FuncVal('hook', 'sorted', _h_sorted2),
    'is_commented': FuncVal('hook', 'is_commented', lambda I, a, k, n: S(I, 'commented', I.coerce(a[0], 'Doc'))),
    '_AlwaysSortable': ('opaque', '_AlwaysSortable'),
    'group': FuncVal('hook', 'group', _h_unnamed('group')), 'flat_choice': FuncVal('hook', 'flat_choice', _h_unnamed('flat_choice')),
    'nest': FuncVal('hook', 'nest', _h_unnamed('nest')), 'bracket': FuncVal('hook', 'bracket', _h_unnamed('bracket')),
    'always_break': FuncVal('hook', 'always_break', _h_unnamed('always_break')),
})
_KS = '(sorted_ks(items(d)) if ctx.sort_dict_keys else items(d))'
_DTC = 'eff_tc(old(trailing_comment), ctx.max_seq_len, vlen(d))'
_DPLACE = 'cat([LBRACE, ELLIPSIS, RBRACE])'
_pd = C.contract(
    PP, 'pretty_dict', params={'d': 'Val', 'ctx': 'Ctx', 'trailing_comment': 'OptStr'}, returns='Doc',
    requires=[('limit-at-least-one', 'ctx.max_seq_len is None or unwrap(ctx.max_seq_len) >= 1')],
    ghost={'log_': ('CallLog', '[]'), 'keys_': ('ValSnoc', '[]'), 'tcnote_': ('OptStr', 'None')},
    locals_={'pairs': 'PairList', 'parts': 'DocSnoc', 'kcomment': 'OptStr', 'vcomment': 'OptStr'},
    ensures=[
        ('depth-cut-placeholder-keeps-class-and-prints-nothing',
         'implies(ctx.depth_left == 0, result == (%s if cls_of(d) == dict else fncall(ctx, ident(cls_of(d)), [%s], [], True, None)) '
         'and len(log_) == 0)' % (_DPLACE, _DPLACE)),
        ('exactly-the-first-min-len-N-keys-in-order', 'implies(ctx.depth_left != 0, app_sf(keys_, []) == taken(ctx.max_seq_len, %s))' % _KS),
        ('every-key-and-value-one-level-deeper-with-the-same-limit', 'implies(ctx.depth_left != 0, all_ok(log_, ctx))'),
        ('notice-iff-longer-with-len-minus-N', 'implies(ctx.depth_left != 0, tcnote_ == (%s if has_text(%s) else None))' % (_DTC, _DTC)),
    ],
    loops={
        0: dict(rest='rest_keys', modifies=['log_', 'keys_'],
                inv=[('keys', 'app_sf(keys_, rest_keys) == taken(ctx.max_seq_len, %s)' % _KS), ('contexts', 'all_ok(log_, ctx)'),
                     ('no-closing-comment-yet', 'tcnote_ is None')]),
        1: dict(rest='rest_pairs', modifies=['log_'],
                inv=[('keys', 'app_sf(keys_, []) == taken(ctx.max_seq_len, %s)' % _KS), ('contexts', 'all_ok(log_, ctx)'),
                     ('no-closing-comment-yet', 'tcnote_ is None')]),
    },
    serves=['C10', 'C11', 'C08'])
_pd.defaults = {'trailing_comment': None}
_pd.shards = 8
C.assume('pretty_dict: the glue around the key / value documents (commas, comment placement, flat_choice variants, brackets) is unnamed; '
         'the second loop runs over an arbitrary list of the collected pairs; the subclass wrapper of a non-empty dict is decided by the '
         'bounded stand-in')


def _m_replace(I, obj, args, kwargs, node):
    """ctx._replace(field=value, ...): the named fields replaced, every other kept (PROVED for every subset of fields in family context)"""
    if args or '**' in kwargs:
        raise OutsideSubset('_replace call shape')
    flds = U.decl_spec['Ctx'][1]
    unknown = set(kwargs) - {f for f, _ in flds} - {'visited', 'user_ctx'}
    if unknown:
        raise SymRaise('AssertionError', 'unknown field %s' % sorted(unknown))
    vals = []
    for f, sn in flds:
        if f in kwargs:
            v = kwargs[f]
            vals.append(U.ctor('OptInt', 'NoInt')() if (v is None and sn == 'OptInt') else I.coerce(v, sn))
        else:
            vals.append(z3.simplify(U.rget('Ctx', f, obj)))
    return U.mk('Ctx', *vals)


U.method_hooks[('Ctx', '_replace')] = _m_replace


# ==== pretty_call: the *args / **kwargs front end of pretty_call_alt (C17) =========================================================
_HUG2 = _HUG
_pc = C.contract(
    PP, 'pretty_call', params={'ctx': 'Ctx', 'fn': 'Cls'}, returns='Doc',
    ensures=[('depth-cut-placeholder-keeps-the-name', 'implies(ctx.depth_left <= 0, result == cat([ident(fn), LPAREN, ELLIPSIS, RPAREN]))'),
             ('hugged-sole-argument-consumes-no-level', 'implies(ctx.depth_left > 0 and %s, result == fncall(ctx, ident(fn), '
                                                        '[doc_of(args[0], ctx)], [], True, None))' % _HUG2),
             ('name-then-every-positional-then-every-keyword-argument-in-order',
              'implies(ctx.depth_left > 0 and not %s, result == fncall(ctx, ident(fn), map_doc(args, nested(ctx, MULTILINE_STRATEGY_HANG)), '
              'map_kwdoc(kwargs, nested(ctx, MULTILINE_STRATEGY_HANG)), False, None))' % _HUG2)],
    serves=['C17', 'C11'],
    note='the positional pack is the argument sequence, the keyword pack the (name, value) pairs in the order the caller wrote them '
         '(Python keeps keyword order, PEP 468); proved against the CONTRACT of pretty_call_alt, not its body')
_pc.packs = {'args': 'ValList', 'kwargs': 'KwList'}


# ==== extras/dataclasses.py: which fields a dataclass instance is printed with (C17) ============================================
DC = 'prettyprinter.extras.dataclasses'
U.uninterpreted('Factory')
U.declare({
    'OptVal': ('data', [('NoVal', []), ('SomeVal', [('v', 'Val')])]),                 # MISSING or a default value
    'OptFactory': ('data', [('NoFactory', []), ('SomeFactory', [('v', 'Factory')])]),
    'FieldDef': ('record', [('name', 'Str'), ('repr', 'Bool'), ('default', 'OptVal'), ('default_factory', 'OptFactory')]),
    'FieldList': ('list', 'FieldDef', 'fwd'),
    'KwSnoc': ('list', 'Kw', 'snoc'),
})
U.options.update({'OptVal': 'Val', 'OptFactory': 'Factory'})
U.consts['MISSING'] = None          # `x is MISSING` reads as "the Optional is empty": the option sorts model MISSING as their empty case


@C.spec([('v', 'Val')], 'FieldList', opaque=True)
def fields_of(v):
    """dataclasses.fields(v): the field definitions in declaration order"""
    return None


@C.spec([('v', 'Val'), ('name', 'Str')], 'Val', opaque=True)
def attr(v, name):
    return getattr(v, name)


@C.spec([('f', 'Factory')], 'Val', opaque=True)
def made(f):
    """f(): what the default factory returns"""
    return f()


@C.spec([('f', 'FieldDef'), ('v', 'Val')], 'Bool')
def shown_field(f, v):
    """the statement of C17: repr enabled, and no default at all or a value that differs from the declared default"""
    if not f.repr:
        return False
    if f.default is None and f.default_factory is None:
        return True
    if f.default is not None:
        return unwrap(f.default) != attr(v, f.name)
    return made(unwrap(f.default_factory)) != attr(v, f.name)


@C.spec([('fs', 'FieldList'), ('v', 'Val')], 'KwList')
def shown(fs, v):
    """(name, value) of exactly the shown fields, in declaration order"""
    if not fs:
        return []
    if shown_field(fs[0], v):
        return cons(Kw(fs[0].name, attr(v, fs[0].name)), shown(fs[1:], v))
    return shown(fs[1:], v)


@C.spec([('s', 'KwSnoc'), ('f', 'KwList')], 'KwList')
def app_kw(s, f):
    """the pairs collected so far, followed by f"""
    if not s:
        return f
    return app_kw(s[:-1], cons(s[-1], f))


def _h_getattr(I, args, kwargs, node):
    if len(args) == 2 and is_z3(args[0]) and I.sort_of(args[0]) == 'Val':
        return S(I, 'attr', args[0], I.coerce(args[1], 'Str'))
    raise OutsideSubset('getattr shape')


def _h_pca_dc(I, args, kwargs, node):
    """pretty_call_alt(ctx, cls, kwargs=<collected pairs>): through the CONTRACT of pretty_call_alt"""
    kw = dict(kwargs)
    ks = kw.get('kwargs')
    if is_z3(ks) and I.sort_of(ks) == 'KwSnoc':
        kw['kwargs'] = S(I, 'app_kw', ks, U.nil('KwList'))
    return I.call_contract(C.fns[PP + ':pretty_call_alt'], list(args), kw, node)


U.call_hooks['Factory'] = lambda I, fn, args, kwargs, node: S(I, 'made', fn)
U.call_hooks['OptFactory'] = lambda I, fn, args, kwargs, node: S(I, 'made', I.coerce(fn, 'Factory'))      # calling MISSING raises TypeError
_prev_getattr = _interp.BUILTINS.get('getattr')
_interp.BUILTINS['getattr'] = lambda I, a, k, n: (_h_getattr(I, a, k, n) if I.U is U else _prev_getattr(I, a, k, n))
C.extern[DC] = {
    'fields': FuncVal('hook', 'fields', lambda I, a, k, n: S(I, 'fields_of', I.coerce(a[0], 'Val'))),
    'pretty_call_alt': FuncVal('hook', 'pretty_call_alt', _h_pca_dc),
}
_FN = 'fncall(ctx, ident(cls_of(value)), [], map_kwdoc(shown(fields_of(value), value), nested(ctx, MULTILINE_STRATEGY_HANG)), False, None)'
C.contract(
    DC, 'pretty_dataclass_instance', params={'value': 'Val', 'ctx': 'Ctx'}, returns='Doc',
    locals_={'kwargs': 'KwSnoc'},
    ensures=[('exactly-the-shown-fields-in-declaration-order', 'implies(ctx.depth_left > 0, result == %s)' % _FN),
             ('depth-cut-placeholder', 'implies(ctx.depth_left <= 0, result == cat([ident(cls_of(value)), LPAREN, ELLIPSIS, RPAREN]))')],
    loops={0: dict(rest='rest_fields', inv=[('collected', 'app_kw(kwargs, shown(rest_fields, value)) == shown(fields_of(value), value)')])},
    serves=['C17'],
    note='proved against the CONTRACT of pretty_call_alt (every keyword argument printed, in order); `!=` between a default and the attribute '
         'is disequality of abstract values; a default_factory is called once per print and named made(factory)')
C.assume('dataclasses.fields(value) is the declaration-order list of field definitions with attributes name, repr, default, default_factory; '
         'MISSING is modelled as the empty case of the two Optional attributes')


# ==== extras/attrs.py: which attributes an attrs instance is printed with (C17) ================================================
AT = 'prettyprinter.extras.attrs'
U.declare({
    'AttrDefault': ('data', [('Nothing', []), ('FactoryD', [('factory', 'Factory'), ('takes_self', 'Bool')]), ('ValueD', [('v', 'Val')])]),
    'AttrDef': ('record', [('name', 'Str'), ('repr', 'Bool'), ('default', 'AttrDefault'), ('alias', 'OptStr')]),
    'AttrList': ('list', 'AttrDef', 'fwd'),
})
U.classmap['Factory'] = ('AttrDefault', 'FactoryD')
U.consts['NOTHING'] = U.ctor('AttrDefault', 'Nothing')()
U.coerce_hooks = dict(getattr(U, 'coerce_hooks', {}))


def _default_as_val(I, v):
    """a default that is neither NOTHING nor a Factory is the default value itself"""
    if not I.pure and not I.choose_bool(U.is_('AttrDefault', 'ValueD', v), '@plain default'):
        raise OutsideSubset('comparison of NOTHING / a Factory object with an attribute value')
    return U.acc('AttrDefault', 'ValueD', 'v')(v)


U.coerce_hooks[('AttrDefault', 'Val')] = _default_as_val
U.coerce_hooks[('Val', 'AttrDefault')] = lambda I, v: U.ctor('AttrDefault', 'ValueD')(v)      # a value compared with a default object


@C.spec([('c', 'Cls')], 'AttrList', opaque=True)
def attrs_of(c):
    """cls.__attrs_attrs__: the attribute definitions in declaration order"""
    return None


@C.spec([('f', 'Factory'), ('v', 'Val')], 'Val', opaque=True)
def made_self(f, v):
    """f(instance) for a Factory(takes_self=True)"""
    return f(v)


@C.spec([('s', 'Str')], 'Str', opaque=True)
def lstrip_underscores(s):
    return s.lstrip('_')


@C.spec([('a', 'AttrDef')], 'Str')
def init_name(a):
    """the __init__ argument of the attribute: its alias, else the name without leading underscores"""
    if a.alias is not None and len(unwrap(a.alias)) > 0:
        return unwrap(a.alias)
    return lstrip_underscores(a.name)


@C.spec([('a', 'AttrDef'), ('v', 'Val')], 'Bool')
def shown_attr(a, v):
    if not a.repr:
        return False
    if a.default == NOTHING:
        return True
    if isinstance(a.default, Factory):
        return (made_self(a.default.factory, v) if a.default.takes_self else made(a.default.factory)) != attr(v, a.name)
    return a.default.v != attr(v, a.name)


@C.spec([('xs', 'AttrList'), ('v', 'Val')], 'KwList')
def shown_attrs(xs, v):
    if not xs:
        return []
    if shown_attr(xs[0], v):
        return cons(Kw(init_name(xs[0]), attr(v, xs[0].name)), shown_attrs(xs[1:], v))
    return shown_attrs(xs[1:], v)


def _h_getattr2(I, args, kwargs, node):
    if len(args) == 3 and is_z3(args[0]) and I.sort_of(args[0]) == 'AttrDef' and args[1] == 'alias' and args[2] is None:
        return z3.simplify(U.rget('AttrDef', 'alias', args[0]))          # attrs < 22.2 has no alias: the Optional is empty then
    return _h_getattr(I, args, kwargs, node)


def _factory_call(I, fn, args, kwargs, node):
    if len(args) == 1:
        return S(I, 'made_self', fn, I.coerce(args[0], 'Val'))
    return S(I, 'made', fn)


U.call_hooks['Factory'] = _factory_call
_interp.BUILTINS['getattr'] = lambda I, a, k, n: (_h_getattr2(I, a, k, n) if I.U is U else _prev_getattr(I, a, k, n))
U.attr_hooks[('Cls', '__attrs_attrs__')] = lambda I, base: S(I, 'attrs_of', base)
U.method_hooks[('Str', 'lstrip')] = lambda I, obj, args, kwargs, node: (S(I, 'lstrip_underscores', obj) if args == ['_'] else (_ for _ in ()).throw(OutsideSubset('lstrip shape')))
C.extern[AT] = {'pretty_call_alt': FuncVal('hook', 'pretty_call_alt', _h_pca_dc)}
_FNA = 'fncall(ctx, ident(cls_of(value)), [], map_kwdoc(shown_attrs(attrs_of(cls_of(value)), value), nested(ctx, MULTILINE_STRATEGY_HANG)), False, None)'
C.contract(
    AT, 'pretty_attrs', params={'value': 'Val', 'ctx': 'Ctx'}, returns='Doc',
    locals_={'kwargs': 'KwSnoc'},
    ensures=[('exactly-the-shown-attributes-in-declaration-order-under-their-init-names', 'implies(ctx.depth_left > 0, result == %s)' % _FNA),
             ('depth-cut-placeholder', 'implies(ctx.depth_left <= 0, result == cat([ident(cls_of(value)), LPAREN, ELLIPSIS, RPAREN]))')],
    loops={0: dict(rest='rest_attrs', inv=[('collected', 'app_kw(kwargs, shown_attrs(rest_attrs, value)) == shown_attrs(attrs_of(cls_of(value)), value)')])},
    serves=['C17'],
    note='proved against the CONTRACT of pretty_call_alt; attribute.default is NOTHING, a Factory (called with or without the instance) or the '
         'default value; the keyword is the alias (attrs >= 22.2) or the name without leading underscores')


# ==== pretty_stdlib.py: the collections printers emit exactly the constructor call that rebuilds the value (C07) ================
STD = 'prettyprinter.pretty_stdlib'


@C.spec([('ctx', 'Ctx'), ('cls', 'Cls'), ('args', 'ArgList'), ('kwargs', 'KwList')], 'Doc', opaque=True)
def call_alt_kw(ctx, cls, args, kwargs):
    """pretty_call_alt(ctx, cls, args=args, kwargs=kwargs)"""
    return None


@C.spec([('v', 'Val')], 'OptVal', opaque=True)
def maxlen_of(v):
    return v.maxlen


@C.spec([('v', 'Val')], 'Val', opaque=True)
def default_factory_of(v):
    return v.default_factory


@C.spec([('v', 'Val')], 'Val', opaque=True)
def dict_val(v):
    """dict(v): a plain dict with the same pairs in the same order"""
    return dict(v)


@C.spec([('v', 'Val')], 'Val', opaque=True)
def items_view(v):
    return v.items()


@C.spec([('v', 'Val')], 'Val', opaque=True)
def most_common_of(v):
    return v.most_common()


@C.spec([('v', 'Val')], 'ArgList', opaque=True)
def exc_args(v):
    """exc.args as an argument sequence"""
    return None


U.attr_hooks[('Val', 'maxlen')] = lambda I, base: S(I, 'maxlen_of', base)
U.attr_hooks[('Val', 'default_factory')] = lambda I, base: S(I, 'default_factory_of', base)
U.attr_hooks[('Val', 'args')] = lambda I, base: ('opaque', 'excargs', base)
U.method_hooks[('Val', 'items')] = lambda I, obj, args, kwargs, node: S(I, 'items_view', obj)
U.method_hooks[('Val', 'most_common')] = lambda I, obj, args, kwargs, node: (S(I, 'most_common_of', obj) if not args and not kwargs
                                                                             else (_ for _ in ()).throw(OutsideSubset('most_common(n)')))
_call_cls_base = _call_cls


def _call_cls2(I, fn, args, kwargs, node):
    if fn.eq(CLS['dict']) and len(args) == 1 and not kwargs and is_z3(args[0]) and I.sort_of(args[0]) == 'Val':
        return S(I, 'dict_val', args[0])
    return _call_cls_base(I, fn, args, kwargs, node)


U.call_hooks['Cls'] = _call_cls2


def _h_call_alt_std(I, args, kwargs, node):
    """pretty_call_alt(ctx, cls, args=<tuple of objects>, kwargs=<collected pairs>) in a stdlib printer: named by call_alt_kw"""
    kw = dict(kwargs)
    a = list(args)
    if len(a) != 2 or set(kw) - {'args', 'kwargs'}:
        raise OutsideSubset('pretty_call_alt call shape in a stdlib printer')
    argv = kw.get('args', ())
    if isinstance(argv, tuple) and len(argv) == 3 and argv[0] == 'opaque' and argv[1] == 'excargs':
        al = S(I, 'exc_args', argv[2])
    else:
        al = _to_list(I, 'ArgList', argv, _to_arg)
    ks = kw.get('kwargs', [])
    if is_z3(ks) and I.sort_of(ks) == 'KwSnoc':
        kl = S(I, 'app_kw', ks, U.nil('KwList'))
    elif isinstance(ks, (list, tuple)) and not ks:
        kl = U.nil('KwList')
    else:
        raise OutsideSubset('kwargs of a stdlib printer')
    if 'kwargs' not in kw:
        return S(I, 'call_alt', I.coerce(a[0], 'Ctx'), I.coerce(a[1], 'Cls'), al)
    return S(I, 'call_alt_kw', I.coerce(a[0], 'Ctx'), I.coerce(a[1], 'Cls'), al, kl)


C.extern[STD] = {'pretty_call_alt': FuncVal('hook', 'pretty_call_alt', _h_call_alt_std)}
_SERV7 = ['C07']
C.contract(STD, 'pretty_deque', params={'value': 'Val', 'ctx': 'Ctx'}, returns='Doc', locals_={'kwargs': 'KwSnoc'},
           ensures=[('chosen-call:bounded-deque-keeps-its-maxlen',
                     'implies(maxlen_of(value) is not None, result == call_alt_kw(ctx, cls_of(value), [AVal(list_val(items(value)))], '
                     '[Kw("maxlen", unwrap(maxlen_of(value)))]))'),
                    ('chosen-call:unbounded-deque-of-all-items',
                     'implies(maxlen_of(value) is None, result == call_alt_kw(ctx, cls_of(value), [AVal(list_val(items(value)))], []))')],
           serves=_SERV7)
C.contract(STD, 'pretty_defaultdict', params={'d': 'Val', 'ctx': 'Ctx'}, returns='Doc',
           ensures=[('chosen-call:factory-then-the-plain-dict', 'result == call_alt(ctx, cls_of(d), [AVal(default_factory_of(d)), AVal(dict_val(d))])')],
           serves=_SERV7)
C.contract(STD, 'pretty_ordereddict', params={'d': 'Val', 'ctx': 'Ctx'}, returns='Doc',
           ensures=[('chosen-call:list-of-the-items-in-order', 'result == call_alt(ctx, cls_of(d), [AVal(list_val(items(items_view(d))))])')],
           serves=_SERV7)
C.contract(STD, 'pretty_counter', params={'counter': 'Val', 'ctx': 'Ctx'}, returns='Doc',
           ensures=[('chosen-call:dict-of-the-counts', 'result == call_alt(ctx, cls_of(counter), [AVal(dict_val(most_common_of(counter)))])')],
           serves=_SERV7)
C.contract(STD, 'pretty_mappingproxy', params={'value': 'Val', 'ctx': 'Ctx'}, returns='Doc',
           ensures=[('chosen-call:the-plain-dict', 'result == call_alt(ctx, cls_of(value), [AVal(dict_val(value))])')], serves=_SERV7)
C.contract(STD, 'pretty_baseexception', params={'exc': 'Val', 'ctx': 'Ctx'}, returns='Doc',
           ensures=[('chosen-call:the-exception-arguments', 'result == call_alt(ctx, cls_of(exc), exc_args(exc))')], serves=_SERV7)
C.assume('clauses named chosen-call: pin the constructor call the printer chose; the property only asks for SOME call that rebuilds an equal object, '
         'so a refuted chosen-call clause is a violation only with a failing input from the replay (real prints of deques, defaultdicts, '
         'OrderedDicts, Counters, exceptions evaluated and compared); without one it is reported as undecided')
C.assume('stdlib constructor protocols (the reason these calls rebuild an equal object; not checkable by a contract on the printer): '
         'deque(list(d), maxlen=d.maxlen) == d; defaultdict(d.default_factory, dict(d)) == d; OrderedDict(list(d.items())) == d; '
         'Counter(dict(c.most_common())) == c; type(e)(*e.args) rebuilds an exception with the same args')


@C.spec([('v', 'Val')], 'Str', opaque=True)
def str_text(v):
    return str(v)


_call_cls_base2 = _call_cls2


def _call_cls3(I, fn, args, kwargs, node):
    if fn.eq(CLS['str']) and len(args) == 1 and not kwargs and is_z3(args[0]) and I.sort_of(args[0]) == 'Val':
        return S(I, 'str_text', args[0])
    return _call_cls_base2(I, fn, args, kwargs, node)


U.call_hooks['Cls'] = _call_cls3
_to_arg_base3 = _to_arg


def _to_arg3(I, a):
    if is_z3(a) and I.sort_of(a) == 'Str':
        return U.ctor('Arg', 'AStr')(a)
    return _to_arg_base3(I, a)


_to_arg = _to_arg3
C.contract(STD, 'pretty_uuid', params={'value': 'Val', 'ctx': 'Ctx'}, returns='Doc',
           ensures=[('chosen-call:the-canonical-text', 'result == call_alt(ctx, cls_of(value), [AStr(str_text(value))])')], serves=_SERV7)


# ==== pretty_str (outer function): the depth placeholder of a string (C11); the width-dependent part is pretty_str.evaluator (strings) ====
C.extern[PP]['contextual'] = FuncVal('hook', 'contextual', lambda I, a, k, n: I.fresh('Doc', 'contextual'))
_ps = C.contract(
    PP, 'pretty_str', params={'s': 'Val', 'ctx': 'Ctx', 'split_pattern': 'OptStr'}, returns='Doc',
    ensures=[('depth-placeholder-of-its-own-type', 'implies(ctx.depth_left == 0, result == call_alt(ctx, cls_of(s), [AEllipsis()]))')],
    serves=['C11', 'C08'],
    note='below the cut a str / bytes (or subclass) instance is the call placeholder of its own class; otherwise the result is the '
         'contextual document whose evaluator is verified in family strings')
_ps.defaults = {'split_pattern': None}
