"""Sorts of the layout family (doctypes.py, sdoctypes.py, layout.py, render.py, doc.py)."""
import ast
import z3
from pvf.pyvc.universe import Universe
from pvf.pyvc.interp import OutsideSubset, GenExp, is_z3


def make_universe():
    U = Universe('layout')
    U.uninterpreted('Ann')       # annotation values (arbitrary Python objects)
    U.uninterpreted('CtxFn')     # functions wrapped by Contextual
    U.uninterpreted('Float')     # ribbon_frac: only passed around and multiplied/rounded (uninterpreted)
    U.enum('Mode', ['BREAK', 'FLAT'])
    U.enum('Status', ['GO', 'FITS', 'FAILS'])
    U.declare({
        # one universe for everything that travels on the document stack or in the output:
        # documents, and the three SDoc classes (SAnnotationPop is pushed on the stack by best_layout)
        'Obj': ('data', [
            ('Nil', []),
            ('Text', [('s', 'Str')]),                       # a plain str used as a document / text sdoc
            ('HardLine', []),
            ('Concat', [('docs', 'ObjList')]),
            ('Nest', [('indent', 'Int'), ('doc', 'Obj')]),
            ('Group', [('doc', 'Obj')]),
            ('AlwaysBreak', [('doc', 'Obj')]),
            ('Fill', [('docs', 'ObjList')]),
            ('FlatChoice', [('_when_broken', 'Obj'), ('_when_flat', 'Obj'), ('normalize_on_access', 'Bool'),
                            ('_broken_normalized', 'Bool'), ('_flat_normalized', 'Bool')]),
            ('Annotated', [('doc', 'Obj'), ('annotation', 'Ann')]),
            ('Contextual', [('fn', 'CtxFn')]),
            ('SLine', [('indent', 'Int')]),
            ('SAnnotationPush', [('value', 'Ann')]),
            ('SAnnotationPop', [('value', 'Ann')]),
        ]),
        'ObjList': ('list', 'Obj', 'fwd'),
        'Triple': ('record', [('indent', 'Int'), ('mode', 'Mode'), ('doc', 'Obj')]),
        'Stack': ('list', 'Triple', 'stack'),
        'Out': ('list', 'Obj', 'snoc'),
        'WR': ('record', [('status', 'Status'), ('w', 'Int')]),
        'St': ('record', [('out', 'Out'), ('col', 'Int'), ('k', 'Int'), ('brk', 'Bool'), ('fl', 'Int')]),
    })
    for c in ('Concat', 'Nest', 'Group', 'AlwaysBreak', 'Fill', 'FlatChoice', 'Annotated', 'Contextual',
              'SLine', 'SAnnotationPush', 'SAnnotationPop', 'Nil', 'HardLine'):
        U.classmap[c] = ('Obj', c)
    U.ctor_names = {}
    U.consts['NIL'] = U.ctor('Obj', 'Nil')()
    U.consts['HARDLINE'] = U.ctor('Obj', 'HardLine')()
    U.consts['BREAK_MODE'] = U.enums['Mode']['BREAK']
    U.consts['FLAT_MODE'] = U.enums['Mode']['FLAT']
    for k, v in U.enums['Status'].items():
        U.consts[k] = v
    # page width and ribbon width of the layout call the spec functions talk about
    U.consts['PW'] = z3.Int('PW')
    U.consts['RW'] = z3.Int('RW')
    U.consts['SMART'] = z3.Bool('SMART')      # which fitting predicate the layout call uses

    fmul = z3.Function('float_mul_int', U.sort('Float'), z3.IntSort(), U.sort('Float'))
    fround = z3.Function('py_round', U.sort('Float'), z3.IntSort())
    U.float_mul, U.float_round = fmul, fround

    def extend_reversed(I, sn, stack, gen, L):
        """stack.extend((a, b, x) for x in reversed(L))  ->  push_rev(stack, a, b, L)
        (fixed translation of this idiom; push_rev is defined in the contracts)."""
        elt = gen.elt
        tgt = gen.target
        if not (isinstance(elt, ast.Tuple) and len(elt.elts) == 3 and isinstance(tgt, ast.Name)
                and isinstance(elt.elts[2], ast.Name) and elt.elts[2].id == tgt.id):
            raise OutsideSubset('extend(genexpr) shape')
        saved = I.env
        I.env = gen.env
        try:
            a, b = I.ev(elt.elts[0]), I.ev(elt.elts[1])
        finally:
            I.env = saved
        return I.call_spec(I.cset.specs['push_rev'], [stack, a, b, L], {})
    def flatchoice_init(I, args, kwargs):
        """FlatChoice.__init__(when_broken, when_flat, normalize_on_access=False): both cache flags start False"""
        vals = list(args)
        names = ['when_broken', 'when_flat', 'normalize_on_access']
        for n in names[len(vals):]:
            vals.append(kwargs.get(n, False))
        return vals + [False, False]
    U.class_init = {'FlatChoice': flatchoice_init}

    def fc_setattr(field):
        def hook(I, base, value):
            ct, rec, accs, names = U.ctors[('Obj', 'FlatChoice')]
            fsorts = [sname for cn, fl in U.decl_spec['Obj'][1] if cn == 'FlatChoice' for _, sname in fl]
            vals = [I.coerce(value, fsorts[j]) if names[j] == field else z3.simplify(accs[j](base)) for j in range(len(names))]
            return ct(*vals)
        return hook
    U.setattr_hooks = {('Obj', f): fc_setattr(f) for f in ('_when_broken', '_when_flat', '_broken_normalized', '_flat_normalized')}
    U.extend_reversed_idiom = extend_reversed

    def extend_forward(I, sn, stack, gen, L):
        """stack.extend((a, b, x) for x in L)  ->  push_fwd(stack, a, b, L)"""
        elt = gen.elt
        tgt = gen.target
        if not (isinstance(elt, ast.Tuple) and len(elt.elts) == 3 and isinstance(tgt, ast.Name)
                and isinstance(elt.elts[2], ast.Name) and elt.elts[2].id == tgt.id):
            raise OutsideSubset('extend(genexpr) shape')
        saved = I.env
        I.env = gen.env
        try:
            a, b = I.ev(elt.elts[0]), I.ev(elt.elts[1])
        finally:
            I.env = saved
        return I.call_spec(I.cset.specs['push_fwd'], [stack, a, b, L], {})
    U.extend_forward_idiom = extend_forward
    return U


def float_binop_hook(U):
    pass

