"""Family `registry` (C15): register_pretty, its decorator, and is_registered over an abstract view of the three registries.

Abstract state (module-level state declared as `globals_` of the contracts):
    __registry__                  Cls -> OptFn     pretty_dispatch.registry without the base entry singledispatch keeps under object
    _DEFERRED_DISPATCH_BY_NAME    Key -> OptFn     printers registered by qualified name, awaiting their class
    _PREDICATE_REGISTRY           [(Pred, Fn)]     in registration order

The rule of the statement:  eff(T) = walk T.__mro__; the first class with a by-name or a direct entry decides (by-name first:
"a later registration replacing an earlier one" is the pop-and-register of promotion).  Proved for every state, class and MRO:

  * is_registered answers  "some class of the MRO has an entry" (cs) / "T has an entry" (not cs), by-name entries counting
    iff check_deferred - for every flag combination; ValueError exactly for (not check_deferred and register_deferred);
  * with register_deferred=False nothing changes;
  * whatever it promotes, eff(T') is unchanged for EVERY class T' (promotion is invisible to dispatch);
  * after is_registered(T, True, True, True) - what every print does first - singledispatch's own lookup
    (first direct entry of the MRO) IS eff(T);
  * register_pretty's decorator writes exactly one entry of exactly one registry, by the kind of its argument.
"""
import ast
import z3
from pvf.pyvc.universe import Universe
from pvf.pyvc.contract import ContractSet
from pvf.pyvc.interp import OutsideSubset, SymRaise, FuncVal, is_z3
from pvf.pyvc import interp as _interp

U = Universe('registry')
U.uninterpreted('Cls')
U.uninterpreted('Fn')
U.uninterpreted('Key')
U.uninterpreted('Pred')
U.uninterpreted('Disp')         # the singledispatch function object
U.declare({
    'OptFn': ('data', [('NoFn', []), ('SomeFn', [('v', 'Fn')])]),
    'OptPred': ('data', [('NoPred', []), ('SomePred', [('v', 'Pred')])]),
    'Target': ('data', [('NoT', []), ('ByName', [('k', 'Key')]), ('ByClass', [('c', 'Cls')])]),   # the `type` argument
    'PF': ('record', [('pred', 'Pred'), ('fn', 'Fn')]),
    'ClsList': ('list', 'Cls', 'fwd'),
    'PredList': ('list', 'PF', 'snoc'),
})
U.options = {'OptFn': 'Fn', 'OptPred': 'Pred'}
Reg = z3.ArraySort(U.sort('Cls'), U.sort('OptFn'))
Dfr = z3.ArraySort(U.sort('Key'), U.sort('OptFn'))
U.sorts['Reg'] = Reg
U.sorts['Dfr'] = Dfr
BASE = z3.Const('BASE', U.sort('Fn'))
OBJECT = z3.Const('OBJECT', U.sort('Cls'))
DISP = z3.Const('pretty_dispatch', U.sort('Disp'))
U.consts['_BASE_DISPATCH'] = BASE
U.consts['OBJECT'] = OBJECT
U.consts['pretty_dispatch'] = DISP
U.consts['NoT'] = U.ctor('Target', 'NoT')()
U.none_values = {'Target': U.ctor('Target', 'NoT')()}
U.classmap['ByName'] = ('Target', 'ByName')
U.classmap['ByClass'] = ('Target', 'ByClass')

C = ContractSet(U, 'registry')
PP = 'prettyprinter.prettyprinter'
_G = {'__registry__': 'Reg', '_DEFERRED_DISPATCH_BY_NAME': 'Dfr', '_PREDICATE_REGISTRY': 'PredList'}


# ---- vocabulary ---------------------------------------------------------------------------------
@C.spec([('c', 'Cls')], 'Key', opaque=True)
def dkey(c):
    """get_deferred_key(c): module + '.' + qualname"""
    raise NotImplementedError


@C.spec([('c', 'Cls')], 'ClsList', opaque=True)
def mro(c):
    """c.__mro__"""
    raise NotImplementedError


@C.spec([('f', 'Fn')], 'Bool', opaque=True)
def accepts2(f):
    """inspect.signature(f).bind(value, ctx) succeeds"""
    raise NotImplementedError


@C.spec([('p', 'Pred')], 'Bool', opaque=True)
def is_callable(p):
    raise NotImplementedError


@C.spec([('dfr', 'Dfr')], 'Bool', opaque=True)
def all_accept(dfr):
    """every pending by-name printer passed the (value, ctx) signature test when it was registered:
    forall k. dfr[k] is SomeFn(f) => accepts2(f)   (quantified: used through its instances only, see _dfr_pop and lemma_all_accept_put)"""
    raise NotImplementedError


@C.spec([('dfr', 'Dfr'), ('c', 'Cls')], 'Bool')
def has_d(dfr, c):
    """c has a pending by-name entry"""
    return dfr[dkey(c)] is not None


@C.spec([('reg', 'Reg'), ('c', 'Cls')], 'Bool')
def in_r(reg, c):
    """c has a direct entry"""
    return reg[c] is not None


@C.spec([('reg', 'Reg'), ('dfr', 'Dfr'), ('cs', 'ClsList')], 'Fn')
def eff_walk(reg, dfr, cs):
    """THE RULE: the printer for a class whose MRO is cs - the nearest class with a by-name or direct entry; BASE
    (predicates, then repr) if there is none"""
    if not cs:
        return _BASE_DISPATCH
    if dfr[dkey(cs[0])] is not None:
        return unwrap(dfr[dkey(cs[0])])
    if reg[cs[0]] is not None:
        return unwrap(reg[cs[0]])
    return eff_walk(reg, dfr, cs[1:])


@C.spec([('reg', 'Reg'), ('cs', 'ClsList')], 'Fn')
def disp_walk(reg, cs):
    """what singledispatch's dispatch() finds: the nearest class with a direct entry"""
    if not cs:
        return _BASE_DISPATCH
    if reg[cs[0]] is not None:
        return unwrap(reg[cs[0]])
    return disp_walk(reg, cs[1:])


@C.spec([('reg', 'Reg'), ('dfr', 'Dfr'), ('cs', 'ClsList')], 'Bool')
def anyc(reg, dfr, cs):
    """some class of cs has an entry (by name or direct)"""
    if not cs:
        return False
    return has_d(dfr, cs[0]) or in_r(reg, cs[0]) or anyc(reg, dfr, cs[1:])


@C.spec([('reg', 'Reg'), ('cs', 'ClsList')], 'Bool')
def anyr(reg, cs):
    """some class of cs has a direct entry"""
    if not cs:
        return False
    return in_r(reg, cs[0]) or anyr(reg, cs[1:])


@C.spec([('dfr', 'Dfr'), ('cs', 'ClsList')], 'Bool')
def nodfr(dfr, cs):
    if not cs:
        return True
    return not has_d(dfr, cs[0]) and nodfr(dfr, cs[1:])


@C.spec([('reg', 'Reg'), ('dfr', 'Dfr'), ('cs', 'ClsList')], 'Bool')
def stops(reg, dfr, cs):
    """walking cs, a direct entry is met before any by-name entry"""
    if not cs:
        return False
    if has_d(dfr, cs[0]):
        return False
    if in_r(reg, cs[0]):
        return True
    return stops(reg, dfr, cs[1:])


@C.spec([('pre', 'ClsList'), ('suf', 'ClsList')], 'ClsList')
def rev_app(pre, suf):
    """reverse(pre) ++ suf: the classes a loop has consumed (latest first) put back in front of the rest"""
    if not pre:
        return suf
    return rev_app(pre[1:], cons(pre[0], suf))


# ---- lemmas ---------------------------------------------------------------------------------
@C.lemma([('a', 'Cls'), ('b', 'Cls')], ensures=['implies(dkey(a) == dkey(b), a == b)'], triggers=['dkey(a)', 'dkey(b)'], trusted=True,
         note='distinct classes have distinct qualified names (module + qualname): the premise of "deferred and direct registration '
              'being equivalent"; two classes sharing a qualified name share one by-name entry')
def lemma_dkey_injective(a, b):
    pass


@C.lemma([('c', 'Cls')], ensures=['not (not mro(c))', 'mro(c)[0] == c'], triggers=['mro(c)'], trusted=True,
         note='a class is the first element of its own __mro__')
def lemma_mro_head(c):
    pass


@C.lemma([], ensures=['mro(OBJECT)[1:] == []'], triggers=[], trusted=True, note='object.__mro__ == (object,)')
def lemma_mro_object():
    pass


@C.lemma([('reg', 'Reg'), ('dfr', 'Dfr'), ('cs', 'ClsList')], requires=['nodfr(dfr, cs)'],
         ensures=['eff_walk(reg, dfr, cs) == disp_walk(reg, cs)', 'anyc(reg, dfr, cs) == anyr(reg, cs)'],
         triggers=[], decreases=['rank(cs)'])
def lemma_no_deferred(reg, dfr, cs):
    """without by-name entries the rule is singledispatch's lookup"""
    if not cs:
        return
    lemma_no_deferred(reg, dfr, cs[1:])


@C.lemma([('reg', 'Reg'), ('dfr', 'Dfr'), ('cs', 'ClsList')], requires=['stops(reg, dfr, cs)'],
         ensures=['eff_walk(reg, dfr, cs) == disp_walk(reg, cs)'], triggers=[], decreases=['rank(cs)'])
def lemma_stops(reg, dfr, cs):
    if not cs:
        return
    if not in_r(reg, cs[0]):
        lemma_stops(reg, dfr, cs[1:])


@C.lemma([('reg', 'Reg'), ('dfr', 'Dfr'), ('d', 'Cls'), ('cs', 'ClsList')], requires=['has_d(dfr, d)'],
         ensures=['eff_walk(aput(reg, d, dfr[dkey(d)]), aput(dfr, dkey(d), None), cs) == eff_walk(reg, dfr, cs)',
                  'anyc(aput(reg, d, dfr[dkey(d)]), aput(dfr, dkey(d), None), cs) == anyc(reg, dfr, cs)'],
         triggers=[], decreases=['rank(cs)'])
def lemma_promotion_invisible(reg, dfr, d, cs):
    """moving the by-name entry of d into the direct registry changes the printer of no class"""
    if not cs:
        return
    lemma_dkey_injective(cs[0], d)
    lemma_promotion_invisible(reg, dfr, d, cs[1:])


@C.lemma([('dfr', 'Dfr'), ('k', 'Key'), ('cs', 'ClsList')], requires=['nodfr(dfr, cs)'],
         ensures=['nodfr(aput(dfr, k, None), cs)'], triggers=[], decreases=['rank(cs)'])
def lemma_nodfr_pop(dfr, k, cs):
    if not cs:
        return
    lemma_nodfr_pop(dfr, k, cs[1:])


@C.lemma([('reg', 'Reg'), ('dfr', 'Dfr'), ('pre', 'ClsList'), ('suf', 'ClsList')], requires=['nodfr(dfr, pre)'],
         ensures=['implies(stops(reg, dfr, suf), stops(reg, dfr, rev_app(pre, suf)))',
                  'implies(anyc(reg, dfr, suf), anyc(reg, dfr, rev_app(pre, suf)))',
                  'implies(nodfr(dfr, suf), nodfr(dfr, rev_app(pre, suf)))'],
         triggers=[], decreases=['rank(pre)'])
def lemma_rev_app(reg, dfr, pre, suf):
    """classes without by-name entries in front of a list change none of the three facts"""
    if not pre:
        return
    lemma_rev_app(reg, dfr, pre[1:], cons(pre[0], suf))


# ---- the Python the functions use ---------------------------------------------------------------
def _aput(I, args, kwargs, node):
    arr, k, v = args
    dom = U.sort_name(arr.sort().domain())
    rng = U.sort_name(arr.sort().range())
    return z3.Store(arr, I.coerce(k, dom), I.coerce(v, rng))


_interp.BUILTINS['aput'] = _aput


def _subscript_array(I, base, sl):
    k = I.ev(sl)
    return z3.Select(base, I.coerce(k, U.sort_name(base.sort().domain())))


def _subscript_reg(I, base, sl):
    """pretty_dispatch.registry[type]: the base printer sits under object unless a printer was registered for object"""
    k = I.coerce(I.ev(sl), 'Cls')
    e = z3.Select(base, k)
    I.assume(z3.Implies(U.is_('OptFn', 'SomeFn', e), U.acc('OptFn', 'SomeFn', 'v')(e) != BASE))      # registered wrappers are not BASE
    return z3.If(U.is_('OptFn', 'SomeFn', e), U.acc('OptFn', 'SomeFn', 'v')(e), BASE)


U.subscript_hooks = {'Dfr': _subscript_array, 'Reg': _subscript_array}


_DFR_NONEMPTY = z3.Function('dfr_nonempty', Dfr, z3.BoolSort())       # bool(d) of the by-name dictionary


def _contains_dfr(I, container, x):
    k = x
    if is_z3(x) and I.sort_of(x) == 'Target':
        k = U.acc('Target', 'ByName', 'k')(x)
    present = U.is_('OptFn', 'SomeFn', z3.Select(container, I.coerce(k, 'Key')))
    I.assume(z3.Implies(present, _DFR_NONEMPTY(container)))         # a dictionary with an entry is truthy (instance)
    return present


class _RegistryView:
    """the read-only mapping pretty_dispatch.registry (singledispatch keeps the base function under object)"""

    def __init__(self, arr):
        self.arr = arr


def _contains(I, container, x):
    return None


_orig_contains = _interp.Interp.contains
_orig_subscript = _interp.Interp.ev_Subscript


def _contains_patch(self, container, x):
    if isinstance(container, _RegistryView):
        c = self.coerce(x, 'Cls')
        return z3.Or(c == OBJECT, U.is_('OptFn', 'SomeFn', z3.Select(container.arr, c)))
    return _orig_contains(self, container, x)


def _subscript_patch(self, node):
    if isinstance(node.value, ast.Attribute) and node.value.attr == 'registry':
        base = self.ev(node.value)
        if isinstance(base, _RegistryView):
            return _subscript_reg(self, base.arr, node.slice)
    return _orig_subscript(self, node)


_interp.Interp.contains = _contains_patch
_interp.Interp.ev_Subscript = _subscript_patch
U.contains_hooks = {'Dfr': _contains_dfr}


def _dfr_pop(I, obj, args, kwargs, node):
    k = I.coerce(args[0], 'Key')
    e = z3.Select(obj, k)
    if not I.choose_bool(U.is_('OptFn', 'SomeFn', e), '@key present'):
        raise SymRaise('KeyError', 'pop of an absent key')
    I.rebind_target(node, z3.Store(obj, k, U.ctor('OptFn', 'NoFn')()))
    v = U.acc('OptFn', 'SomeFn', 'v')(e)
    # instances of the (quantified) definition of all_accept: for the key that is read, and "removing an entry preserves it"
    aa = I.call_spec(C.specs['all_accept'], [obj], {})
    I.assume(z3.Implies(aa, I.call_spec(C.specs['accepts2'], [v], {})))
    I.assume(z3.Implies(aa, I.call_spec(C.specs['all_accept'], [z3.Store(obj, k, U.ctor('OptFn', 'NoFn')())], {})))
    return v


def _setitem_dfr(I, base, slice_node, value):
    k = I.ev(slice_node)
    if is_z3(k) and I.sort_of(k) == 'Target':
        if not I.pure and not I.choose_bool(U.is_('Target', 'ByName', k), '@key is a str'):
            raise OutsideSubset('by-name registry keyed by a non-str')
        k = U.acc('Target', 'ByName', 'k')(k)
    fn = I.coerce(value, 'Fn')
    new = z3.Store(base, I.coerce(k, 'Key'), U.ctor('OptFn', 'SomeFn')(fn))
    # instance of the definition of all_accept: storing an accepting printer preserves it
    I.assume(z3.Implies(z3.And(I.call_spec(C.specs['all_accept'], [base], {}), I.call_spec(C.specs['accepts2'], [fn], {})),
                        I.call_spec(C.specs['all_accept'], [new], {})))
    return new


U.setitem_hooks = {'Dfr': _setitem_dfr}


def _disp_register(I, obj, args, kwargs, node):
    cls, fn = args
    if is_z3(cls) and I.sort_of(cls) == 'Target':
        if not I.choose_bool(U.is_('Target', 'ByClass', cls), '@registers a class'):
            raise SymRaise('TypeError', 'singledispatch.register of a non-class')
        cls = U.acc('Target', 'ByClass', 'c')(cls)
    I.env['__registry__'] = z3.Store(I.env['__registry__'], I.coerce(cls, 'Cls'), U.ctor('OptFn', 'SomeFn')(I.coerce(fn, 'Fn')))
    return fn


def _disp_dispatch(I, obj, args, kwargs, node):
    m = I.call_spec(C.specs['mro'], [I.coerce(args[0], 'Cls')], {})
    r = I.call_spec(C.specs['disp_walk'], [I.env['__registry__'], m], {})
    # registered wrappers are not BASE: the lookup returns BASE exactly when no class of the MRO has a direct entry
    I.assume((r != BASE) == I.call_spec(C.specs['anyr'], [I.env['__registry__'], m], {}))
    return r


U.method_hooks = {('Dfr', 'pop'): _dfr_pop, ('Disp', 'register'): _disp_register, ('Disp', 'dispatch'): _disp_dispatch}
U.attr_hooks = {('Disp', 'registry'): lambda I, base: _RegistryView(I.env['__registry__']),
                ('Cls', '__mro__'): lambda I, base: _mro_attr(I, base),
                ('Fn', '__module__'): lambda I, base: I.fresh('Str', 'modname'),
                ('Fn', '__qualname__'): lambda I, base: I.fresh('Str', 'qualname')}
def _mro_attr(I, base):
    m = I.call_spec(C.specs['mro'], [base], {})
    I.assume(z3.And(U.is_cons('ClsList', m), U.hd('ClsList', m) == base))        # lemma_mro_head, instantiated where __mro__ is read
    return m


U.truthy = {'Dfr': lambda v: _DFR_NONEMPTY(v), 'Target': lambda v: z3.Or(U.is_('Target', 'ByClass', v),
                                      z3.And(U.is_('Target', 'ByName', v), C_nonempty(U.acc('Target', 'ByName', 'k')(v))))}
U.isinstance_hooks = {('Target', 'str'): lambda I, v: U.is_('Target', 'ByName', v)}
_NONEMPTY = z3.Function('nonempty_key', U.sort('Key'), z3.BoolSort())


def C_nonempty(k):
    return _NONEMPTY(k)


def _partial(I, args, kwargs, node):
    """partial(_run_pretty, fn): the registered wrapper is identified with fn"""
    if len(args) != 2 or not (isinstance(args[0], FuncVal) and args[0].name == '_run_pretty'):
        raise OutsideSubset('partial() shape')
    return args[1]


def _signature(I, args, kwargs, node):
    return ('opaque', 'signature', args[0])


def _opaque_method(I, obj, name, args, kwargs, node):
    if obj[1] == 'signature' and name == 'bind':
        if not I.choose_bool(I.call_spec(C.specs['accepts2'], [obj[2]], {}), '@sig.bind accepts'):
            raise SymRaise('TypeError', 'signature mismatch')
        return ('opaque', 'bound')
    raise OutsideSubset('method %s on %r' % (name, obj[1]))


def _opaque_attr(I, obj, attr):
    if obj[1] == 'signature' and attr == 'bind':
        return FuncVal('method', attr, obj)
    raise OutsideSubset('attribute %s on %r' % (attr, obj[1]))


U.opaque_method = _opaque_method
U.opaque_attr = _opaque_attr
U.modules = {'inspect': {'signature': _signature}}
def _b_callable(I, args, kwargs, node):
    p = args[0]
    if is_z3(p) and I.sort_of(p) == 'OptPred':
        return z3.And(U.is_('OptPred', 'SomePred', p), I.call_spec(C.specs['is_callable'], [U.acc('OptPred', 'SomePred', 'v')(p)], {}))
    return I.call_spec(C.specs['is_callable'], [I.coerce(p, 'Pred')], {})


_interp.BUILTINS['callable'] = _b_callable
_interp.BUILTINS.setdefault('repr', lambda I, args, kwargs, node: I.fresh('Str', 'repr'))


def _get_deferred_key(I, args, kwargs, node):
    return I.call_spec(C.specs['dkey'], [I.coerce(args[0], 'Cls')], {})


# ---- contracts ------------------------------------------------------------------------------------
_SAME_R = '__registry__ == old(__registry__)'
_SAME_D = '_DEFERRED_DISPATCH_BY_NAME == old(_DEFERRED_DISPATCH_BY_NAME)'
_SAME_P = '_PREDICATE_REGISTRY == old(_PREDICATE_REGISTRY)'

# register_pretty(type=None, predicate=None): argument validation; the registration itself is the decorator below
_rp = C.contract(PP, 'register_pretty', params={'type': 'Target', 'predicate': 'OptPred'},
                 raises={'ValueError': '(type is NoT and predicate is None) or (type is not NoT and predicate is not None) or '
                                       '(predicate is not None and not is_callable(unwrap(predicate)))'},
                 ensures=[('validated', 'not (type is NoT and predicate is None) and not (type is not NoT and predicate is not None)'),
                          ('callable', 'implies(predicate is not None, is_callable(unwrap(predicate)))')],
                 ensures_raise=[('no-effect', '%s and %s and %s' % (_SAME_R, _SAME_D, _SAME_P))],
                 serves=['C15'])
_rp.globals_ = dict(_G)
_rp.defaults = {'type': U.ctor('Target', 'NoT')(), 'predicate': None}

_IS_CLS = 'isinstance(type, ByClass)'
_IS_NAME = '(isinstance(type, ByName) and nonempty_(type.k))'
_dec = C.contract(
    PP, 'register_pretty.decorator', params={'fn': 'Fn'}, returns='Fn',
    requires=['not (type is NoT and predicate is None)', 'not (type is not NoT and predicate is not None)',
              'implies(predicate is not None, is_callable(unwrap(predicate)))', 'all_accept(_DEFERRED_DISPATCH_BY_NAME)'],
    modifies=['__registry__', '_DEFERRED_DISPATCH_BY_NAME', '_PREDICATE_REGISTRY'],
    raises={'ValueError': 'not accepts2(fn)', 'AssertionError': 'isinstance(type, ByName) and not nonempty_(type.k)'},
    ensures=[('returns-fn', 'result == fn'), ('accepted', 'accepts2(fn)'), ('all-accept', 'all_accept(_DEFERRED_DISPATCH_BY_NAME)'),
             ('by-class', 'implies(%s, __registry__ == aput(old(__registry__), type.c, fn) and %s and %s)' % (_IS_CLS, _SAME_D, _SAME_P)),
             ('by-name', 'implies(%s, _DEFERRED_DISPATCH_BY_NAME == aput(old(_DEFERRED_DISPATCH_BY_NAME), type.k, fn) and %s and %s)'
              % (_IS_NAME, _SAME_R, _SAME_P)),
             ('by-predicate', 'implies(predicate is not None, _PREDICATE_REGISTRY == old(_PREDICATE_REGISTRY) + [(unwrap(predicate), fn)] '
                              'and %s and %s)' % (_SAME_R, _SAME_D))],
    ensures_raise=[('no-effect', '%s and %s and %s' % (_SAME_R, _SAME_D, _SAME_P))],
    serves=['C15'])
_dec.globals_ = dict(_G, type='Target', predicate='OptPred')          # `type`, `predicate`: free variables of the closure
_interp.BUILTINS['nonempty_'] = lambda I, args, kwargs, node: C_nonempty(args[0])


def _register_pretty_call(I, args, kwargs, node):
    """register_pretty(cls) inside is_registered: the decorator with `type` bound to the class (argument validation of the outer
    function is trivially passed: type is a class, predicate is None)"""
    if kwargs or len(args) != 1:
        raise OutsideSubset('register_pretty call shape')
    tgt = U.ctor('Target', 'ByClass')(I.coerce(args[0], 'Cls'))

    def decorate(I2, a2, k2, n2):
        saved = {n: I2.env.get(n, KeyError) for n in ('type', 'predicate')}
        I2.env['type'] = tgt
        I2.env['predicate'] = U.ctor('OptPred', 'NoPred')()
        try:
            return I2.call_contract(_dec, list(a2), dict(k2), None)
        finally:
            for n, v in saved.items():
                if v is KeyError:
                    I2.env.pop(n, None)
                else:
                    I2.env[n] = v
    return FuncVal('hook', 'register_pretty(<class>)', decorate)


_MRO = 'mro(type)'
_OLD = 'old(__registry__), old(_DEFERRED_DISPATCH_BY_NAME)'
_NEW = '__registry__, _DEFERRED_DISPATCH_BY_NAME'
_ir = C.contract(
    PP, 'is_registered',
    params={'type': 'Cls', 'check_superclasses': 'Bool', 'check_deferred': 'Bool', 'register_deferred': 'Bool'},
    returns='Bool',
    requires=['all_accept(_DEFERRED_DISPATCH_BY_NAME)'],
    modifies=['__registry__', '_DEFERRED_DISPATCH_BY_NAME'],
    raises={'ValueError': 'not check_deferred and register_deferred'},
    forall={'cs_': 'ClsList'},
    ensures=[
        ('flags', 'check_deferred or not register_deferred'),
        ('answer-cs-cd', 'implies(check_superclasses and check_deferred, result == anyc(%s, %s))' % (_OLD, _MRO)),
        ('answer-cd', 'implies(not check_superclasses and check_deferred, '
                      'result == (has_d(old(_DEFERRED_DISPATCH_BY_NAME), type) or in_r(old(__registry__), type)))'),
        ('answer-cs', 'implies(check_superclasses and not check_deferred, result == anyr(old(__registry__), %s))' % _MRO),
        ('answer', 'implies(not check_superclasses and not check_deferred, result == in_r(old(__registry__), type))'),
        ('no-effect', 'implies(not register_deferred, %s and %s)' % (_SAME_R, _SAME_D)),
        ('invisible', 'eff_walk(%s, cs_) == eff_walk(%s, cs_)' % (_NEW, _OLD)),
        ('dispatch-is-the-rule', 'implies(check_superclasses and check_deferred and register_deferred, '
                                 'disp_walk(__registry__, %s) == eff_walk(%s, %s))' % (_MRO, _OLD, _MRO)),
        ('all-accept', 'all_accept(_DEFERRED_DISPATCH_BY_NAME)'),
    ],
    ensures_raise=[('no-effect', '%s and %s' % (_SAME_R, _SAME_D))],
    loops={0: dict(
        rest='rest', done='seen', modifies=['seen', '__registry__', '_DEFERRED_DISPATCH_BY_NAME', '_PREDICATE_REGISTRY'],
        inv=[('frame', '%s and %s and %s' % (_SAME_R, _SAME_D, _SAME_P)),
             ('split', 'mro(type)[1:] == rev_app(seen, rest)'),
             ('no-deferred-so-far', 'nodfr(_DEFERRED_DISPATCH_BY_NAME, seen)')],
        decreases=['len(rest)'])},
    serves=['C15'])
_ir.globals_ = dict(_G)
_ir.loops[0].done_sort = 'ClsList'
_ir.ghost_exit = ['''
lemma_mro_head(type)
lemma_mro_object()
if check_deferred and has_d(old(_DEFERRED_DISPATCH_BY_NAME), type):
    if register_deferred:
        # the by-name printer of the class itself was promoted
        lemma_promotion_invisible(old(__registry__), old(_DEFERRED_DISPATCH_BY_NAME), type, cs_)
        lemma_promotion_invisible(old(__registry__), old(_DEFERRED_DISPATCH_BY_NAME), type, mro(type))
        lemma_stops(__registry__, _DEFERRED_DISPATCH_BY_NAME, mro(type))
elif defined('supertype') and defined('deferred_key') and check_deferred and check_superclasses:
    if has_d(old(_DEFERRED_DISPATCH_BY_NAME), supertype):
        # returned from inside the loop: supertype is the first class of the MRO with a by-name printer
        lemma_rev_app(old(__registry__), old(_DEFERRED_DISPATCH_BY_NAME), seen[1:], cons(supertype, rest))
        if register_deferred:
            lemma_nodfr_pop(old(_DEFERRED_DISPATCH_BY_NAME), dkey(supertype), seen[1:])
            lemma_promotion_invisible(old(__registry__), old(_DEFERRED_DISPATCH_BY_NAME), supertype, cs_)
            lemma_promotion_invisible(old(__registry__), old(_DEFERRED_DISPATCH_BY_NAME), supertype, mro(type))
            lemma_rev_app(__registry__, _DEFERRED_DISPATCH_BY_NAME, seen[1:], cons(supertype, rest))
            lemma_stops(__registry__, _DEFERRED_DISPATCH_BY_NAME, mro(type))
elif defined('seen') and check_deferred and check_superclasses:
    # the loop ran through: no class of the MRO has a by-name printer
    lemma_rev_app(old(__registry__), old(_DEFERRED_DISPATCH_BY_NAME), seen, [])
    lemma_no_deferred(old(__registry__), old(_DEFERRED_DISPATCH_BY_NAME), mro(type))
''']

C.extern = {PP: {
    'get_deferred_key': FuncVal('hook', 'get_deferred_key', _get_deferred_key),
    'partial': FuncVal('hook', 'partial', _partial),
    '_run_pretty': FuncVal('hook', '_run_pretty', None),
    'register_pretty': FuncVal('hook', 'register_pretty', _register_pretty_call),
}}

# ---- pretty_python_value: the printer that runs is the one the rule names -------------------------------------------
U.uninterpreted('Val')
U.uninterpreted('PCtx')
U.uninterpreted('Doc')
U.uninterpreted('Cmt')
U.declare({'OptCmt': ('data', [('NoCmt', []), ('SomeCmt', [('v', 'Cmt')])])})
U.options['OptCmt'] = 'Cmt'
_CMT_TRUTHY = z3.Function('cmt_truthy', U.sort('Cmt'), z3.BoolSort())
U.truthy['Cmt'] = lambda v: _CMT_TRUTHY(v)


@C.spec([('v', 'Val')], 'Cls', opaque=True)
def typeof(v):
    """type(v)"""
    raise NotImplementedError


@C.spec([('v', 'Val')], 'Val', opaque=True)
def uw_value(v):
    """unwrap_comments(v)[0]"""
    raise NotImplementedError


@C.spec([('v', 'Val')], 'OptCmt', opaque=True)
def uw_comment(v):
    raise NotImplementedError


@C.spec([('v', 'Val')], 'OptCmt', opaque=True)
def uw_tc(v):
    raise NotImplementedError


@C.spec([('f', 'Fn'), ('v', 'Val'), ('ctx', 'PCtx'), ('tc', 'OptCmt')], 'Doc', opaque=True)
def run_printer(f, v, ctx, tc):
    """the document the registered wrapper of f returns for (v, ctx[, trailing_comment=tc])"""
    raise NotImplementedError


@C.spec([('d', 'Doc'), ('c', 'Cmt')], 'Doc', opaque=True)
def with_comment(d, c):
    """comment_doc(d, c)"""
    raise NotImplementedError


@C.spec([('c', 'OptCmt')], 'Bool')
def truthy_cmt(c):
    return c is not None and cmt_truthy_(unwrap(c))


_interp.BUILTINS['cmt_truthy_'] = lambda I, args, kwargs, node: _CMT_TRUTHY(I.coerce(args[0], 'Cmt'))


def _unwrap_comments(I, args, kwargs, node):
    v = I.coerce(args[0], 'Val')
    return (I.call_spec(C.specs['uw_value'], [v], {}), I.call_spec(C.specs['uw_comment'], [v], {}), I.call_spec(C.specs['uw_tc'], [v], {}))


def _call_dispatch(I, fn, args, kwargs, node):
    """pretty_dispatch(value, ctx[, trailing_comment=tc]): singledispatch looks the class of the first argument up and calls the entry"""
    if len(args) != 2 or set(kwargs) - {'trailing_comment'}:
        raise OutsideSubset('pretty_dispatch call shape')
    v = I.coerce(args[0], 'Val')
    m = I.call_spec(C.specs['mro'], [I.call_spec(C.specs['typeof'], [v], {})], {})
    f = I.call_spec(C.specs['disp_walk'], [I.env['__registry__'], m], {})
    tc = kwargs.get('trailing_comment', None)
    tc = I.coerce(tc, 'OptCmt')
    return I.call_spec(C.specs['run_printer'], [f, v, args[1], tc], {})


U.call_hooks = {'Disp': _call_dispatch}
_prev_type = _interp.BUILTINS.get('type')


def _b_type(I, args, kwargs, node):
    if I.U is U and is_z3(args[0]) and I.sort_of(args[0]) == 'Val':
        return I.call_spec(C.specs['typeof'], [args[0]], {})
    if _prev_type is not None:
        return _prev_type(I, args, kwargs, node)
    return ('opaque', 'type', args[0])


_interp.BUILTINS['type'] = _b_type


def _comment_doc(I, args, kwargs, node):
    return I.call_spec(C.specs['with_comment'], [args[0], I.coerce(args[1], 'Cmt')], {})


_EFF = 'eff_walk(old(__registry__), old(_DEFERRED_DISPATCH_BY_NAME), mro(typeof(uw_value(value))))'
_RUN = 'run_printer(%s, uw_value(value), ctx, (uw_tc(value) if truthy_cmt(uw_tc(value)) else None))' % _EFF
_pv = C.contract(
    PP, 'pretty_python_value', params={'value': 'Val', 'ctx': 'PCtx'}, returns='Doc',
    requires=['all_accept(_DEFERRED_DISPATCH_BY_NAME)'],
    modifies=['__registry__', '_DEFERRED_DISPATCH_BY_NAME'],
    forall={'cs_': 'ClsList'},
    ensures=[('runs-the-rule', 'result == (with_comment(%s, unwrap(uw_comment(value))) if truthy_cmt(uw_comment(value)) else %s)' % (_RUN, _RUN)),
             ('invisible', 'eff_walk(__registry__, _DEFERRED_DISPATCH_BY_NAME, cs_) == eff_walk(old(__registry__), old(_DEFERRED_DISPATCH_BY_NAME), cs_)'),
             ('all-accept', 'all_accept(_DEFERRED_DISPATCH_BY_NAME)')],
    serves=['C15'])
_pv.globals_ = dict(_G)
C.extern[PP].update({'unwrap_comments': FuncVal('hook', 'unwrap_comments', _unwrap_comments),
                      'comment_doc': FuncVal('hook', 'comment_doc', _comment_doc)})

# ---- _repr_pretty: the first-registered predicate that accepts the value, otherwise repr ---------------------------
U.declare({'PFList': ('list', 'PF', 'fwd')})


@C.spec([('p', 'Pred'), ('v', 'Val')], 'Bool', opaque=True)
def accepts_p(p, v):
    """bool(p(v))"""
    raise NotImplementedError


@C.spec([('f', 'Fn'), ('v', 'Val'), ('ctx', 'PCtx')], 'Doc', opaque=True)
def run_fn(f, v, ctx):
    """f(v, ctx)"""
    raise NotImplementedError


@C.spec([('v', 'Val')], 'Doc', opaque=True)
def repr_doc(v):
    """repr(v)"""
    raise NotImplementedError


@C.spec([('ps', 'PredList')], 'PFList', opaque=True)
def in_order(ps):
    """the (predicate, printer) pairs in registration order (the Python list itself; PredList is its append view)"""
    raise NotImplementedError


@C.spec([('ps', 'PFList'), ('v', 'Val'), ('ctx', 'PCtx')], 'Doc')
def first_match(ps, v, ctx):
    if not ps:
        return repr_doc(v)
    if accepts_p(ps[0].pred, v):
        return run_fn(ps[0].fn, v, ctx)
    return first_match(ps[1:], v, ctx)


def _for_hook(I, it, s):
    if is_z3(it) and I.sort_of(it) == 'PredList':
        return I.call_spec(C.specs['in_order'], [it], {})
    return None


U.for_hook = _for_hook
U.call_hooks['Pred'] = lambda I, fn, args, kwargs, node: I.call_spec(C.specs['accepts_p'], [fn, I.coerce(args[0], 'Val')], {})
U.call_hooks['Fn'] = lambda I, fn, args, kwargs, node: I.call_spec(C.specs['run_fn'], [fn, I.coerce(args[0], 'Val'), args[1]], {})
_prev_repr = _interp.BUILTINS.get('repr')


def _b_repr(I, args, kwargs, node):
    if I.U is U and is_z3(args[0]) and I.sort_of(args[0]) == 'Val':
        return I.call_spec(C.specs['repr_doc'], [args[0]], {})
    if _prev_repr is not None:
        return _prev_repr(I, args, kwargs, node)
    return I.fresh('Str', 'repr')


_interp.BUILTINS['repr'] = _b_repr

_rr = C.contract(PP, '_repr_pretty', params={'value': 'Val', 'ctx': 'PCtx'}, returns='Doc',
                 ensures=[('first-registered-accepting-predicate-else-repr',
                           'result == first_match(in_order(_PREDICATE_REGISTRY), value, ctx)')],
                 loops={0: dict(rest='rest', inv=[('suffix', 'first_match(rest, value, ctx) == first_match(in_order(_PREDICATE_REGISTRY), value, ctx)')],
                                decreases=['len(rest)'])},
                 serves=['C15'])
_rr.globals_ = dict(_G)
C.assume('predicates and printers are deterministic functions of their arguments (accepts_p, run_fn); an exception raised by a predicate '
         'is outside this family (C14)')

C.assume('pretty_dispatch.registry is modelled without the entry singledispatch keeps under object: `object in registry` is True and '
         '`registry[object]` is the base printer unless a printer was registered for object; registered wrappers partial(_run_pretty, fn) '
         'are identified with fn and are never the base printer')
C.assume('pretty_dispatch.dispatch(T) is the first direct entry along T.__mro__ (singledispatch for concrete classes; abstract base '
         'classes with virtual subclasses and the dispatch cache are not modelled)')
C.assume('inspect.signature(fn).bind(value, ctx) is a deterministic property of fn (accepts2)')
C.assume('all_accept(dfr) stands for the quantified fact "every pending by-name printer accepted (value, ctx) when it was registered"; it is '
         'used through three instances assumed where the dictionary is touched: the popped printer accepts; removing an entry and storing an '
         'accepting printer preserve it (hooks _dfr_pop, _setitem_dfr)')
C.assume('type.__mro__ is a non-empty list headed by the type (instance of lemma_mro_head assumed where __mro__ is read)')
