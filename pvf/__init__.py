"""pvf - contract-based verification framework for tommikaikkonen/prettyprinter.

pvf.pyvc       verification-condition generator over the real Python source (ast -> z3/cvc5)
pvf.contracts  sidecar contracts, spec functions, lemmas (two interpretations: z3 and native)
pvf.monitor    import hook that decorates the real source in memory with run-time contracts
pvf.bounded    bounded stand-ins (enumeration through the monitored real code)
"""
import os

REPO = os.environ.get('PVF_REPO', '/repo')
VERIF = os.path.dirname(os.path.dirname(os.path.abspath(__file__)))
