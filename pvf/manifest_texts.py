"""Texts of MANIFEST.json (claimed level, note, technique) per property; properties absent here are not claimed."""

TEXTS = {
    'C05': dict(
        category='other', engine='pyvc',
        technique='contract-based deductive verification: VCs generated from the ast of layout.py, discharged by z3/cvc5',
        text='Proved for all inputs: both fitting predicates return exactly fits(...) of a compositional width semantics '
             '(iff contract, loop invariant, termination). The link from "predicate true" to "the finished line fits" '
             '(ghost budget invariant of best_layout) is not proved yet; claimed as other until it is.',
        note='Assumed: normalize_doc / FlatChoice accessors preserve walk() (trusted contracts, listed in the evidence); '
             'contextual functions pure and size-bounded; float*int and round() uninterpreted; encoding of DESIGN 2.3.'),
    'C06': dict(
        category='other', engine='pyvc',
        technique='contract-based deductive verification: VCs generated from the ast of layout.py, discharged by z3/cvc5',
        text='Proved for all inputs: a fitting predicate answers False exactly when the compositional fits() spec is False '
             '(the other direction of the same iff contract as C05), i.e. a group is broken only for one of the reasons the '
             'statement lists. The pformat corollary is not decided yet.',
        note='Same trusted base as C05.'),
}

NOT_APPLICABLE = [
    {'property_id': 'C20', 'reason': 'interleavings of threads: sequential pre/postconditions have no thread model; outside contract-based deductive verification (DESIGN.md, C20)'},
] + [
    {'property_id': p, 'reason': 'check under construction in this session; not claimed until its machinery is committed'}
    for p in ['C01', 'C02', 'C03', 'C04', 'C07', 'C08', 'C09', 'C10', 'C11', 'C12', 'C13', 'C14', 'C15', 'C16', 'C17', 'C18', 'C19']
]
